"""C14 — structured control flow follows its reference semantics.

Programs of a small deep-embedded language (Model/C14_Control.v) are generated here, printed to Elk
source, run with the real `elk` binary, and compared (stdout + outcome) with the extracted reference
interpreter.  AST = nested lists mirroring the s-expression the OCaml driver parses."""
import os
import re
import vlib

NLOC = 8
RET_T = "Int | Bool | Nil | String"

# ----------------------------------------------------------------------------- s-expressions


def to_sexp(a):
    if isinstance(a, (list, tuple)):
        return "(" + " ".join(to_sexp(x) for x in a) + ")"
    return str(a)


def parse_sexp(s):
    toks = re.findall(r"\(|\)|[^\s()]+", s)
    pos = [0]

    def item():
        t = toks[pos[0]]
        pos[0] += 1
        if t == "(":
            out = []
            while toks[pos[0]] != ")":
                out.append(item())
            pos[0] += 1
            return out
        return t
    return item()


def seq(*ss):
    ss = [s for s in ss if s is not None]
    if not ss:
        return "skip"
    out = ss[-1]
    for s in reversed(ss[:-1]):
        out = ["seq", s, out]
    return out


def do(body, clauses, fin):
    return ["do", body, ["catches"] + [["c", p, s] for p, s in clauses], (["fin", fin] if fin is not None else "nofin")]


# ----------------------------------------------------------------------------- printer (AST -> Elk)

class Printer:
    def __init__(self, checked=False):
        self.u = 0
        self.checked = checked
        # in_method_blocks = True prints the helper call tg(k, v) inside method bodies as the block
        # expression (do println(k); v end) instead (both forms are exercised: odd-numbered tags)
        self.in_method = False

    def val(self, v):
        if v == "nil":
            return "nil"
        k, x = v
        if k == "i":
            return str(x)
        if k == "b":
            return "true" if str(x) == "1" else "false"
        if k == "s":
            return '"s%s"' % x
        raise ValueError(v)

    def expr(self, e):
        op = e[0]
        if op == "val":
            return self.val(e[1])
        if op == "var":
            return "c%s" % e[1]
        if op == "lt":
            return "(c%s < %s)" % (e[1], e[2])
        if op == "tag":
            if self.in_method and int(e[1]) % 2 == 1:
                return "(do\nprintln(%s)\n%s\nend)" % (e[1], self.expr(e[2]))
            return "tg(%s, %s)" % (e[1], self.expr(e[2]))
        if op == "not":
            return "(!%s)" % self.expr(e[1])
        if op in ("and", "or", "coal"):
            return "(%s %s %s)" % (self.expr(e[1]), {"and": "&&", "or": "||", "coal": "??"}[op], self.expr(e[2]))
        raise ValueError(e)

    def sstmt(self, s, ind):
        p = "  " * ind
        op = s[0]
        if op == "pprint":
            return [p + "println(%s)" % s[1]]
        if op == "pshow":
            return [p + "println(c%s.inspect)" % s[1]]
        if op == "pincr":
            return [p + "c%s += 1" % s[1]]
        if op == "pseq":
            return self.sstmt(s[1], ind) + self.sstmt(s[2], ind)
        if op == "piflt":
            return [p + "if (c%s < %s)" % (s[1], s[2])] + self.sstmt(s[3], ind + 1) + [p + "else"] + \
                self.sstmt(s[4], ind + 1) + [p + "end"]
        raise ValueError(s)

    def label(self, l):
        return "" if l == "none" else "$l%s: " % l

    def target(self, l):
        return "" if l == "none" else "[l%s]" % l

    def throw(self):
        return "throw " if self.checked else "throw unchecked "

    def stmt(self, s, ind, cv, cd):
        """cv: name of the variable bound by the innermost catch clause (or None); cd: catch depth"""
        p = "  " * ind
        if s == "skip":
            return [p + "nil"]
        if s == "showcaught":
            return [p + "println(%s.inspect)" % cv]
        if s == "rethrow":
            return [p + self.throw() + cv]
        op = s[0]
        if op == "print":
            return [p + "println(%s)" % s[1]]
        if op == "show":
            self.u += 1
            return [p + "t%d := %s" % (self.u, self.expr(s[1])), p + "println(t%d.inspect)" % self.u]
        if op == "setc":
            return [p + "c%s = %s" % (s[1], s[2])]
        if op == "incr":
            return [p + "c%s += 1" % s[1]]
        if op == "seq":
            return self.stmt(s[1], ind, cv, cd) + self.stmt(s[2], ind, cv, cd)
        if op == "if":
            return [p + "if (%s)" % self.expr(s[1])] + self.stmt(s[2], ind + 1, cv, cd) + [p + "else"] + \
                self.stmt(s[3], ind + 1, cv, cd) + [p + "end"]
        if op == "loop":
            return [p + self.label(s[1]) + "loop"] + self.stmt(s[2], ind + 1, cv, cd) + [p + "end"]
        if op == "while":
            return [p + self.label(s[1]) + "while (%s)" % self.expr(s[2])] + self.stmt(s[3], ind + 1, cv, cd) + [p + "end"]
        if op == "break":
            return [p + "break" + self.target(s[1])]
        if op == "continue":
            return [p + "continue" + self.target(s[1])]
        if op == "return":
            return [p + "return " + self.expr(s[1])]
        if op == "throw":
            return [p + self.throw() + self.val(s[1])]
        if op == "do":
            out = [p + "do"] + self.stmt(s[1], ind + 1, cv, cd)
            for c in s[2][1:]:
                pat, body = c[1], c[2]
                var = "e%d" % cd
                if pat == "pint":
                    out.append(p + "catch Int() as " + var)
                elif pat == "pstr":
                    out.append(p + "catch String() as " + var)
                elif pat[0] == "any":
                    if str(pat[1]) == "1":
                        out.append(p + "catch Value() as " + var)
                    else:
                        out.append(p + "catch _")
                        var = None
                elif pat[0] == "lit":
                    out.append(p + "catch " + self.val(pat[1]))
                    var = None
                out += self.stmt(body, ind + 1, var, cd + 1)
            if s[3] != "nofin":
                out.append(p + "finally")
                out += self.stmt(s[3][1], ind + 1, cv, cd)
            return out + [p + "end"]
        if op == "defer":
            b = s[1]
            if b[0] == "pprint":
                return [p + "defer println(%s)" % b[1]]
            return [p + "defer do"] + self.sstmt(b, ind + 1) + [p + "end"]
        if op == "call":
            if str(s[2]) == "1":
                self.u += 1
                return [p + "r%d := m%s()" % (self.u, s[1]), p + "println(r%d.inspect)" % self.u]
            return [p + "m%s()" % s[1]]
        raise ValueError(s)

    def frame_locals(self, ind):
        return ["  " * ind + "var c%d = 0" % i for i in range(NLOC)]

    def program(self, prog):
        assert prog[0] == "prog"
        ms = prog[1][1:]
        thr = " ! Int | String" if self.checked else ""
        out = ["def tg(k: Int, v: %s): %s" % (RET_T, RET_T), "  println(k)", "  v", "end"]
        for i, m in enumerate(ms):
            out.append("def m%d: %s%s" % (i, RET_T, thr))
            out += self.frame_locals(1)
            self.in_method = True
            out += self.stmt(m, 1, None, 0)
            self.in_method = False
            out += ["  nil", "end"]
        out += self.frame_locals(0)
        out += self.stmt(prog[2], 0, None, 0)
        return "\n".join(out) + "\n"


# ----------------------------------------------------------------------------- generators

THROWN = [["s", 1], ["s", 2], ["i", 1], ["i", 2]]
PATS = [["any", 0], ["any", 1], "pint", "pstr", ["lit", ["s", 1]], ["lit", ["i", 2]], ["lit", ["s", 2]]]


class Ctx:
    """per-frame generation context"""

    def __init__(self, callable_n):
        self.loops = []        # labels of enclosing loops in this frame (innermost last)
        self.cv = False        # innermost enclosing catch clause binds a variable
        self.free = list(range(NLOC))
        self.callable_n = callable_n
        self.fin_depth = 0     # number of enclosing finally bodies in this frame
        self.cif = False       # inside a catch clause that is inside a finally body

    def sub(self, loops=None, cv=None, fin=0, clause=False):
        c = Ctx(self.callable_n)
        c.fin_depth = self.fin_depth + fin
        c.cif = self.cif or (clause and self.fin_depth >= 1)
        c.loops = list(self.loops) if loops is None else loops
        c.cv = self.cv if cv is None else cv
        c.free = self.free     # shared: counters are per frame
        return c


class Gen:
    def __init__(self, rng):
        self.r = rng
        self.tag = 10
        self.lab = 0
        self.pairs = []        # (enter tag, finally tag) of every do-with-finally
        self.methods = []

    def t(self):
        self.tag += 1
        return self.tag

    def P(self):
        return ["print", self.t()]

    def newlabel(self):
        self.lab += 1
        return self.lab

    def fin_do(self, body, clauses, fin):
        """do-with-finally whose body and finally start with paired tags"""
        a, b = self.t(), self.t()
        self.pairs.append((a, b))
        return do(seq(["print", a], body), clauses, seq(["print", b], fin))

    # ---- expressions
    def atom(self):
        k = self.r.below(8)
        if k == 0:
            return ["val", "nil"]
        if k == 1:
            return ["val", ["b", self.r.below(2)]]
        if k == 2:
            return ["val", ["i", self.r.below(4)]]
        if k == 3:
            return ["val", ["s", 1 + self.r.below(3)]]
        if k == 4:
            return ["tag", self.t(), ["var", self.r.below(NLOC)]]   # a bare local left of ?? is narrowed to nil by the checker
        if k == 5:
            return ["lt", self.r.below(NLOC), self.r.below(3)]
        return ["tag", self.t(), self.r.choice([["val", "nil"], ["val", ["b", 0]], ["val", ["b", 1]], ["val", ["i", 0]],
                                               ["val", ["i", 5]], ["val", ["s", 2]], ["lt", self.r.below(NLOC), 1]])]

    def tagged(self):
        return ["tag", self.t(), self.r.choice([["val", "nil"], ["val", ["b", 0]], ["val", ["b", 1]], ["val", ["i", 0]],
                                               ["val", ["i", 5]], ["val", ["s", 2]], ["var", self.r.below(NLOC)]])]

    def sc_expr(self, d=2):
        if d == 0 or self.r.chance(1, 4):
            return self.tagged() if self.r.chance(3, 4) else self.atom()
        k = self.r.below(7)
        if k == 6:
            return ["not", self.sc_expr(d - 1)]
        return [["and", "or", "coal"][k % 3], self.sc_expr(d - 1), self.sc_expr(d - 1)]

    def sbody(self, d=2):
        k = self.r.below(6 if d > 0 else 3)
        if k == 0:
            return ["pprint", self.t()]
        if k == 1:
            return ["pseq", ["pprint", self.t()], ["pshow", self.r.below(NLOC)]]
        if k == 2:
            return ["pseq", ["pincr", self.r.below(2)], ["pprint", self.t()]]   # never a loop counter that is still live? see note
        if k == 3:
            return ["pseq", self.sbody(d - 1), self.sbody(d - 1)]
        return ["piflt", self.r.below(NLOC), self.r.below(3), self.sbody(d - 1), self.sbody(d - 1)]

    # ---- loops (always bounded by their own counter, incremented first thing)
    def mk_loop(self, c, body_fn, kind=None):
        if not c.free:
            return None
        x = c.free.pop()
        l = self.newlabel() if self.r.chance(3, 4) else "none"
        inner = c.sub(loops=c.loops + [l])
        n = 1 + self.r.below(2)
        body = body_fn(inner)
        if body is None:
            return None
        kind = kind or self.r.choice(["loop", "while"])
        if kind == "while":
            lp = ["while", l, ["lt", x, n], seq(["incr", x], body)]
        else:
            lp = ["loop", l, seq(["incr", x], ["if", ["not", ["lt", x, n + 1]], ["break", "none"], "skip"], body)]
        return seq(["setc", x, 0], lp)

    # ---- random programs
    def leaf(self, c):
        opts = [("print", 5), ("show", 3), ("throw", 4), ("return", 1), ("defer", 1)]
        if c.loops and c.fin_depth < 2 and not c.cif:
            # break/continue out of a finally body nested in another finally body: known finding
            # loop-exit-from-catch-or-finally-inside-finally-handler (enumerated shapes and the corpus still cover it)
            opts += [("break", 3), ("continue", 2)]
        if c.cv:
            opts += [("showcaught", 2), ("rethrow", 2)]
        if c.callable_n > 0:
            opts += [("call", 3)]
        tot = sum(w for _, w in opts)
        k = self.r.below(tot)
        for name, w in opts:
            if k < w:
                break
            k -= w
        if name == "print":
            return self.P()
        if name == "show":
            return ["show", self.sc_expr()]
        if name == "throw":
            return ["throw", self.r.choice(THROWN)]
        if name == "return":
            return ["return", self.r.choice([self.atom(), self.sc_expr(1)])]
        if name == "defer":
            return ["defer", self.sbody()]
        if name == "break":
            return ["break", self.r.choice(c.loops + ["none"]) if c.loops[-1] != "none" or self.r.chance(1, 2) else "none"]
        if name == "continue":
            return ["continue", self.r.choice(c.loops + ["none"]) if c.loops[-1] != "none" or self.r.chance(1, 2) else "none"]
        if name == "showcaught":
            return "showcaught"
        if name == "rethrow":
            return "rethrow"
        if name == "call":
            return ["call", self.r.below(c.callable_n), self.r.below(2)]
        raise ValueError(name)

    def block(self, d, c):
        n = 1 + self.r.below(3)
        return seq(*[self.rstmt(d, c) for _ in range(n)])

    def rstmt(self, d, c):
        if d <= 0 or self.r.chance(1, 4):
            return self.leaf(c)
        k = self.r.below(10)
        if k < 5:
            return self.rdo(d, c)
        if k < 7:
            lp = self.mk_loop(c, lambda ci: self.block(d - 1, ci))
            return lp if lp is not None else self.leaf(c)
        if k < 9:
            cond = self.r.choice([self.sc_expr(1), ["lt", self.r.below(NLOC), 1 + self.r.below(2)]])
            return ["if", cond, self.block(d - 1, c), self.block(d - 1, c) if self.r.chance(1, 2) else "skip"]
        return self.block(d - 1, c)

    def rdo(self, d, c):
        body = self.block(d - 1, c)
        clauses = []
        for _ in range(self.r.choice([0, 1, 1, 2, 3])):
            pat = self.r.choice(PATS)
            binds = pat in ("pint", "pstr") or (isinstance(pat, list) and pat[0] == "any" and pat[1] == 1)
            clauses.append((pat, self.block(d - 1, c.sub(cv=binds, clause=True))))
        if self.r.chance(3, 5):
            return self.fin_do(body, clauses, self.block(d - 1, c.sub(fin=1)) if self.r.chance(2, 3) else None)
        return do(body, clauses, None)

    def random_program(self, depth):
        nm = self.r.choice([0, 0, 1, 1, 2])
        for i in range(nm):
            self.methods.append(self.block(depth - 1, Ctx(i)))   # method i may call methods 0..i-1
        main = self.block(depth, Ctx(nm))
        if self.r.chance(1, 3):
            main = do(main, [(["any", 1], seq(self.P(), "showcaught"))], self.P() if self.r.chance(1, 2) else None)
        return ["prog", ["methods"] + self.methods, main]

    # ---- enumerated shapes: wrappers around a hole
    WRAPPERS = ["dofin", "docatchfin", "incatch", "incatch_nofin", "infin", "infin_throw", "loop", "while",
                "call", "if", "dodefer"]
    LEAVES = ["print", "break", "break_outer", "continue", "continue_outer", "return", "throw_s", "throw_i",
              "rethrow", "show_sc", "local_catch"]

    def build(self, shape, c):
        if len(shape) == 1:
            return self.eleaf(shape[0], c)
        w, rest = shape[0], shape[1:]
        if w == "dofin":
            x = self.build(rest, c)
            return None if x is None else self.fin_do(seq(x, self.P()), [], None)
        if w == "docatchfin":
            x = self.build(rest, c)
            return None if x is None else self.fin_do(seq(x, self.P()),
                                                      [("pstr", seq(self.P(), "showcaught")), (["lit", ["i", 7]], self.P())], None)
        if w in ("incatch", "incatch_nofin"):
            x = self.build(rest, c.sub(cv=True))
            if x is None:
                return None
            cl = [(["lit", ["s", 9]], self.P()), ("pstr", seq(self.P(), x, self.P()))]
            body = seq(self.P(), ["throw", ["s", 1]])
            return self.fin_do(body, cl, None) if w == "incatch" else do(body, cl, None)
        if w in ("infin", "infin_throw"):
            x = self.build(rest, c)
            if x is None:
                return None
            a, b = self.t(), self.t()
            self.pairs.append((a, b))
            body = seq(["print", a], ["throw", ["i", 2]] if w == "infin_throw" else None)
            return do(body, [], seq(["print", b], x, self.P()))
        if w in ("loop", "while"):
            return self.mk_loop(c, lambda ci: (lambda x: None if x is None else seq(self.P(), x, self.P()))(self.build(rest, ci)), kind=w)
        if w == "call":
            if c.callable_n < 0:
                return None
            mc = Ctx(-1)   # methods of the enumerated family do not call further methods
            x = self.build(rest, mc)
            if x is None:
                return None
            self.methods.append(seq(["defer", ["pprint", self.t()]], self.P(), x, self.P()))
            return ["call", len(self.methods) - 1, 1]
        if w == "if":
            x = self.build(rest, c)
            return None if x is None else ["if", ["tag", self.t(), ["val", ["i", 0]]], x, self.P()]
        if w == "dodefer":
            x = self.build(rest, c)
            return None if x is None else seq(["defer", ["pseq", ["pprint", self.t()], ["pshow", 0]]], x)
        raise ValueError(w)

    def eleaf(self, name, c):
        if name == "print":
            return self.P()
        if name in ("break", "continue"):
            return [name, "none"] if c.loops else None
        if name in ("break_outer", "continue_outer"):
            return [name.split("_")[0], c.loops[0]] if len(c.loops) >= 2 and c.loops[0] != "none" else None
        if name == "return":
            return ["return", ["val", ["i", 3]]]
        if name == "throw_s":
            return ["throw", ["s", 1]]
        if name == "throw_i":
            return ["throw", ["i", 2]]
        if name == "rethrow":
            return "rethrow" if c.cv else None
        if name == "show_sc":
            return ["show", self.sc_expr()]
        if name == "local_catch":
            return do(seq(self.P(), ["throw", ["s", 2]]), [("pint", self.P()), (["any", 0], self.P())], None)
        raise ValueError(name)

    def shape_program(self, shape, topcatch):
        """the nest sits in a labelled outer loop (two iterations) so break/continue always have a target"""
        c = Ctx(0)
        x = c.free.pop(0)
        l = self.newlabel()
        inner = c.sub(loops=[l])
        nest = self.build(shape, inner)
        if nest is None:
            return None
        top = ["while", l, ["lt", x, 2], seq(["incr", x], self.P(), nest, self.P())]
        main = seq(top, self.P())
        if topcatch:
            main = self.fin_do(main, [(["any", 1], seq(self.P(), "showcaught"))], None)
        return ["prog", ["methods"] + self.methods, main]


def all_shapes():
    W, L = Gen.WRAPPERS, Gen.LEAVES
    out = []
    for tc in (0, 1):
        for lf in L:
            for a in W:
                out.append(((a, lf), tc))
                for b in W:
                    out.append(((a, b, lf), tc))
                    for c in W:
                        out.append(((a, b, c, lf), tc))
    return out


# ----------------------------------------------------------------------------- observation

UNCAUGHT = "Error! Uncaught thrown value: "


def observe(rc, out, cls):
    """-> (outcome string, stdout lines joined by ',')"""
    lines = out.split("\n")
    if cls in ("go_panic", "go_fatal", "timeout", "signal"):
        return cls, ",".join(l for l in lines[:50] if l)
    if "[FAIL]" in out and rc != 0 and UNCAUGHT not in out:
        return "reject", ""
    std = []
    outcome = "ok" if rc == 0 else "error-rc%d" % rc
    for i, l in enumerate(lines):
        if l.startswith("Stack trace (the most recent call is last)"):
            for m in lines[i:]:
                if m.startswith(UNCAUGHT):
                    outcome = "uncaught " + m[len(UNCAUGHT):].strip()
            break
        if l.startswith(UNCAUGHT):
            outcome = "uncaught " + l[len(UNCAUGHT):].strip()
            break
        if l != "":
            std.append(l)
    return outcome, ",".join(std)


def kinds_of(ast, acc=None):
    acc = set() if acc is None else acc
    if isinstance(ast, list):
        if ast and isinstance(ast[0], str):
            acc.add(ast[0])
        for x in ast:
            kinds_of(x, acc)
    elif isinstance(ast, str) and ast in ("showcaught", "rethrow"):
        acc.add(ast)
    return acc


def nested_finally_exit(ast, fd=0, cif=False):
    """a break/continue that sits inside a finally body nested in another finally body (fd >= 2), or inside
    a catch clause that is inside a finally body (cif): it leaves a finally body / catch clause without
    popping that construct's operands, inside an enclosing finally handler"""
    if not isinstance(ast, list) or not ast:
        return False
    op = ast[0]
    if op in ("break", "continue"):
        return fd >= 2 or cif
    if op == "do":
        if nested_finally_exit(ast[1], fd, cif):
            return True
        for c in ast[2][1:]:
            if nested_finally_exit(c[2], fd, cif or fd >= 1):
                return True
        return ast[3] != "nofin" and nested_finally_exit(ast[3][1], fd + 1, cif)
    if op == "prog":
        return any(nested_finally_exit(m_, 0, False) for m_ in ast[1][1:]) or nested_finally_exit(ast[2], 0, False)
    return any(nested_finally_exit(x, fd, cif) for x in ast[1:])


STMT_KINDS = ["do", "loop", "while", "break", "continue", "return", "throw", "rethrow", "defer", "call", "if", "show",
              "and", "or", "coal", "fin"]


def run(ctx):
    ctx.explanation = (
        "Proved in Coq for ALL programs of the embedded language and all terminating fuel, on the reference interpreter S "
        "(run true): every entered do-with-finally runs its finally exactly once and every executed defer runs exactly once, on "
        "every exit kind (C14_finally_once); finally bodies start innermost-first (C14_innermost_first, bracket discipline of the "
        "trace); the catch clause that runs is the first whose pattern matches (C14_catch_exact, C14_catch_runs); && || ?? evaluate "
        "the right operand iff needed (C14_short_circuit); results do not depend on fuel (C14_fuel_independent); the VM's "
        "first-match catch-table scan returns the innermost enclosing entry on laminar post-order tables "
        "(C14_first_match_innermost, C14_lookup_none, C14_finally_entry_offsets). The interpreter variant that mirrors compileDo "
        "as it is today (run false) violates exactly-once (C14_finally_once_refuted) and agrees with S whenever no catch clause of "
        "a do-with-finally exits abruptly (C14_finally_once_partial). NOT proved: that the bytecode compiler + VM implement S; "
        "that is differential-tested only (stream c14.prog: generated programs printed to Elk, run with the real binary, stdout "
        "and outcome compared with the extracted S; stream c14.tables: catch tables of the compiled programs checked for "
        "laminar/post-order/entry shape, the hypotheses of the lookup theorem).")
    ctx.trusted_base += [
        "C14: AST->Elk printer and generators (checks/C14.py), s-expression reader of ocaml/C14/main.ml, parsing of elk's "
        "stdout/'Uncaught thrown value' line",
        "C14: Elk println / inspect of Int, nil, Bool, String used as the observation channel; helper method tg(k, v)",
        "C14: Go harness harness/cmd/c14 (dumps bytecode.CatchEntries and instruction bytes)",
    ]
    ctx.run_proof_gate()
    elk = vlib.build_elk()
    model = vlib.build_model("C14")
    prog_stream(ctx, elk, model)
    try:
        table_stream(ctx, model)
    except vlib.BuildError as e:
        ctx.broke("c14.tables: harness build failed", str(e))


def prog_stream(ctx, elk, model):
    stream = "c14.prog"
    rng = ctx.rng(stream)
    cases = []   # (id, ast, origin, pairs, checked)
    corpus = os.path.join(vlib.ROOT, "corpus", "C14.prog.txt")
    ncorpus = 0
    if os.path.exists(corpus):
        for i, line in enumerate(open(corpus)):
            line = line.strip()
            if not line or line.startswith("#"):
                continue
            cases.append(("k%03d" % i, parse_sexp(line), "corpus", [], False))
            ncorpus += 1
    if ctx.replay:
        import json
        rp = json.load(open(ctx.replay))
        if rp.get("case"):
            cases.append(("replay", parse_sexp(rp["case"]), "replay", [], False))
    shapes = all_shapes()
    n_all_shapes = len(shapes)
    small = [s for s in shapes if len(s[0]) == 2]
    big = [s for s in shapes if len(s[0]) > 2]
    rng.shuffle(big)
    big = big[:ctx.n(250, 1500)]
    chosen = small + big
    n_invalid = 0
    for i, (shape, tc) in enumerate(chosen):
        g = Gen(rng)
        p = g.shape_program(shape, tc)
        if p is None:
            n_invalid += 1
            continue
        cases.append(("s%05d" % i, p, "shape:" + "/".join(shape) + (":topcatch" if tc else ""), g.pairs, False))
    for i in range(ctx.n(250, 1000)):
        g = Gen(rng)
        depth = 2 + rng.below(3) if i % 4 else 3 + rng.below(3)
        p = g.random_program(depth)
        cases.append(("r%05d" % i, p, "random", g.pairs, False))

    # expected observables from the extracted interpreter
    ids = [c[0] for c in cases]
    inputs = {c[0]: "P " + to_sexp(c[1]) for c in cases}
    rc, exp, mout = vlib.run_model(model, ids, inputs)
    if rc != 0:
        ctx.broke("correspondence %s: model driver exited %d" % (stream, rc), mout[-2000:])
    runnable = []
    n_fuel = 0
    for c in cases:
        e = exp.get(c[0])
        if e is None or e.startswith("bad-input"):
            ctx.broke("correspondence %s: model gave no answer for %s (%s)" % (stream, c[0], e), to_sexp(c[1])[:2000])
            continue
        if e.startswith("fuel"):
            n_fuel += 1
            continue
        runnable.append(c)
    progs = [(c[0], Printer(c[4]).program(c[1])) for c in runnable]
    results = vlib.run_programs(elk, progs, os.path.join(ctx.workdir, "prog"), workers=16, timeout=10)
    srcs = dict(progs)
    # a crash / hang is re-run (up to 3 times) before it is believed (heavily loaded machine, 10 s
    # timeout); only a crash that persists is a failure; the number of re-runs is in the evidence
    CRASH = ("go_panic", "go_fatal", "timeout", "signal")
    flaky = {}
    for attempt in range(3):
        again = [(i, srcs[i]) for i, r in results.items() if r[2] in CRASH]
        if not again:
            break
        rr = vlib.run_programs(elk, again, os.path.join(ctx.workdir, "prog"), workers=8, timeout=25)
        for i, r in rr.items():
            if r[2] not in CRASH:
                flaky[i] = results[i][2]
                results[i] = r

    dist = {"corpus": 0, "shape": 0, "random": 0}
    kdist = {k: 0 for k in STMT_KINDS}
    outcomes = {}
    n_reject = 0
    reject_samples = []
    n_mismatch = 0
    n_known_class = 0
    o2_checked = 0
    o2_viol = 0
    distinct = set()
    samples = []
    for c in runnable:
        cid, ast, origin, pairs, _ = c
        rc_, out, cls = results[cid]
        outcome, std = observe(rc_, out, cls)
        f = exp[cid].split("|")
        ref_out, ref_std, abrupt, dev_out, dev_std = (f + [""] * 5)[:5]
        dist[origin.split(":")[0]] = dist.get(origin.split(":")[0], 0) + 1
        if outcome == "reject":
            n_reject += 1
            if len(reject_samples) < 5:
                reject_samples.append({"origin": origin, "message": out[:400], "source": srcs[cid][:1500]})
            continue
        ks = kinds_of(ast)
        for k in STMT_KINDS:
            if k in ks:
                kdist[k] += 1
        outcomes[outcome.split(" ")[0]] = outcomes.get(outcome.split(" ")[0], 0) + 1
        if ks & {"do", "loop", "while", "defer", "and", "or", "coal", "call"}:
            distinct.add(inputs[cid])
        if len(samples) < 4 and origin != "corpus":
            samples.append({"origin": origin, "program": to_sexp(ast)[:600], "stdout": std[:200], "outcome": outcome})
        ok = (outcome == ref_out and std == ref_std)
        # oracle 2: the property evaluated on the implementation's own output (no model involved):
        # the tag that opens a do-with-finally body and the tag that opens its finally occur equally often
        o2_bad = None
        if outcome.split(" ")[0] in ("ok", "uncaught"):
            got = std.split(",") if std else []
            cnt = {}
            for t_ in got:
                cnt[t_] = cnt.get(t_, 0) + 1
            for a, b in pairs:
                o2_checked += 1
                if cnt.get(str(a), 0) != cnt.get(str(b), 0):
                    o2_viol += 1
                    o2_bad = (a, b, cnt.get(str(a), 0), cnt.get(str(b), 0))
                    break
        if ok and o2_bad is None:
            continue
        n_mismatch += 1
        first_kind = abrupt.split(",")[0] if abrupt else ""
        if first_kind and outcome == dev_out and std == dev_std:
            key = "catch-exit-skips-finally:" + first_kind
            oracle = ("finally body not run when a catch clause of the same do exits by %s (implementation output equals the "
                      "deviating interpreter run false)" % first_kind)
            n_known_class += 1
        elif nested_finally_exit(ast):
            key = "loop-exit-from-catch-or-finally-inside-finally-handler"
            oracle = ("program contains break/continue that leaves a finally body or a catch clause located inside another finally "
                      "body; the enclosing finally body is repeated, the program hangs or RETHROW panics (operands of the left "
                      "construct stay on the value stack and the enclosing handler's epilogue takes them for its flag)")
            n_known_class += 1
        elif outcome in ("go_panic", "go_fatal", "timeout", "signal"):
            key = "crash:%s:%s" % (outcome, origin if origin.startswith("shape") else "+".join(sorted(ks & set(STMT_KINDS))))
            oracle = "implementation crashed / hung on a program the reference interpreter runs to completion"
        elif ok and o2_bad is not None:
            key = "oracle2:" + (origin if origin.startswith("shape") else "+".join(sorted(ks & set(STMT_KINDS))))
            oracle = "do body entered %d times but its finally ran %d times (tags %s/%s)" % (o2_bad[2], o2_bad[3], o2_bad[0], o2_bad[1])
        else:
            key = "mismatch:" + (origin if origin.startswith("shape") else "+".join(sorted(ks & set(STMT_KINDS))))
            oracle = "stdout/outcome differ from the reference interpreter" + \
                ("; finally count differs (tags %s/%s: %d vs %d)" % (o2_bad[0], o2_bad[1], o2_bad[2], o2_bad[3]) if o2_bad else "")
        if n_mismatch <= 400:
            ctx.fail(key, "%s: implementation %s [%s], reference %s [%s]" % (origin, outcome, std[:300], ref_out, ref_std[:300]),
                     stream=stream, case=to_sexp(ast), impl={"outcome": outcome, "stdout": std, "source": srcs[cid]},
                     model={"outcome": ref_out, "stdout": ref_std, "deviating": [dev_out, dev_std], "abrupt": abrupt},
                     oracle=oracle)
    n_run = len(runnable)
    if n_run and n_reject * 5 > n_run:
        ctx.broke("correspondence %s: %d of %d generated programs rejected by the checker (generator degenerate)" % (stream, n_reject, n_run),
                  str(reject_samples)[:3000])
    ctx.stream(stream, n_run - n_reject, len(distinct),
               "programs of Model/C14_Control.v printed to Elk and run by `elk run`; compared: printed lines and outcome "
               "(ok | uncaught <value> | go_panic | go_fatal | timeout) with the extracted reference interpreter; "
               "corpus first, then enumerated nestings (11 wrappers ^ depth 1..3 x 11 exit leaves x top-level catch on/off = %d shapes, "
               "all depth-1 + 250 sampled deeper in quick / 9000 in thorough), then random programs of depth 2-5; "
               "non-trivial = contains a do/loop/defer/call/short-circuit; second oracle on the implementation's own output: "
               "enter-tag count == finally-tag count for every do-with-finally" % n_all_shapes,
               samples,
               dict(origin=dist, constructs=kdist, impl_outcomes=outcomes, rejected_by_checker=n_reject, model_out_of_fuel=n_fuel,
                    invalid_shapes_skipped=n_invalid, corpus=ncorpus),
               mismatches=n_mismatch, mismatches_in_known_class=n_known_class,
               crashed_once_but_passed_on_rerun=len(flaky), crashed_once_classes={k: list(flaky.values()).count(k) for k in set(flaky.values())},
               oracle2_pairs_checked=o2_checked, oracle2_violations=o2_viol, reject_samples=reject_samples[:3])


def table_stream(ctx, model):
    stream = "c14.tables"
    h = vlib.build_harness("c14")
    rng = ctx.rng(stream)
    progs = []
    shapes = all_shapes()
    rng.shuffle(shapes)
    for i, (shape, tc) in enumerate(shapes[:ctx.n(100, 1000)]):
        g = Gen(rng)
        p = g.shape_program(shape, tc)
        if p is not None:
            progs.append(("s%05d" % i, Printer(False).program(p)))
    for i in range(ctx.n(60, 700)):
        g = Gen(rng)
        progs.append(("r%05d" % i, Printer(False).program(g.random_program(2 + rng.below(3)))))
    d = os.path.join(ctx.workdir, "tables")
    os.makedirs(d, exist_ok=True)
    parts = [[] for _ in range(12)]
    for i, (pid_, src) in enumerate(progs):
        path = os.path.join(d, pid_ + ".elk")
        with open(path, "w") as g_:
            g_.write(src)
        parts[i % len(parts)].append(pid_ + "\t" + path + "\n")

    def one(k):
        listing = os.path.join(d, "files%d.txt" % k)
        with open(listing, "w") as f:
            f.write("".join(parts[k]))
        return vlib.sh([h, "-list", listing], env=vlib.elk_env(), timeout=1500)
    outs = vlib.parallel_map(one, range(len(parts)), workers=12)
    rc = max(r for r, _ in outs)
    out = "".join(o for _, o in outs)
    ids, inputs, _ = vlib.parse_case_lines(out)
    if rc != 0 or not ids:
        ctx.broke("correspondence %s: harness exited %d" % (stream, rc), out[-3000:])
        if not ids:
            return
    rc2, exp, mout = vlib.run_model(model, ids, inputs)
    if rc2 != 0:
        ctx.broke("correspondence %s: model driver exited %d" % (stream, rc2), mout[-2000:])
    n_tables = 0
    n_entries = 0
    nontrivial = set()
    bad = 0
    samples = []
    for i in ids:
        inp = inputs[i]
        ents = [e for e in inp.split(";")[1:-1] if e.strip()]
        n_tables += 1
        n_entries += len(ents)
        if len(ents) >= 2:
            nontrivial.add(inp)
        v = exp.get(i, "missing")
        if len(samples) < 3 and len(ents) >= 4:
            samples.append({"function": i, "entries": [e.strip() for e in ents][:8], "verdict": v})
        if "NOT" in v or v.startswith("bad") or v == "missing":
            bad += 1
            what = [w for w in v.split() if w.startswith("NOT")] or [v]
            ctx.fail("tables:" + "+".join(what), "catch table of %s: %s; entries %s" % (i, v, ents[:12]), stream=stream,
                     case=inp[:3000], impl=ents, model=v,
                     oracle="hypotheses of C14_first_match_innermost / C14_finally_entry_offsets do not hold for a compiled table")
    ctx.stream(stream, n_tables, len(nontrivial),
               "every bytecode function (with >=1 catch entry) of generated programs compiled in-process: CatchEntries and the "
               "instruction bytes; the extracted checker decides laminar, post_order and the NIL;JUMP;..;UNDEFINED shape at every "
               "finally entry; non-trivial = at least 2 entries",
               samples, dict(functions=n_tables, entries=n_entries), violations=bad)


# ----------------------------------------------------------------------------- shrinking (used by hand / for corpus entries)

def _stmt_positions(ast, path=()):
    """paths of sub-statements (very small grammar knowledge: which children are statements)"""
    out = []
    if isinstance(ast, list) and ast:
        op = ast[0]
        kids = {"seq": [1, 2], "if": [2, 3], "loop": [2], "while": [3], "do": [1], "prog": [2]}.get(op, [])
        if op in ("seq", "if", "loop", "while", "do", "print", "show", "setc", "incr", "break", "continue", "return", "throw",
                  "defer", "call"):
            out.append(path)
        for k in kids:
            out += _stmt_positions(ast[k], path + (k,))
        if op == "do":
            for ci, c in enumerate(ast[2][1:], 1):
                out += _stmt_positions(c[2], path + (2, ci, 2))
            if ast[3] != "nofin":
                out += _stmt_positions(ast[3][1], path + (3, 1))
        if op == "prog":
            for mi, m_ in enumerate(ast[1][1:], 1):
                out += _stmt_positions(m_, path + (1, mi))
    elif ast in ("showcaught", "rethrow"):
        out.append(path)
    return out


def _get(ast, path):
    for k in path:
        ast = ast[k]
    return ast


def _set(ast, path, new):
    if not path:
        return new
    cp = list(ast)
    cp[path[0]] = _set(ast[path[0]], path[1:], new)
    return cp


def valid_targets(ast, loops=()):
    """every break/continue has an enclosing loop it can target in the same frame"""
    if not isinstance(ast, list) or not ast:
        return True
    op = ast[0]
    if op in ("break", "continue"):
        return bool(loops) if ast[1] == "none" else (ast[1] in loops)
    if op == "loop":
        return valid_targets(ast[2], loops + (ast[1],))
    if op == "while":
        return valid_targets(ast[3], loops + (ast[1],))
    if op == "prog":
        return all(valid_targets(m_, ()) for m_ in ast[1][1:]) and valid_targets(ast[2], ())
    return all(valid_targets(x, loops) for x in ast[1:])


def shrink(ast, bad, budget=400):
    """greedy subtree replacement while bad(ast) stays true"""
    changed = True
    while changed and budget > 0:
        changed = False
        for path in sorted(_stmt_positions(ast), key=len):
            try:
                node = _get(ast, path)
            except (IndexError, TypeError):
                continue
            if node == "skip":
                continue
            cands = ["skip"]
            if isinstance(node, list):
                if node[0] == "seq":
                    cands += [node[1], node[2]]
                elif node[0] == "if":
                    cands += [node[2], node[3]]
                elif node[0] in ("loop",):
                    cands += [node[2]]
                elif node[0] == "while":
                    cands += [node[3]]
                elif node[0] == "do":
                    cands += [node[1]]
                    if node[3] != "nofin":
                        cands += [node[:3] + ["nofin"]]
                    if len(node[2]) > 1:
                        cands += [node[:2] + [["catches"]] + node[3:]]
                        for ci in range(1, len(node[2])):
                            cands += [node[:2] + [node[2][:ci] + node[2][ci + 1:]] + node[3:]]
            for c in cands:
                budget -= 1
                trial = _set(ast, path, c)
                if budget > 0 and bad(trial):
                    ast = trial
                    changed = True
                    break
            if changed:
                break
    return ast


def shrink_main(argv):
    """python3 checks/C14.py <replay.json | file with one s-expression>  -> prints a minimised program"""
    import json
    import sys
    import tempfile
    sys.path.insert(0, os.path.join(os.path.dirname(os.path.abspath(__file__)), "..", "lib"))
    src = open(argv[1]).read()
    case = json.loads(src)["case"] if src.lstrip().startswith("{") else src.strip()
    ast = parse_sexp(case)
    elk = os.path.join(vlib.BUILD, "elk")
    model = os.path.join(vlib.BUILD, "m_C14")
    wd = tempfile.mkdtemp(prefix="c14shrink")

    def verdict(a):
        rc, exp, _ = vlib.run_model(model, ["x"], {"x": "P " + to_sexp(a)})
        e = exp.get("x", "bad")
        if e.startswith(("fuel", "bad")):
            return None
        f = (e.split("|") + [""] * 5)[:5]
        for _ in range(3):
            rc_, out = vlib.run_elk_program(elk, Printer().program(a), wd, "x", timeout=10)
            cls = vlib.classify_elk(rc_, out)
            if cls not in ("go_panic", "go_fatal", "timeout", "signal"):
                break
        outcome, std = observe(rc_, out, cls)
        return outcome, std, f

    def bad(a):
        if not valid_targets(a):
            return False
        v = verdict(a)
        if v is None:
            return False
        outcome, std, f = v
        if outcome == "reject":
            return False
        if (outcome, std) == (f[0], f[1]):
            return False
        if f[2] and (outcome, std) == (f[3], f[4]):
            return False      # known class
        return True
    print("initially bad:", bad(ast))
    small = shrink(ast, bad)
    print(to_sexp(small))
    print(Printer().program(small))
    print(verdict(small))


if __name__ == "__main__":
    import sys
    sys.path.insert(0, os.path.join(os.path.dirname(os.path.abspath(__file__)), "..", "lib"))
    shrink_main(sys.argv)
