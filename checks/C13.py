"""C13 — closures capture variables, not values."""
import json
import os
import sys

import vlib

sys.path.insert(0, os.path.join(vlib.ROOT, "lib"))
import c13lang  # noqa: E402
import c13machine  # noqa: E402

HAND = [
    # (name, source, expected) -- minimal shapes kept as explicit corpus cases
    ("shared-counter", """def mk(p: Int): List[||: Int]
  var fs: List[||: Int] = []
  c := p
  fs << ||: Int ->
    c += 1
    c
  end
  fs << ||: Int -> c * 2
  fs
end
fs := mk(5)
println(fs[0].().inspect)
println(fs[1].().inspect)
println(fs[0].().inspect)
println(fs[1].().inspect)
""", "6\n12\n7\n14\n"),
    ("scope-sees-closure-write", """x := 1
f := ||: Int ->
  x += 10
  x
end
println(f.().inspect)
x += 1
println(f.().inspect)
println(x.inspect)
""", "11\n22\n22\n"),
    ("fornum-per-iteration", """var fs: List[||: Int] = []
fornum i := 1; i <= 3; i += 1
  fs << ||: Int ->
    i += 10
    i
  end
end
println(fs[0].().inspect)
println(fs[0].().inspect)
println(fs[1].().inspect)
println(fs[2].().inspect)
""", "11\n21\n12\n13\n"),
    ("nested-after-return", """def mk(p: Int): ||: Int
  a := p
  g := ||: Int ->
    b := a + 1
    h := ||: Int ->
      a += 1
      b += 2
      a + b
    end
    h.() + h.()
  end
  g
end
g := mk(1)
println(g.().inspect)
println(g.().inspect)
""", "15\n23\n"),
]


RISKY = ("loop_forlist", "exit_after_capture", "labelled_break", "labelled_continue", "tailcall_self", "tailcall_self_w",
         "tailcall_other", "tailcall_other_local", "captured_param_written", "throw_catch", "exit_from_inner_loop")


def key_of(feats, cls, env):
    """canonical class of a failing generated program: outcome x the defect-prone shapes it contains x stack class"""
    if "witness" in feats:
        return "witness:" + feats[1]
    risky = sorted(f for f in feats if f in RISKY)
    if risky:
        shape = "+".join(risky)
    else:
        loops = sorted(f for f in feats if f.startswith("loop_"))
        shape = "loops" if loops else ("nested" if "nested_closure" in feats else "flat")
    return "%s:%s:%s" % (cls, shape, "small-stack" if env else "default-stack")


def load_witnesses():
    d = os.path.join(vlib.ROOT, "corpus", "C13.src")
    items = []
    cpath = os.path.join(vlib.ROOT, "corpus", "C13.prog.txt")
    if not os.path.exists(cpath):
        return items
    for l in open(cpath):
        l = l.strip()
        if not l or l.startswith("#"):
            continue
        f = l.split("\t")
        env = json.loads(f[1]) if len(f) > 1 else {}
        h = f[0].split()
        if h[0] == "src":
            items.append(("src:" + h[1], open(os.path.join(d, h[1] + ".elk")).read(), open(os.path.join(d, h[1] + ".exp")).read(),
                          env, ["witness", h[1]]))
        else:
            prof, seed = (h[1], h[2]) if h[0] == "gen" else ("c13", h[0])
            p = c13lang.gen_program(vlib.SplitMix(int(seed)), prof)
            exp, _ = c13lang.interp(p)
            if exp is not None:
                items.append(("gen:%s:%s" % (prof, seed), c13lang.to_elk(p), exp, env, p["features"]))
    return items


def run(ctx):
    ctx.explanation = (
        "PROVED UNBOUNDED (Coq, coq/Props/C13.v) on the address-level upvalue machine (captureUpvalue, opCloseUpvalues, Upvalue.Get/Set/"
        "Close, call/return, tail call reusing the frame, growValueStack to any new base): (1) C13_refines - from any base and capacity, "
        "for EVERY operation sequence that satisfies the discipline D (a slot whose variable instance is still referenced by a closure is "
        "closed before it is popped or given to a new variable instance; return and the fixed tail call close themselves) and never pushes "
        "beyond the capacity, the reads of the implementation machine equal the reads of the store-semantics spec in which every variable "
        "instance is a heap cell and closures hold cells (simulation relation R, preserved by every operation: C13_simulation_step, "
        "C13_refines_from); (2) C13_sorted_inv(_step), C13_one_upvalue_per_slot - the open list is strictly sorted, duplicate-free, holds "
        "exactly the open upvalues inside the current array, one upvalue per slot, for ALL sequences. D is necessary: "
        "C13_reuse_without_close_refuted (new instance in a slot without close: what the unfixed compiler did at the `for in` back edge "
        "and on `continue`), C13_tailcall_without_close_refuted (callBytecodeFunctionTCO as found). NOT PROVED: that the compiler always "
        "emits code satisfying D (tested by c13.prog only; one known finding: catch handler in the same frame). Error unwinding "
        "(Thread.rethrow discarding frames) is the machine operation OUnwind (= restoreLastFrame: closes from the POPPED frame's base); "
        "C13_unwind_close_from_caller_refuted: closing from the caller's restored frame pointer violates the spec on a D-respecting trace. "
        "TIED TO THE GO CODE: "
        "stream c13.machine executes seeded operation traces on a real vm.Thread through the hook vm/verif_c13.go and compares reads and "
        "the whole offset view with the extracted Coq machine; c13.spec compares the real Thread's reads with the extracted spec on every "
        "D-respecting trace (C13_refines evaluated on the Go code). c13.prog: generated closure programs on the real binary vs a "
        "store-semantics reference interpreter (Python; same cell discipline as the Coq spec).")
    ctx.trusted_base += ["Python reference interpreter lib/c13lang.py (cells per variable instance) as expected-output oracle of c13.prog",
                         "the discipline D is assumed of compiled code (tested through program behaviour, not checked on bytecode)",
                         "hook /repo/vm/verif_c13.go (thin wrappers; sets vm.localCount before a tail call as PREP_LOCALS would)",
                         "hook /repo/vm/verif_c13b.go (Unwind: gives the catching frame a catch entry, the frames below none, calls the real Thread.rethrow)"]
    ctx.run_proof_gate()
    c13machine.machine_stream(ctx)
    elk = vlib.build_elk()
    rng = ctx.rng("c13.prog")
    nprog = ctx.n(84, 3600)
    items = []   # (name, src, exp, env, feats)
    for name, src, exp in HAND:
        items.append(("hand:" + name, src, exp, {}, ["corpus"]))
        items.append(("hand:" + name, src, exp, {"ELK_INIT_VALUE_STACK_SIZE": "6144"}, ["corpus"]))
    items += load_witnesses()
    ncorpus = len(items)
    skipped = 0
    featcount = {}
    for i in range(nprog):
        seed = rng.next() & 0x7FFFFFFF
        prng = vlib.SplitMix(seed)
        prof = ("c13", "c13c", "c13b", "c13c", "c13b", "c13c")[i % 6]
        p = c13lang.gen_program(prng, prof)
        exp, depth = c13lang.interp(p)
        if exp is None or len(exp) > 40000:
            skipped += 1
            continue
        for f in p["features"]:
            featcount[f] = featcount.get(f, 0) + 1
        env = {} if prng.chance(1, 2) else {"ELK_INIT_VALUE_STACK_SIZE": prng.choice(["6144", "7000", "9000", "12000"])}
        items.append(("gen:%s:%d" % (prof, seed), c13lang.to_elk(p), exp, env, p["features"]))
    os.makedirs(os.path.join(ctx.workdir, "prog"), exist_ok=True)

    def one(j):
        n, (name, src, exp, env, feats) = j
        path = os.path.join(ctx.workdir, "prog", "p%d.elk" % n)
        with open(path, "w") as f:
            f.write(src)
        rc, out = vlib.sh([elk, "run", path], cwd=ctx.workdir, env=vlib.elk_env(env), timeout=300)
        try:
            os.remove(path)
        except OSError:
            pass
        return rc, out
    res = vlib.parallel_map(one, list(enumerate(items)), 12)
    fails = 0
    distinct = set()
    samples = []
    for (name, src, exp, env, feats), (rc, out) in zip(items, res):
        if "write_captured" in feats or "corpus" in feats or "witness" in feats:
            distinct.add(src)
        if len(samples) < 4:
            samples.append({"program": name, "env": env, "features": feats[:8], "stdout_head": out[:60]})
        if "call stack overflow" in out or "maximum value stack size exceeded" in out:
            continue
        if rc != 0 or out != exp:
            fails += 1
            cls = vlib.classify_elk(rc, out)
            cls = "wrong-output" if cls == "ok" else cls
            ctx.fail(key_of(feats, cls, env), "%s (%s): output differs from the store-semantics reference (exit %d, %s)" % (name, env or "default", rc, cls),
                     stream="c13.prog", case={"program": name, "env": env, "source": src[:6000]}, impl=out[-1500:], model=exp[-600:],
                     oracle="stdout differs from the reference interpreter in which closures share variable cells")
    ctx.stream("c13.prog", len(items), len(distinct),
               "generated programs: closures over locals/parameters (read and written)/loop variables and BODY LOCALS of while/until/"
               "do-while/do-until/loop/fornum/for-in-range/for-in-list, with break/continue before and after the capture, labelled "
               "break/continue to an outer loop, nested closures, counters shared by several closures, closures returned from methods "
               "and called after the frame returned, captures followed by a tail-position self/other call, recursive closures with "
               "captured locals, closures passed through deep method recursion; (profile c13c, half of the programs) do/catch around "
               "calls whose error is thrown 1-7 call frames below (thr1/thr2/thr3/thrd) in frames - top level, methods, closures, "
               "loop bodies - holding captured locals that frame and closures write and read alternately after the catch, and "
               "continue[l]/break[l] issued from an INNER loop after closures captured locals of if/else/do block scopes between "
               "the two loops (no closure after the labelled exit: the known-finding class); "
               "half of the runs with a small initial value stack; "
               "stdout vs reference interpreter (cells). non-trivial = a captured variable is written inside a closure or a witness; "
               "%d hand-written/corpus cases first (corpus/C13.prog.txt, corpus/C13.src/)" % ncorpus,
               samples, featcount, mismatches=fails, skipped_too_big=skipped, corpus_cases=ncorpus)
