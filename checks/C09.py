"""C09 — the native Go backend behaves like the bytecode VM (partial by nature).

Streams
  c09.helpers  value.AddInts/SubtractInts/MultiplyInts/DivideInts/ModuloInts/*ThanInts/EqualInts (what the
               generated Go calls) against the extracted helper model; second oracle on the implementation's
               own outputs: the same operands through SmallInt/BigInt .AddVal ... (what the VM's typed
               opcodes call) must give the same value and representation.
  c09.native   seeded well-typed programs of the modelled fragment -> (a) `elk run` (bytecode VM),
               (b) checker.CheckSourceNative -> generated Go -> `go build -tags native` in a scratch module
               under /tmp -> run; both compared with the extracted reference interpreter Sref and with each
               other (stdout lines, uncaught-error class + message, zero/non-zero exit status).

Programs are nested Python lists = the s-expression fed to the model driver (see ocaml/C09/main.ml):
  (prog (meths (m <nparams> (locals e...) (body s...) ret)...) (locals e...) (main s...))
Types are tracked by the generator only ('I' Int, 'B' Bool, 'S' String); the printer needs them for the
declarations, so a generated program is a dict {sx, meths:[{ptypes, ltypes, rtype}], ltypes}.

Second generation (profile "cls"): an optional 4th section (classes (c <parent>|- (<name> (m ...))...)...) - user
classes K0 (base, field @k: Int) and K1.. (subclasses, single inheritance, method overriding), plus the types
'O' (K0, i.e. any class of the hierarchy), 'U' (Int | String | Symbol | Char | Bool | nil), 'LO' List[K0],
'LU' List[<U>], 'fO'/'fU' (the loop variable of a for-in; not declared).  Expressions (nil) (sym a) (chr c)
(new <class> e) (fld) (send recv <name> a...) (list e...); statement (for <slot> e (s...)).  Sends and inspect on
'O'/'U' values are DYNAMICALLY dispatched call sites in the generated Go (Thread.CallMethodByNameWithCache); the
lists have runs of equal classes (a a b c d d e e a ...) so that one call site sees many receiver classes in
many orders.  p["classes"] = {names:[{ptypes, rtype}], cls:[{parent, meths:{name: ltypes}}]}.
"""
import os
import re
import shutil
import subprocess
import tempfile
import time
import vlib

NATIVE = "c09.native"
NQUICK = 32
HELPERS = "c09.helpers"

# ------------------------------------------------------------------ s-expressions

def sx_str(x):
    if isinstance(x, str):
        return x
    return "(" + " ".join(sx_str(y) for y in x) + ")"


def sx_parse(s):
    toks = re.findall(r"\(|\)|[^\s()]+", s)
    pos = [0]

    def item():
        t = toks[pos[0]]
        pos[0] += 1
        if t == "(":
            acc = []
            while toks[pos[0]] != ")":
                acc.append(item())
            pos[0] += 1
            return acc
        return t
    return item()


# ------------------------------------------------------------------ printing to Elk

BINOP = {"add": "+", "sub": "-", "mul": "*", "div": "/", "mod": "%"}
CMPOP = {"lt": "<", "le": "<=", "gt": ">", "ge": ">=", "eq": "==", "ne": "!="}
UNION = "Int | String | Symbol | Char | Bool | nil"
TYNAME = {"I": "Int", "B": "Bool", "S": "String", "O": "K0", "U": UNION, "LO": "List[K0]", "LU": "List[%s]" % UNION,
          "Rcc": "ClosedRange[Int]", "Rco": "RightOpenRange[Int]", "Roc": "LeftOpenRange[Int]", "Roo": "OpenRange[Int]"}
# for-in over a range VALUE held in a local is kept OUT of the generated (gating) family: on the unchanged tree the Go
# back end keeps the range's `end` in a temporary that the loop body reuses (known finding `...:for-range-value`, witness
# in corpus/C09.native.txt); the model, the printer and the corpus cover the construct
RANGE_VALUE_LOOPS = False
RANGEOP = {"cc": "...", "co": "..<", "oc": "<..", "oo": "<.<"}


def elk_bound(e, names):
    t = elk_expr(e, names)
    return t if re.fullmatch(r"-?\w+", t) or t.startswith("(") else "(%s)" % t


def elk_expr(e, names):
    k = e[0]
    if k == "i":
        return e[1]
    if k == "b":
        return "true" if e[1] == "t" else "false"
    if k == "s":
        return '"%s"' % (e[1].replace("_", " ") if len(e) > 1 else "")
    if k == "v":
        return names[int(e[1])]
    if k == "bin":
        return "(%s %s %s)" % (elk_expr(e[2], names), BINOP[e[1]], elk_expr(e[3], names))
    if k == "neg":
        return "-(%s)" % elk_expr(e[1], names)
    if k == "cmp":
        return "(%s %s %s)" % (elk_expr(e[2], names), CMPOP[e[1]], elk_expr(e[3], names))
    if k == "not":
        return "!(%s)" % elk_expr(e[1], names)
    if k == "and":
        return "(%s && %s)" % (elk_expr(e[1], names), elk_expr(e[2], names))
    if k == "or":
        return "(%s || %s)" % (elk_expr(e[1], names), elk_expr(e[2], names))
    if k == "cat":
        return "(%s + %s)" % (elk_expr(e[1], names), elk_expr(e[2], names))
    if k == "insp":
        return "(%s).inspect" % elk_expr(e[1], names)
    if k == "call":
        return "m%s(%s)" % (e[1], ", ".join(elk_expr(a, names) for a in e[2:]))
    if k == "nil":
        return "nil"
    if k == "sym":
        return ":" + e[1]
    if k == "chr":
        return "`%s`" % e[1]
    if k == "new":
        return "K%s(%s)" % (e[1], elk_expr(e[2], names))
    if k == "fld":
        return "@k"
    if k == "send":
        r = elk_expr(e[1], names)
        if not re.fullmatch(r"\w+", r):
            r = "(%s)" % r
        return "%s.n%s(%s)" % (r, e[2], ", ".join(elk_expr(a, names) for a in e[3:]))
    if k == "list":
        return "[%s]" % ", ".join(elk_expr(a, names) for a in e[1:])
    if k == "range":
        return "%s%s%s" % (elk_bound(e[2], names), RANGEOP[e[1]], elk_bound(e[3], names))
    raise ValueError(e)


def elk_cond(e, names):
    """a condition that begins with `!` is wrapped: `if !(x)` + newline does not parse (parser matter, not ours)"""
    t = elk_expr(e, names)
    return "(%s)" % t if t.startswith("!") else t


def elk_stmts(ss, names, ind, out):
    pad = "  " * ind
    for s in ss:
        k = s[0]
        if k == "set":
            out.append("%s%s = %s" % (pad, names[int(s[1])], elk_expr(s[2], names)))
        elif k == "print":
            out.append("%sprintln(%s)" % (pad, elk_expr(s[1], names)))
        elif k == "if":
            out.append("%sif %s" % (pad, elk_cond(s[1], names)))
            elk_stmts(s[2], names, ind + 1, out)
            if s[3]:
                out.append(pad + "else")
                elk_stmts(s[3], names, ind + 1, out)
            out.append(pad + "end")
        elif k == "while":
            out.append("%swhile %s" % (pad, elk_cond(s[1], names)))
            elk_stmts(s[2], names, ind + 1, out)
            out.append(pad + "end")
        elif k == "ret":
            out.append("%sreturn %s" % (pad, elk_cond(s[1], names)))     # `return !x` would be the macro call `return!`
        elif k == "ex":
            out.append(pad + elk_expr(s[1], names))
        elif k == "for":
            out.append("%sfor %s in %s" % (pad, names[int(s[1])], elk_expr(s[2], names)))
            elk_stmts(s[3], names, ind + 1, out)
            out.append(pad + "end")
        else:
            raise ValueError(s)


def elk_method(head, m, ptypes, ltypes, rtype, self_slot, ind, out):
    pad = "  " * ind
    names = (["self"] if self_slot else []) + ["p%d" % j for j in range(len(ptypes))] + ["l%d" % j for j in range(len(ltypes))]
    params = ", ".join("p%d: %s" % (j, TYNAME[t]) for j, t in enumerate(ptypes))
    out.append("%sdef %s%s: %s" % (pad, head, "(%s)" % params if params or not self_slot else "", TYNAME[rtype]))
    for j, (t, init) in enumerate(zip(ltypes, m[2][1:])):
        if not t.startswith("f"):        # the loop variable of a for-in is declared by the loop
            out.append("%s  var l%d: %s = %s" % (pad, j, TYNAME[t], elk_expr(init, names)))
    elk_stmts(m[3][1:], names, ind + 1, out)
    out.append("%s  %s" % (pad, elk_expr(m[4], names)))
    out.append(pad + "end")


def elk_program(p):
    sx = p["sx"]
    out = []
    if len(sx) > 4:
        ci = p["classes"]
        for c, cl in enumerate(sx[4][1:]):
            out.append("class K%d%s" % (c, "" if cl[1] == "-" else " < K%s" % cl[1]))
            if cl[1] == "-":
                out += ["  var @k: Int", "  init(k: Int)", "    @k = k", "  end"]
            for nm, m in cl[2:]:
                sg = ci["names"][int(nm)]
                elk_method("n" + nm, m, sg["ptypes"], ci["cls"][c]["meths"][nm], sg["rtype"], True, 1, out)
            out.append("end")
            out.append("")
    for i, m in enumerate(sx[1][1:]):
        info = p["meths"][i]
        elk_method("m%d" % i, m, info["ptypes"], info["ltypes"], info["rtype"], False, 0, out)
        out.append("")
    names = ["l%d" % j for j in range(len(p["ltypes"]))]
    for j, (t, init) in enumerate(zip(p["ltypes"], sx[2][1:])):
        if not t.startswith("f"):
            out.append("var l%d: %s = %s" % (j, TYNAME[t], elk_expr(init, names)))
    elk_stmts(sx[3][1:], names, 0, out)
    return "\n".join(out) + "\n"


# ------------------------------------------------------------------ generator

P63 = 2 ** 63
INT_LITS = [0, 1, 2, 3, 5, 7, 10, 12, 100, 255, 1000, 65536, 2 ** 31 - 1, 2 ** 31, 2 ** 32 + 1, 3037000499, 3037000500,
            2 ** 53, 2 ** 62 - 1, 2 ** 62, P63 - 2, P63 - 1, P63, P63 + 1, 2 ** 64 - 1, 2 ** 64, 2 ** 70 + 3]
WORDS = ["a", "b", "x", "ab", "_", "k9", "q_", "zz", "elk", "n0"]
SYMS = ["a", "b", "ok", "k9", "zz"]
CHARS = ["c", "d", "x", "7"]
UKINDS = ["int", "big", "str", "sym", "chr", "true", "false", "nil"]     # runtime classes Int String Symbol Char True False Nil


class Gen:
    def __init__(self, rng):
        self.r = rng
        self.feat = {}
        self.ci = None          # class info of the program being generated (second generation only)

    def f(self, k):
        self.feat[k] = self.feat.get(k, 0) + 1

    def int_lit(self):
        r = self.r
        c = r.below(10)
        if c < 5:
            z = r.range(-9, 20)
        elif c < 9:
            z = r.choice(INT_LITS)
            if r.chance(1, 3):
                z = -z
            if r.chance(1, 4):
                z += r.range(-2, 2)
        else:
            z = r.range(-10 ** 6, 10 ** 6)
        if z == -P63:       # the literal -(2**63) is the negation of a BigInt literal: C06's territory
            z += 1
        return ["i", str(z)]

    def lit(self, t):
        if t == "I":
            return self.int_lit()
        if t == "B":
            return ["b", self.r.choice(["t", "f"])]
        if t == "O":
            return self.new_obj(self.r.below(len(self.ci["cls"])))
        if t == "U":
            return self.ulit(self.r.choice(UKINDS))
        if t == "LO":
            return self.olist()
        if t == "LU":
            return self.ulist()
        if t in ("fO", "fU", "fI"):
            return ["nil"]
        if t in TYNAME and t.startswith("R"):
            return self.range_lit(t[1:])
        w = self.r.choice(WORDS + [None])
        return ["s"] if w is None else ["s", w]

    def range_lit(self, op):
        """a range literal with literal bounds: mostly 0..6 elements, sometimes empty / start > end / one element"""
        r = self.r
        a = r.range(-5, 6)
        b = a + r.choice([-3, -1, 0, 0, 1, 1, 2, 3, 4, 6])
        return ["range", op, ["i", str(a)], ["i", str(b)]]

    def range_bound(self, sc, pre, held):
        """an Int bound of small magnitude: literal, (<Int variable> % m) [+ literal], or a local set just before the loop"""
        r = self.r
        c = r.below(8)
        if c < 3:
            return ["i", str(r.range(-5, 7))]
        if c < 6:
            v = self.var("I", sc)
            if v is not None:
                self.f("range_bound_expr")
                e = ["bin", "mod", v, ["i", str(r.range(2, 6))]]
                return e if r.chance(1, 2) else ["bin", r.choice(["add", "sub"]), e, ["i", str(r.range(0, 3))]]
        free = [i for i in sc["counter_slots"] if i not in sc["counters"]]
        if free:
            self.f("range_bound_var")
            k = free[0]
            sc["counters"].add(k)
            held.append(k)
            pre.append(["set", str(k), ["i", str(r.range(-4, 6))]])
            return ["v", str(k)]
        return ["i", str(r.range(-5, 7))]

    def forin_range(self, sc, depth, in_method, loop_depth):
        """for <fresh loop variable> in <range literal | range-typed local>: the body prints / accumulates the element.
        Every loop has its own variable name (a second numeric-style for-in with the same name is a known back-end panic)"""
        r = self.r
        free = [x for x in sc["rangevars"] if x not in sc["rv_used"]]
        if not free:
            return []
        x = free[0]
        sc["rv_used"].add(x)
        pre, held = [], []
        rlocals = [i for i, ty in enumerate(sc["types"]) if ty in TYNAME and ty.startswith("R")]
        if rlocals and RANGE_VALUE_LOOPS and r.chance(1, 4):
            i = r.choice(rlocals)
            op = sc["types"][i][1:]
            if r.chance(1, 2):
                pre.append(["set", str(i), ["range", op, self.range_bound(sc, pre, held), self.range_bound(sc, pre, held)]])
            it = ["v", str(i)]
            self.f("for_range_value_" + op)
        else:
            op = r.choice(["cc", "co", "oc", "oo"])
            if r.chance(1, 3):
                it = self.range_lit(op)
            else:
                a = self.range_bound(sc, pre, held)
                b = self.range_bound(sc, pre, held)
                if r.chance(1, 3) and a[0] == "i":
                    b = ["i", str(int(a[1]) + r.range(-1, 2))]      # empty / one / two elements around the boundary
                it = ["range", op, a, b]
            self.f("for_range_literal_" + op)
        sc["hidden"].discard(x)
        xv = ["v", str(x)]
        body = []
        accs = [i for i, ty in enumerate(sc["types"]) if ty == "I" and i >= sc["nparams"] and i not in sc["counters"]
                and i not in sc["hidden"] and i not in sc["rangevars"] and i not in sc["counter_slots"]]
        c = r.below(3)
        if c != 1 or not accs:
            body.append(["print", ["cat", ["s", "r"], ["insp", xv]]])
        if c != 0 and accs:
            self.f("range_accumulate")
            k = str(r.choice(accs))
            body.append(["set", k, ["bin", r.choice(["add", "add", "sub", "mul"]), ["v", k], xv]])
        if r.chance(1, 2) and depth > 0:
            body += self.stmts(sc, r.range(1, 2), depth - 1, in_method, loop_depth + 1)
        sc["hidden"].add(x)
        for k in held:
            sc["counters"].discard(k)
        return pre + [["for", str(x), it, body]]

    def new_obj(self, c):
        return ["new", str(c), ["i", str(self.r.range(0, 9))]]

    def ulit(self, kind):
        r = self.r
        if kind == "int":
            return ["i", str(r.range(-9, 99))]
        if kind == "big":
            return ["i", str(2 ** 64 + r.range(0, 9))]
        if kind == "str":
            return ["s", r.choice(WORDS)]
        if kind == "sym":
            return ["sym", r.choice(SYMS)]
        if kind == "chr":
            return ["chr", r.choice(CHARS)]
        if kind == "nil":
            return ["nil"]
        return ["b", "t" if kind == "true" else "f"]

    def runs(self, nkinds):
        """a sequence of 4..14 kinds with runs of equal kinds: a a b c d d e e a ..."""
        r = self.r
        n = r.range(4, 14)
        out, k = [], None
        stay = r.choice([(1, 4), (9, 20), (3, 5)])
        for _ in range(n):
            if k is None or not r.chance(*stay):
                k = r.below(nkinds)
            out.append(k)
        return out

    def olist(self):
        self.f("list_obj")
        return ["list"] + [self.new_obj(c) for c in self.runs(len(self.ci["cls"]))]

    def ulist(self):
        self.f("list_union")
        return ["list"] + [self.ulit(UKINDS[k]) for k in self.runs(len(UKINDS))]

    def send(self, t, sc, depth, recv=None):
        """a dynamically dispatched call <O-typed variable>.n<j>(args) whose result has type t (None: any)"""
        if not self.ci:
            return None
        names = [j for j in sc["send_names"] if t is None or self.ci["names"][j]["rtype"] == t]
        if recv is None:
            recv = self.var("O", sc)
        if not names or recv is None or sc["calls_left"][0] <= 0:
            return None
        sc["calls_left"][0] -= 1
        j = self.r.choice(names)
        self.f("send")
        return ["send", recv, str(j)] + [self.expr(pt, sc, min(depth, 1), in_call=True) for pt in self.ci["names"][j]["ptypes"]]

    def show(self, e, t):
        """a String-typed expression showing e : t"""
        return e if t == "S" else ["insp", e]

    def var(self, t, sc):
        cands = [i for i, ty in enumerate(sc["types"]) if ty == t and i not in sc.get("hidden", ())]
        if not cands:
            return None
        return ["v", str(self.r.choice(cands))]

    def call(self, t, sc, depth):
        cands = [j for j in sc["callable"] if self.sigs[j]["rtype"] == t]
        if not cands or sc["calls_left"][0] <= 0:
            return None
        sc["calls_left"][0] -= 1
        j = self.r.choice(cands)
        self.f("call")
        return ["call", str(j)] + [self.expr(pt, sc, min(depth, 1), in_call=True) for pt in self.sigs[j]["ptypes"]]

    def expr(self, t, sc, depth, in_call=False):
        """in_call: inside a method-call argument list (println included): no && / || there, the checker
        panics on them (LogicalExpressionNode.splice, a parser/AST defect outside this property)"""
        r = self.r
        if t in ("O", "LO", "LU"):
            v = self.var(t, sc) if r.chance(2, 3) else None
            return v if v is not None else self.lit(t)
        if t == "U":
            c = r.below(6)
            if c < 2:
                v = self.var("U", sc)
                if v is not None:
                    return v
            if c < 3 and depth > 0:
                return self.expr(r.choice(["I", "S", "B"]), sc, min(depth, 1), in_call)
            return self.lit("U")
        if depth <= 0 or r.chance(1, 5):
            v = self.var(t, sc) if r.chance(2, 3) else None
            return v if v is not None else self.lit(t)
        if self.ci and r.chance(1, 4):
            c = r.below(4)
            if t == "I" and sc.get("in_class") and c == 0:
                self.f("field")
                return ["fld"]
            if t == "S" and c == 1:
                v = self.var("U", sc)
                if v is not None:
                    self.f("inspect_dyn")
                    return ["insp", v]
            e = self.send(t, sc, depth)
            if e is not None:
                return e
        c = r.below(12)
        if t == "I":
            if c < 6:
                o = r.choice(["add", "sub", "add", "sub", "mul", "div", "mod"])
                self.f("int_" + o)
                a = self.expr("I", sc, depth - 1, in_call)
                if o == "mul":
                    # one factor is a literal: sizes grow additively, never by squaring
                    b = self.int_lit()
                    return ["bin", o, a, b] if r.chance(1, 2) else ["bin", o, b, a]
                if o in ("div", "mod"):
                    if r.chance(1, 12):
                        self.f("divisor_expr")
                        b = self.expr("I", sc, depth - 1, in_call)      # may be zero: ZeroDivisionError
                    else:
                        b = self.int_lit()
                        if b[1] == "0" and not r.chance(1, 6):
                            b = ["i", "3"]
                        if r.chance(1, 20):
                            self.f("divisor_zero")
                            b = ["i", "0"]                               # uncaught ZeroDivisionError
                    return ["bin", o, a, b]
                return ["bin", o, a, self.expr("I", sc, depth - 1, in_call)]
            if c < 7:
                self.f("int_neg")
                return ["neg", self.expr("I", sc, depth - 1, in_call)]
            if c < 9:
                e = self.call("I", sc, depth)
                if e is not None:
                    return e
            v = self.var("I", sc)
            return v if v is not None else self.int_lit()
        if t == "B":
            if c < 5:
                self.f("cmp")
                return ["cmp", r.choice(list(CMPOP)), self.expr("I", sc, depth - 1, in_call), self.expr("I", sc, depth - 1, in_call)]
            if c < 6:
                self.f("not")
                return ["not", self.expr("B", sc, depth - 1, in_call)]
            if c < 9 and not in_call:
                o = r.choice(["and", "or"])
                self.f(o)
                return [o, self.expr("B", sc, depth - 1, in_call), self.expr("B", sc, depth - 1, in_call)]
            if c < 10:
                e = self.call("B", sc, depth)
                if e is not None:
                    return e
            v = self.var("B", sc)
            return v if v is not None else self.lit("B")
        # String
        if c < 4:
            self.f("cat")
            return ["cat", self.expr("S", sc, depth - 1, in_call), self.expr("S", sc, depth - 1, in_call)]
        if c < 8:
            self.f("inspect_int")
            return ["insp", self.expr("I", sc, depth - 1, in_call)]
        if c < 9 and sc["bool_inspect"]:
            self.f("inspect_bool")
            return ["insp", self.expr("B", sc, depth - 1, True)]
        if c < 10:
            e = self.call("S", sc, depth)
            if e is not None:
                return e
        v = self.var("S", sc)
        return v if v is not None else self.lit("S")

    def stmts(self, sc, n, depth, in_method, loop_depth):
        r = self.r
        out = []
        for _ in range(n):
            if sc["rangevars"] and loop_depth < 2 and r.chance(1, 5):
                fr = self.forin_range(sc, depth, in_method, loop_depth)
                if fr:
                    out += fr
                    continue
            if self.ci and r.chance(1, 4):
                c = r.below(5)
                lists = [i for i, ty in enumerate(sc["types"]) if ty in ("LO", "LU") and sc["loopvar"].get(ty) is not None
                         and sc["loopvar"][ty] in sc["hidden"]]
                if c < 3 and lists and depth > 0 and loop_depth < 2:
                    out.append(self.forin(sc, r.choice(lists), depth, in_method, loop_depth))
                    continue
                t = r.choice(["O", "U", "U", "LO", "LU"])
                cands = [i for i, ty in enumerate(sc["types"]) if ty == t and i >= sc["nparams"] and i not in sc["hidden"]
                         and i not in sc["loopvar"].values()]
                if cands:
                    self.f("set_" + t)
                    out.append(["set", str(r.choice(cands)), self.expr(t, sc, 2)])
                    continue
            c = r.below(14)
            if c < 5:
                t = r.choice(["I", "I", "I", "B", "S"])
                cands = [i for i, ty in enumerate(sc["types"]) if ty == t and i >= sc["nparams"] and i not in sc["counters"]
                         and i not in sc["rangevars"]]
                if cands:
                    x = r.choice(cands)
                    e = self.expr(t, sc, 3)
                    if loop_depth > 0 and t == "S":
                        e = self.expr(t, sc, 1)
                    out.append(["set", str(x), e])
                    continue
                c = 5
            if c < 8:
                self.f("print")
                out.append(["print", self.expr("S", sc, 3, in_call=True)])
            elif c < 10 and depth > 0:
                self.f("if")
                cond = self.expr("B", sc, 2)
                th = self.stmts(sc, r.range(1, 3), depth - 1, in_method, loop_depth)
                if in_method and r.chance(1, 4):
                    self.f("return")
                    th.append(["ret", self.expr(sc["rtype"], sc, 2)])
                el = self.stmts(sc, r.range(1, 2), depth - 1, in_method, loop_depth) if r.chance(1, 2) else []
                out.append(["if", cond, th, el])
            elif c < 12 and depth > 0 and loop_depth < 2:
                free = [i for i in sc["counter_slots"] if i not in sc["counters"]]
                if not free:
                    continue
                self.f("while")
                k = free[0]
                sc["counters"].add(k)
                bound = r.range(0, 4) if loop_depth == 0 else r.range(1, 3)
                body = self.stmts(sc, r.range(1, 3), depth - 1, in_method, loop_depth + 1)
                body.append(["set", str(k), ["bin", "add", ["v", str(k)], ["i", "1"]]])
                out.append(["set", str(k), ["i", "0"]])
                out.append(["while", ["cmp", "lt", ["v", str(k)], ["i", str(bound)]], body])
                sc["counters"].discard(k)
            elif c < 13:
                e = self.call(r.choice(["I", "B", "S"]), sc, 2)
                if e is not None:
                    self.f("call_stmt")
                    out.append(["ex", e])
            else:
                self.f("print")
                out.append(["print", self.expr("S", sc, 2, in_call=True)])
        if not out:         # Elk has no empty blocks
            self.f("print")
            out.append(["print", self.expr("S", sc, 1, in_call=True)])
        return out

    def forin(self, sc, lst, depth, in_method, loop_depth):
        """for <loop variable> in <list local>: the first statement prints a dynamically dispatched call on the element"""
        r = self.r
        lt = sc["types"][lst]
        x = sc["loopvar"][lt]
        self.f("for_" + lt)
        sc["hidden"].discard(x)
        xv = ["v", str(x)]
        if lt == "LO":
            e = self.send(None, sc, 1, recv=xv)
            first = ["print", self.show(e, self.ci["names"][int(e[2])]["rtype"])] if e is not None else ["print", ["s", "o"]]
        else:
            self.f("inspect_dyn")
            first = ["print", ["insp", xv]]
        body = [first]
        if r.chance(1, 2):
            body += self.stmts(sc, r.range(1, 2), depth - 1, in_method, loop_depth + 1)
        sc["hidden"].add(x)
        return ["for", str(x), ["v", str(lst)], body]

    def scope(self, ptypes, rtype, callable_, bool_inspect, extra=(), self_slot=False):
        nl = self.r.range(2, 3) if self_slot else self.r.range(3, 6)
        if not self_slot:
            # third generation: loop variables of for-in loops over ranges (one per loop) and range-typed locals
            extra = tuple(extra) + ("fI",) * (2 if rtype is not None else 4) + \
                tuple("R" + self.r.choice(list(RANGEOP)) for _ in range(self.r.range(0, 2)))
        ltypes = ["I", "I"] + [self.r.choice(["I", "I", "B", "S"]) for _ in range(nl - 2)] + list(extra) + ["I", "I"]   # last two: loop counters
        pre = (["O"] if self_slot else []) + list(ptypes)
        types = pre + [t[1:] if t.startswith("f") else t for t in ltypes]
        n = len(types)
        loopvar = {"L" + t[1:]: len(pre) + i for i, t in enumerate(ltypes) if t in ("fO", "fU")}
        rangevars = [len(pre) + i for i, t in enumerate(ltypes) if t == "fI"]
        return dict(types=types, nparams=len(pre), ltypes=ltypes, rtype=rtype, callable=callable_,
                    counters=set(), counter_slots=[n - 2, n - 1], calls_left=[6], bool_inspect=bool_inspect,
                    hidden=set(loopvar.values()) | set(rangevars), loopvar=loopvar, in_class=self_slot,
                    rangevars=rangevars, rv_used=set(),
                    send_names=list(range(len(self.ci["names"]))) if self.ci else [])

    def classes(self):
        """K0 (base: defines every method name) and 4..6 subclasses overriding some of them; parents precede children.
        A class method may send only names of smaller index (to self or any object): no recursion through dispatch."""
        r = self.r
        ncls = r.range(5, 7)
        nnames = r.range(1, 3)
        names = []
        for j in range(nnames):
            names.append(dict(ptypes=[] if j == 0 and r.chance(2, 3) else [r.choice(["I", "I", "S", "O"]) for _ in range(r.range(0, 2))],
                              rtype="S" if j == 0 else r.choice(["S", "S", "I", "B"])))
        self.ci = dict(names=names, cls=[])
        for c in range(ncls):
            self.ci["cls"].append(dict(parent=None if c == 0 else (0 if c == 1 or r.chance(2, 3) else r.range(1, c - 1)), meths={}))
        out = []
        for c in range(ncls):
            cl = self.ci["cls"][c]
            ms = []
            for j, sg in enumerate(names):
                if c > 0 and not r.chance(3, 5):
                    continue
                self.f("class_method" if c == 0 else "override")
                sc = self.scope(sg["ptypes"], sg["rtype"], [], False, self_slot=True)
                sc["send_names"] = list(range(j))
                sc["calls_left"] = [2]
                body = self.stmts(sc, r.range(1, 2), 1, True, 0) if r.chance(1, 3) else []
                ret = self.expr(sg["rtype"], sc, 2)
                if sg["rtype"] == "S":
                    ret = ["cat", ["s", "k%dn%d" % (c, j)], ret]       # the output names the implementation that ran
                elif sg["rtype"] == "I":
                    ret = ["bin", "add", ["i", str(1000 * (c + 1))], ret]
                inits = [self.lit(t) for t in sc["ltypes"]]
                ms.append([str(j), ["m", str(len(sg["ptypes"])), ["locals"] + inits, ["body"] + body, ret]])
                cl["meths"][str(j)] = sc["ltypes"]
            out.append(["c", "-" if cl["parent"] is None else str(cl["parent"])] + ms)
        return ["classes"] + out

    def program(self, with_classes=False):
        r = self.r
        nm = r.range(1, 4)
        bool_inspect = r.chance(1, 8)
        classes_sx = self.classes() if with_classes else None
        if with_classes:
            nm = r.range(0, 3)
        self.sigs = []
        for i in range(nm):
            self.sigs.append(dict(ptypes=[r.choice(["I", "I", "B", "S"] + (["O", "U", "O"] if with_classes else []))
                                          for _ in range(r.range(0, 3))],
                                  rtype=r.choice(["I", "I", "B", "S"])))
        rank = list(range(nm))
        r.shuffle(rank)         # a method may call only methods of smaller rank: no recursion, forward and backward references
        meths_sx, infos = [], []
        for i in range(nm):
            sg = self.sigs[i]
            recursive = sg["ptypes"][:1] == ["I"] and sg["rtype"] == "I" and r.chance(1, 3)
            extra = r.choice([(), ("LO", "fO"), ("LU", "fU"), ("U",)]) if with_classes else ()
            sc = self.scope(sg["ptypes"], sg["rtype"], [j for j in range(nm) if rank[j] < rank[i]], bool_inspect, extra)
            body = self.stmts(sc, r.range(1, 4), 2, True, 0)
            ret = self.expr(sg["rtype"], sc, 3)
            if recursive:
                # m(n, ...) = if n <= 0 then <base> else <body>; m(n - 1 - |..|, ...) combined with ret
                self.f("recursion")
                base = self.expr("I", dict(sc, callable=[]), 1)
                args = [["bin", "sub", ["v", "0"], ["i", str(r.range(1, 2))]]] + \
                       [self.expr(pt, dict(sc, callable=[]), 1, in_call=True) for pt in sg["ptypes"][1:]]
                body = [["if", ["cmp", "le", ["v", "0"], ["i", "0"]], [["ret", base]], []]] + body
                ret = ["bin", r.choice(["add", "sub"]), ["call", str(i)] + args, ret]
            inits = [self.lit(t) for t in sc["ltypes"]]
            meths_sx.append(["m", str(len(sg["ptypes"])), ["locals"] + inits, ["body"] + body, ret])
            infos.append(dict(ptypes=sg["ptypes"], ltypes=sc["ltypes"], rtype=sg["rtype"], recursive=recursive))
        self.sigs_rec = [m["recursive"] for m in infos]
        extra = ("O", "U", "LO", "LU", "fO", "fU") + (("LO",) if r.chance(1, 2) else ()) if with_classes else ()
        sc = self.scope([], None, list(range(nm)), bool_inspect, extra)
        sc["calls_left"] = [10]
        main = self.stmts(sc, r.range(4, 9), 2, False, 0)
        # every Int / String local is printed at the end, so silent state differences become visible;
        # every object / list local is sent every method name (one call site per name sees the whole list)
        sc["calls_left"] = [10 ** 6]
        for i, t in enumerate(sc["types"]):
            if i in sc["hidden"]:
                continue
            if t == "I":
                main.append(["print", ["insp", ["v", str(i)]]])
            elif t == "S":
                main.append(["print", ["v", str(i)]])
            elif t == "B":
                main.append(["if", ["v", str(i)], [["print", ["s", "t"]]], [["print", ["s", "f"]]]])
            elif t == "U":
                main.append(["print", ["insp", ["v", str(i)]]])
            elif t == "O":
                e = self.send(None, sc, 1, recv=["v", str(i)])
                main.append(["print", self.show(e, self.ci["names"][int(e[2])]["rtype"])])
            elif t == "LU":
                main.append(["for", str(sc["loopvar"]["LU"]), ["v", str(i)], [["print", ["insp", ["v", str(sc["loopvar"]["LU"])]]]]])
            elif t == "LO":
                x = sc["loopvar"]["LO"]
                sc["hidden"].discard(x)
                for j, sg in enumerate(self.ci["names"]):
                    e = ["send", ["v", str(x)], str(j)] + [self.expr(pt, sc, 1, in_call=True) for pt in sg["ptypes"]]
                    main.append(["for", str(x), ["v", str(i)], [["print", self.show(e, sg["rtype"])]]])
                sc["hidden"].add(x)
        sx = ["prog", ["meths"] + meths_sx, ["locals"] + [self.lit(t) for t in sc["ltypes"]], ["main"] + main]
        p = dict(sx=sx, meths=infos, ltypes=sc["ltypes"])
        if with_classes:
            sx.append(classes_sx)
            p["classes"] = self.ci
        return p


def fix_recursive_calls(p):
    """calls to a recursive method from outside pass a small first argument (bounded depth)"""
    rec = [m["recursive"] for m in p["meths"]]

    def go(e, inside):
        if not isinstance(e, list):
            return e
        if e and e[0] == "call" and rec[int(e[1])] and inside != int(e[1]):
            e = e[:2] + [["bin", "mod", e[2], ["i", "5"]]] + e[3:]
        return [go(x, inside) for x in e]
    sx = p["sx"]
    meths = ["meths"] + [go(m, i) for i, m in enumerate(sx[1][1:])]
    p["sx"] = ["prog", meths, go(sx[2], -1), go(sx[3], -1)] + sx[4:]
    return p


# ------------------------------------------------------------------ corpus: lines "<sexp of types> <TAB> <sexp of prog>"

def load_corpus(path):
    out = []
    if os.path.exists(path):
        for n, line in enumerate(open(path)):
            line = line.rstrip("\n")
            if not line.strip() or line.startswith("#"):
                continue
            ty, prog = line.split("\t")[:2]
            t = sx_parse(ty)         # ((ltypes of main) ((ptypes) (ltypes) rtype)... [(classes (((ptypes) rtype)...) ((<name> (ltypes))...)...)])
            ci = None
            if len(t) > 1 and t[-1] and t[-1][0] == "classes":
                c = t.pop()
                sxp = sx_parse(prog)
                ci = dict(names=[dict(ptypes=list(x[0]), rtype=x[1]) for x in c[1]],
                          cls=[dict(parent=None if k[1] == "-" else int(k[1]), meths={nm: list(lt) for nm, lt in ms})
                               for k, ms in zip(sxp[4][1:], c[2:])])
            meths = [dict(ptypes=list(m[0]), ltypes=list(m[1]), rtype=m[2], recursive=False) for m in t[1:]]
            p = dict(sx=sx_parse(prog), meths=meths, ltypes=list(t[0]))
            if ci:
                p["classes"] = ci
            out.append(("k%d" % n, p))
    return out


def corpus_line(p):
    t = [p["ltypes"]] + [[m["ptypes"], m["ltypes"], m["rtype"]] for m in p["meths"]]
    if p.get("classes"):
        ci = p["classes"]
        t.append(["classes", [[n["ptypes"], n["rtype"]] for n in ci["names"]]] +
                 [[[nm, lt] for nm, lt in c["meths"].items()] for c in ci["cls"]])
    return sx_str(t) + "\t" + sx_str(p["sx"])


# ------------------------------------------------------------------ running

ERR_RE = re.compile(r"Error! Uncaught error ([\w:]+): ?(.*)")


def run_cmd(cmd, cwd, env, timeout):
    try:
        p = subprocess.run(cmd, cwd=cwd, env=env, timeout=timeout, stdout=subprocess.PIPE, stderr=subprocess.PIPE,
                           text=True, errors="replace")
        return p.returncode, p.stdout, p.stderr
    except subprocess.TimeoutExpired as e:
        return 124, (e.stdout or b"").decode("utf-8", "replace") if isinstance(e.stdout, bytes) else (e.stdout or ""), "[timeout]"


def observe(rc, out, err):
    """-> dict(kind, lines, err, status)  kind: run | go_panic | go_fatal | timeout | signal"""
    if rc == 124:
        kind = "timeout"
    elif "fatal error:" in err or "[signal " in err:
        kind = "go_fatal"
    elif re.search(r"^panic: ", err, re.M) or ("goroutine " in err and "runtime." in err):
        kind = "go_panic"
    elif rc < 0:
        kind = "signal"
    else:
        kind = "run"
    m = ERR_RE.search(err) or ERR_RE.search(out)
    lines = out.split("\n")
    if lines and lines[-1] == "":
        lines = lines[:-1]
    return dict(kind=kind, lines=lines, err=(m.group(1), m.group(2).strip()) if m else None, status=rc,
                stderr=err if len(err) <= 2400 else err[:900] + "\n[...]\n" + err[-1500:])


def model_obs(s):
    if not s.startswith("D|"):
        return None
    _, status, cls, msg, rest = s.split("|", 4)
    return dict(kind="run", lines=rest.split("~") if rest != "" else [], err=(cls, msg) if cls else None, status=int(status))


def obs_diff(a, b):
    """None when observationally equivalent, else (kind, detail)"""
    if a["lines"] != b["lines"]:
        n = min(len(a["lines"]), len(b["lines"]))
        i = next((k for k in range(n) if a["lines"][k] != b["lines"][k]), n)
        la = a["lines"][i] if i < len(a["lines"]) else "<end>"
        lb = b["lines"][i] if i < len(b["lines"]) else "<end>"

        def shape(l):
            if l == "<end>":
                return "end"
            if re.fullmatch(r"-?\d+", l):
                return "int"
            if l in ("true", "false"):
                return "bool"
            return "text"
        return "stdout:%s-vs-%s" % (shape(la), shape(lb)), "line %d: %r vs %r" % (i + 1, la, lb)
    if a["err"] != b["err"]:
        return "error-report", "%r vs %r" % (a["err"], b["err"])
    if (a["status"] == 0) != (b["status"] == 0):
        return "exit-status", "%r vs %r" % (a["status"], b["status"])
    return None


def invalid_call_site(stderr):
    return "neither bytecode nor native" in stderr or "vm.(*Thread).opCallMethod" in stderr


def panic_key(o):
    err = o.get("stderr", "")
    m = re.search(r"^(?:panic|fatal error): (.*)$", err, re.M)
    # values quoted in the message (`c`, ``d``, "zz", 21) are not part of the class of the failure
    msg = re.sub(r"\d+", "N", re.sub(r"`+[^`]*`+|\"[^\"]*\"", "V", m.group(1)))[:70] if m else "unknown"
    msg = re.sub(r"0x[0-9a-f]+", "ADDR", msg)
    msg = re.sub(r"[^A-Za-z\[\]]+", "-", msg).strip("-")
    return "%s@%s" % (msg, first_frame(err))


def first_frame(err):
    fm = re.search(r"^github\.com/elk-language/elk/(\S+)\(", err, re.M)
    return re.sub(r"\[[^\]]*\]", "", fm.group(1)) if fm else "?"


class NativeBatch:
    """Builds many generated Go programs into ONE binary (one link): each generated file becomes package
    p<i> with `func Main()`, a dispatcher main selects by argv[1]. A sample is also built unmodified."""

    def __init__(self, ctx, h, tag):
        self.ctx = ctx
        self.h = h
        self.dir = tempfile.mkdtemp(prefix="c09-%s-" % tag, dir="/tmp")
        self.build_seconds = 0.0
        self.env = dict(vlib.GOENV, ELKPATH=vlib.REPO, ELKWARN="0", NO_COLOR="1")
        self.gomod = ("module c09batch\n\ngo 1.25.0\n\nrequire github.com/elk-language/elk v0.0.0\n\n"
                      "replace github.com/elk-language/elk => %s\n" % vlib.REPO)

    def close(self):
        shutil.rmtree(self.dir, ignore_errors=True)

    def size(self, cid):
        try:
            return os.path.getsize(os.path.join(self.dir, cid, cid + ".go"))
        except OSError:
            return 1 << 30

    def emit_all(self, progs):
        """progs: list of (cid, elk source). -> {cid: (status, detail)} status: ok|rejected|backend_panic|bad_go"""
        srcdir = os.path.join(self.dir, "src")
        os.makedirs(srcdir, exist_ok=True)

        def one(p):
            cid, src = p
            f = os.path.join(srcdir, cid + ".elk")
            with open(f, "w") as fh:
                fh.write(src)
            pk = os.path.join(self.dir, cid)
            os.makedirs(pk, exist_ok=True)
            rc, out, err = run_cmd([self.h, "-mode", "emit", "-src", f, "-out", os.path.join(pk, cid + ".go"), "-pkg", cid],
                                   srcdir, self.env, 300)
            if rc == 0:
                try:
                    sites = open(os.path.join(pk, cid + ".go")).read().count("CallMethodByNameWithCache(")
                except OSError:
                    sites = 0
                return cid, ("ok", sites)
            shutil.rmtree(pk, ignore_errors=True)
            if "panic:" in err or "goroutine " in err:
                m = re.search(r"^panic: (.*)$", err, re.M)
                msg = m.group(1) if m else err[:200]
                if re.search(r"invalid (expression|statement|pattern|type) node|not implemented|unsupported", msg):
                    return cid, ("backend_panic", msg)       # the back end's way of refusing a construct
                return cid, ("backend_crash", msg + " @" + first_frame(err))
            if rc == 3:
                return cid, ("bad_go", out[-400:])
            return cid, ("rejected", (out.strip().splitlines() or ["?"])[0][:200])
        return dict(vlib.parallel_map(one, progs, workers=10))

    def build(self, cids):
        """-> (binary or None, {cid: compile error text})"""
        with open(os.path.join(self.dir, "go.mod"), "w") as f:
            f.write(self.gomod)
        shutil.copy(os.path.join(vlib.REPO, "go.sum"), os.path.join(self.dir, "go.sum"))
        bad = {}
        cids = list(cids)
        for _attempt in range(4):
            main = ["package main", "", "import (", '\t"os"']
            main += ['\t%s "c09batch/%s"' % (c, c) for c in cids]
            main += [")", "", "func main() {", "\tswitch os.Args[1] {"]
            for c in cids:
                main += ['\tcase "%s":' % c, "\t\t%s.Main()" % c]
            main += ["\t}", "}", ""]
            with open(os.path.join(self.dir, "main.go"), "w") as f:
                f.write("\n".join(main))
            t0 = time.time()
            rc, log = vlib.sh(["go", "build", "-tags", "native", "-ldflags", "-s -w", "-o", "prog", "."], cwd=self.dir,
                              env=self.env, timeout=3000)
            self.build_seconds += time.time() - t0
            if rc == 0:
                return os.path.join(self.dir, "prog"), bad
            failing = set(re.findall(r"^(?:\./)?(\w+)/\w+\.go:\d+", log, re.M)) | set(re.findall(r"^# c09batch/(\w+)", log, re.M))
            failing &= set(cids)
            if not failing:
                self.ctx.broke("correspondence %s: go build of the batch failed" % NATIVE, log[-3000:])
                return None, bad
            for c in failing:
                m = re.search(r"^(?:\./)?%s/\w+\.go:\d+:\d+: (.*)$" % c, log, re.M)
                bad[c] = m.group(1) if m else log[-300:]
            cids = [c for c in cids if c not in failing]
            if not cids:
                return None, bad
        return None, bad

    def build_plain(self, cid, elk_src):
        """the unmodified pipeline for one program: main.go exactly as generated, own module"""
        d = os.path.join(self.dir, "plain_" + cid)
        os.makedirs(d, exist_ok=True)
        f = os.path.join(d, cid + ".elk")
        with open(f, "w") as fh:
            fh.write(elk_src)
        rc, out, err = run_cmd([self.h, "-mode", "emit", "-src", f, "-out", os.path.join(d, "main.go")], d, self.env, 300)
        if rc != 0:
            return None, "emit rc=%d %s" % (rc, (out + err)[-300:])
        with open(os.path.join(d, "go.mod"), "w") as fh:
            fh.write(self.gomod.replace("module c09batch", "module main"))
        shutil.copy(os.path.join(vlib.REPO, "go.sum"), os.path.join(d, "go.sum"))
        rc, log = vlib.sh(["go", "build", "-tags", "native", "-ldflags", "-s -w", "-o", "prog", "."], cwd=d, env=self.env, timeout=3000)
        if rc != 0:
            return None, log[-600:]
        return os.path.join(d, "prog"), ""


def feature_key(p):
    """coarse shape of a program for failure keys"""
    s = sx_str(p["sx"])
    feats = [k for k, pat in (("bool-inspect", r"\(insp \((?:cmp|not|and|or|b|call)"), ("while", r"\(while "), ("call", r"\(call "),
                              ("for", r"\(for \d+ \(v "), ("for-range-literal", r"\(for \d+ \(range "), ("send", r"\(send "), ("dyn-inspect", r"\(list \((?:i|s|sym|chr|b|nil)[ )]"))
             if re.search(pat, s)]
    return "+".join(feats) or "straight"


def has_range_value_loop(p):
    """a for-in whose iterable is a local of a range type (the types are needed to tell it from a list)"""
    found = [False]

    def walk(x, types):
        if not isinstance(x, list) or not x:
            return
        if x[0] == "for" and isinstance(x[2], list) and x[2][0] == "v" and int(x[2][1]) < len(types) \
                and types[int(x[2][1])].startswith("R"):
            found[0] = True
        for y in x[1:]:
            walk(y, types)
    for m, info in zip(p["sx"][1][1:], p["meths"]):
        walk(m, info["ptypes"] + info["ltypes"])
    walk(p["sx"][3], p["ltypes"])
    return found[0]


def has_bool_inspect(p):
    """(insp e) with e : Bool - needs types; decided structurally + by variable types"""
    found = [False]

    def ety(e, types, sigs):
        k = e[0]
        if k in ("i", "bin", "neg"):
            return "I"
        if k in ("b", "cmp", "not", "and", "or"):
            return "B"
        if k in ("s", "cat", "insp"):
            return "S"
        if k == "v":
            return types[int(e[1])]
        if k == "call":
            return sigs[int(e[1])]
        if k == "fld":
            return "I"
        if k == "send" and p.get("classes"):
            return p["classes"]["names"][int(e[2])]["rtype"]
        return "?"

    sigs = [m["rtype"] for m in p["meths"]]

    def walk(x, types):
        if not isinstance(x, list) or not x:
            return
        if x[0] == "insp" and ety(x[1], types, sigs) == "B":
            found[0] = True
        for y in x[1:]:
            walk(y, types)
    for m, info in zip(p["sx"][1][1:], p["meths"]):
        walk(m, info["ptypes"] + info["ltypes"])
    walk(p["sx"][3], p["ltypes"])
    if p.get("classes"):
        for c, cl in enumerate(p["sx"][4][1:]):
            for nm, m in cl[2:]:
                walk(m, ["O"] + p["classes"]["names"][int(nm)]["ptypes"] + p["classes"]["cls"][c]["meths"][nm])
    return found[0]


def run_native_stream(ctx, h, m, elk, cases, tag, plain_n):
    """cases: list of (cid, program dict). Returns stats."""
    st = dict(programs=len(cases), executed=0, rejected=0, backend_panic=0, model_skipped=0, mismatches=0, errors_expected=0,
              reject_reasons={}, distinct=set(), lines_compared=0, plain_checked=0, vm_s=0, native_s=0, native_vm=0,
              corpus_programs=sum(1 for c, _ in cases if c.startswith("k")), corpus_executed=0, class_programs_executed=0,
              dynamic_call_sites=0, build_s=0)
    if not cases:
        return st
    ids = [c for c, _ in cases]
    inputs = {c: sx_str(p["sx"]) for c, p in cases}
    srcs = {c: elk_program(p) for c, p in cases}
    byid = dict(cases)
    workdir = os.path.join(ctx.workdir, tag)
    os.makedirs(workdir, exist_ok=True)
    env = vlib.elk_env({"GOMAXPROCS": "4"})

    def run_vm(cid):
        f = os.path.join(workdir, cid + ".elk")
        with open(f, "w") as fh:
            fh.write(srcs[cid])
        rc_, out, err = run_cmd([elk, "run", f], workdir, env, 120)
        if rc_ == 124:
            rc_, out, err = run_cmd([elk, "run", f], workdir, env, 600)
        os.remove(f)
        return observe(rc_, out, err)

    # the bytecode-VM runs, the reference interpreter and the unmodified sample build overlap with the emission and
    # the ONE batched `go build` (one link per run)
    from concurrent.futures import ThreadPoolExecutor
    pool = ThreadPoolExecutor(max_workers=10)
    nb = NativeBatch(ctx, h, tag)
    try:
        model_f = pool.submit(vlib.run_model, m, ids, inputs, ["prog"])
        vm_f = {c: pool.submit(run_vm, c) for c in ids}
        em = nb.emit_all([(c, srcs[c]) for c in ids])
        ok_ids = [c for c in ids if em[c][0] == "ok"]
        # unmodified pipeline on ONE small program: its observation must equal the batched one
        plain = sorted([c for c in ok_ids if c.startswith("g")], key=lambda c: (nb.size(c), c))[:plain_n]
        plain_f = {c: pool.submit(nb.build_plain, c, srcs[c]) for c in plain}
        binary, bad = nb.build(ok_ids) if ok_ids else (None, {})
        st["build_s"] = round(nb.build_seconds, 1)
        native = {}
        if binary:
            def run_nat(cid):
                rc_, out, err = run_cmd([binary, cid], nb.dir, env, 120)
                if rc_ == 124:
                    rc_, out, err = run_cmd([binary, cid], nb.dir, env, 600)
                return cid, observe(rc_, out, err)
            native = dict(vlib.parallel_map(run_nat, [c for c in ok_ids if c not in bad], workers=12))
        for cid in plain:
            pb, why = plain_f[cid].result()
            if cid not in native:
                continue
            if pb is None:
                ctx.fail("native-compile-error:plain", "program %s: the unmodified generated main.go does not build: %s" % (cid, why),
                         stream=NATIVE, case=corpus_line(byid[cid]), impl=why, model="builds", oracle="the generated Go source compiles")
                continue
            rc_, out, err = run_cmd([pb], nb.dir, env, 300)
            o = observe(rc_, out, err)
            st["plain_checked"] += 1
            if o["kind"] != native[cid]["kind"] or obs_diff(o, native[cid]):
                ctx.broke("correspondence %s: batched build and unmodified build of %s behave differently" % (NATIVE, cid),
                          "%r vs %r" % (o, native[cid]))
        vm = {c: f.result() for c, f in vm_f.items()}
        rc, exp, mout = model_f.result()
        if rc != 0:
            ctx.broke("correspondence %s: model driver exited %d" % (NATIVE, rc), mout[-2000:])
    finally:
        pool.shutdown(wait=True)
        nb.close()
    # --- compare
    for cid in ids:
        p = byid[cid]
        case = corpus_line(p)
        status, detail = em[cid]
        vo = vm[cid]
        mo = model_obs(exp.get(cid, ""))
        if vo["kind"] == "run" and vo["status"] != 0 and vo["err"] is None and ("[FAIL]" in vo["stderr"] or "[FAIL]" in "\n".join(vo["lines"])):
            # the checker itself rejects the program (generator slip): not an execution
            st["rejected"] += 1
            why = "checker:" + re.sub(r"`[^`]*`", "`..`", (re.search(r"\[FAIL\] ([^\n]*)", vo["stderr"] + "\n".join(vo["lines"])) or [None, "?"])[1])[:80]
            st["reject_reasons"][why] = st["reject_reasons"].get(why, 0) + 1
            continue
        if status == "rejected":
            st["rejected"] += 1
            why = re.sub(r"`[^`]*`", "`..`", detail)[:80]
            st["reject_reasons"][why] = st["reject_reasons"].get(why, 0) + 1
            continue
        if status == "backend_panic":
            st["backend_panic"] += 1
            why = "backend panic: " + re.sub(r"0x[0-9a-f]+|\d+", "N", detail)[:80]
            st["reject_reasons"][why] = st["reject_reasons"].get(why, 0) + 1
            continue
        if status == "backend_crash":
            st["mismatches"] += 1
            msg, _, fn = detail.rpartition(" @")
            key = "backend-crash:%s@%s" % (re.sub(r"[^A-Za-z]+", "-", re.sub(r"\d+", "N", msg)).strip("-")[:60], fn)
            ctx.fail(key, "the Go back end crashed (Go panic: %s in %s) on a program the checker accepts and the VM runs" % (msg, fn),
                     stream=NATIVE, case=case, impl=detail, model="compiles",
                     oracle="for every accepted program the generated Go source compiles")
            continue
        if status == "bad_go":
            st["mismatches"] += 1
            ctx.fail("native-compile-error:gofmt", "generated Go source does not parse: %s" % detail, stream=NATIVE, case=case,
                     impl=detail, model="compiles", oracle="for every accepted program the generated Go source compiles")
            continue
        if cid in bad:
            st["mismatches"] += 1
            msg = re.sub(r"\b[a-z]+\d+\b", "ID", bad[cid])[:70]
            ctx.fail("native-compile-error:" + re.sub(r"[^A-Za-z]+", "-", msg).strip("-"),
                     "generated Go source does not compile: %s" % bad[cid], stream=NATIVE, case=case, impl=bad[cid],
                     model="compiles", oracle="for every accepted program the generated Go source compiles")
            continue
        no = native.get(cid)
        if no is None:
            continue        # batch build broke (already reported)
        if mo is None:
            st["model_skipped"] += 1      # FUEL / STUCK / model failure: generator problem, not a verdict
            if exp.get(cid, "").startswith(("STUCK", "model-failure")):
                ctx.broke("correspondence %s: reference interpreter gave %s (ill-typed generated program?)" % (NATIVE, exp.get(cid)), case)
            continue
        st["executed"] += 1
        if cid.startswith("k"):
            st["corpus_executed"] += 1
        if p.get("classes"):
            st["class_programs_executed"] += 1
        st["dynamic_call_sites"] += em[cid][1] if isinstance(em[cid][1], int) else 0
        st["distinct"].add(inputs[cid])
        st["lines_compared"] += len(mo["lines"])
        if mo["err"]:
            st["errors_expected"] += 1
        fk = "for-range-value" if has_range_value_loop(p) else "bool-inspect" if has_bool_inspect(p) else feature_key(p)
        if vo["kind"] != "run" or obs_diff(vo, mo):
            # A corrupted call site of the bytecode VM (known finding) reads an arbitrary value as the method: what
            # happens next (panic message, nil dereference, wrong interface conversion, an Elk-level error) varies from
            # run to run.  Re-run up to 3 times; when any run shows the signature, report the canonical class once.
            seen = [vo]
            while len(seen) < 4 and not any(invalid_call_site(o["stderr"]) for o in seen):
                seen.append(run_vm(cid))
            sig = next((o for o in seen if invalid_call_site(o["stderr"])), None)
            if sig is not None:
                st["mismatches"] += 1
                ctx.fail("vm-crash:invalid-call-site", "bytecode VM died on a program the native binary and the reference "
                         "interpreter run alike; stderr: %s" % (sig["stderr"].strip().splitlines() or [""])[0][:200],
                         stream=NATIVE, case=case, impl=sig["stderr"][-600:], model=exp[cid][:300],
                         oracle="same stdout, uncaught-error report and exit status as the VM / the reference interpreter")
                vo = dict(vo, kind="known-vm-crash")
        for name, o in (("vm", vo), ("native", no)):
            if o["kind"] == "known-vm-crash":
                continue
            if o["kind"] != "run":
                st["mismatches"] += 1
                key = "%s-%s:%s" % (name, o["kind"].replace("_", "-"), panic_key(o) if o["kind"] != "timeout" else "timeout")
                ctx.fail(key, "%s back end died (%s) on a program the reference interpreter runs to %s; stderr: %s" % (
                    name, o["kind"], "an uncaught %s" % mo["err"][0] if mo["err"] else "completion",
                    o["stderr"].strip().splitlines()[0][:200] if o["stderr"].strip() else ""),
                    stream=NATIVE, case=case, impl=o["stderr"][-600:], model=exp[cid][:300],
                    oracle="same stdout, uncaught-error report and exit status as the VM / the reference interpreter")
        if vo["kind"] == "run":
            st["vm_s"] += 1
            d = obs_diff(vo, mo)
            if d:
                st["mismatches"] += 1
                ctx.fail("vm-vs-S:%s" % d[0], "bytecode VM differs from the reference interpreter: %s" % d[1], stream=NATIVE,
                         case=case, impl="\n".join(vo["lines"])[-400:], model=exp[cid][-400:], oracle="VM agrees with Sref")
        if no["kind"] == "run":
            st["native_s"] += 1
            d = obs_diff(no, mo)
            if d:
                st["mismatches"] += 1
                ctx.fail("native-vs-S:%s:%s" % (d[0], fk), "native binary differs from the reference interpreter: %s" % d[1], stream=NATIVE,
                         case=case, impl="\n".join(no["lines"])[-400:], model=exp[cid][-400:], oracle="native back end agrees with Sref")
        if no["kind"] == "run" and vo["kind"] == "run":
            st["native_vm"] += 1
            d = obs_diff(no, vo)
            if d:
                st["mismatches"] += 1
                ctx.fail("native-vs-vm:%s:%s" % (d[0], fk), "native binary and bytecode VM differ: %s" % d[1], stream=NATIVE,
                         case=case, impl="\n".join(no["lines"])[-400:], model="\n".join(vo["lines"])[-400:],
                         oracle="same standard output, uncaught-error report and success/failure status on both back ends")
    return st


def helpers_key(inp, obs, exp):
    f = inp.split()
    cls = "%s:%s%s" % (f[0], f[1], f[3]) if len(f) == 5 else "bad"
    if " VMDIFF " in obs:
        return "helper-vs-vmop:" + cls
    if obs.endswith(" MUT"):
        return "helper-mutates-operand:" + cls
    return "helper-vs-model:" + cls


def run(ctx):
    ctx.explanation = (
        "PARTIAL by nature. Proved in Coq (closed, no axioms): (1) the Int runtime helpers the generated Go code calls "
        "(value.AddInts/SubtractInts/MultiplyInts/DivideInts/ModuloInts, modelled function by function from value/value.go, "
        "small_int.go, big_int.go) return for ALL canonical operands exactly the value - representation included - that the VM's "
        "typed Int operations return (C06's impl), which is the canonical representation of the exact result, with "
        "ZeroDivisionError iff the divisor is 0 and never a Go panic; the comparison helpers decide the integer order; one "
        "arithmetic step of the reference interpreter Sref equals the helper's result. (2) Sref (fuel interpreter for Int "
        "arithmetic, comparisons, Bool connectives, String concatenation, inspect, locals, if/while/return, method calls incl. "
        "recursion, println) is fuel-independent once it terminates; obs_equiv (same stdout lines, same uncaught-error class + "
        "message, same zero/non-zero status) is an equivalence, so two back ends that each agree with Sref on p agree with each "
        "other. (3) Second generation of the fragment: Sref also covers user classes with single inheritance and method "
        "overriding, objects with one Int field, sends dispatched on the receiver's RUNTIME class, list literals, for-in loops, "
        "Symbol/Char/nil values and dynamic inspect; proved: an override always wins, a class without the method behaves like "
        "its superclass (well-formed class tables), a send runs exactly the method selected for the runtime class and Sref keeps "
        "no call-site state (C09_dispatch_own, C09_dispatch_inherited, C09_send_by_runtime_class). (4) Third generation: bounded "
        "Int range literals (`...`, `..<`, `<..`, `<.<`), range values in locals and for-in over them; proved: Sref iterates "
        "exactly the integers the bounds describe (start/end included or excluded per operator), each once, in increasing "
        "consecutive order, nothing when start > end (C09_range_elements_exact, C09_forin_range_elements). `break`/`continue` "
        "are NOT in the fragment (only `return` leaves a loop early). NOT proved: anything about "
        "compiler/go_compiler.go (17k lines), the bytecode compiler/VM or the native call path (Thread.CallMethodByNameWithCache, "
        "vm.LookupMethodInCache: the 3-entry inline cache of dynamically dispatched calls in generated Go is NOT modelled) - "
        "they are only compared with Sref and with each other on generated programs of this fragment (c09.native), where "
        "heterogeneous lists with runs of equal classes drive single call sites through mono-, poly- and megamorphic receiver "
        "histories; constructs outside the fragment (hash maps, closures, mutable fields, floats, pattern matching, do/catch, "
        "optional parameters, modules/mixins, std calls beyond println/inspect) are not exercised at all. Programs the back end "
        "rejects (checker diagnostics or an 'invalid expression node' panic of the Go compiler, e.g. `throw`) are counted "
        "and skipped.")
    ctx.trusted_base += [
        "math/big modelled as Z (Add/Sub/Mul/Quo/Rem/QuoRem/Cmp/IsInt64/Int64) - validated by c09.helpers, not proved",
        "Python generator/printer of the program fragment (checks/C09.py), s-expression parser of ocaml/C09/main.ml",
        "batched native build: each generated file is linked as package <id> with `package main`/`func main()` renamed (two "
        "tokens) so that ONE go build / one link serves all programs of a run (dispatch on argv[1]); one small program is "
        "also built unmodified (own module, main.go exactly as generated) and must behave identically",
        "Go toolchain (go build -tags native), the elk runtime packages linked into the native binary",
        "uncaught-error report parsed from stderr with the pattern `Error! Uncaught error <Class>: <message>`",
    ]
    ctx.run_proof_gate()
    # tags "native": the harness needs no hook file, and with the tag set of the native build every package of /repo is
    # compiled once for the harness, the elk binary and the native binaries (tags do not enter the cache key of a
    # package whose file list they do not change)
    h = vlib.build_harness("c09", tags="native")
    m = vlib.build_model_exact("C09")
    # ---- c09.helpers
    vlib.value_stream(ctx, HELPERS, h, m, ctx.n(4000, 400000), helpers_key,
                      "seeded operand pairs (boundary values around 2^k, random 1..200-bit integers, products/sums landing next "
                      "to +-2^63, near-equal pairs) x {add sub mul div mod gt ge lt le eq} through value.*Ints; observable = "
                      "result value + representation (S/B) or error class, operand immutability, and equality with the "
                      "SmallInt/BigInt .*Val methods the VM's typed opcodes call; non-trivial = distinct input",
                      corpus=os.path.join(vlib.ROOT, "corpus", "C09.helpers.txt"),
                      harness_args=["-mode", "helpers"], model_args=["helpers"])
    # ---- c09.native
    elk = vlib.build_elk()
    rng = ctx.rng(NATIVE)
    nprog = ctx.n(NQUICK, 450)
    corpus = load_corpus(os.path.join(vlib.ROOT, "corpus", "C09.native.txt"))
    cases, feats = [], {}
    for i in range(nprog):
        g = Gen(rng)
        p = fix_recursive_calls(g.program(with_classes=(i % 4 != 0)))
        for k, v in g.feat.items():
            feats[k] = feats.get(k, 0) + v
        cases.append(("g%d" % i, p))
    t0 = time.time()
    batch = 150
    st = None
    # one batch = one `go build` = one link; the corpus rides in the first batch (quick tier: the only one)
    for b in range(0, len(cases), batch):
        s = run_native_stream(ctx, h, m, elk, (corpus if b == 0 else []) + cases[b:b + batch], "gen%d" % b, 1 if b == 0 else 0)
        if st is None:
            st = s
        else:
            for k, v in s.items():
                if isinstance(v, (int, float)):
                    st[k] += v
                elif isinstance(v, set):
                    st[k] |= v
                else:
                    for kk, vv in v.items():
                        st[k][kk] = st[k].get(kk, 0) + vv
    skipped = st["rejected"] + st["backend_panic"]
    distribution = dict(programs=st["programs"], executed=st["executed"], rejected_by_backend=st["rejected"],
                        backend_panics=st["backend_panic"], skip_rate=round(skipped / max(1, st["programs"]), 4),
                        reject_reasons=st["reject_reasons"], model_out_of_fuel=st["model_skipped"],
                        expected_uncaught_errors=st["errors_expected"], stdout_lines_compared=st["lines_compared"],
                        compared_vm_S=st["vm_s"], compared_native_S=st["native_s"], compared_native_vm=st["native_vm"],
                        unmodified_builds_checked=st["plain_checked"], mismatches=st["mismatches"], features=feats,
                        corpus_programs=st["corpus_programs"], corpus_executed=st["corpus_executed"],
                        class_programs_executed=st["class_programs_executed"],
                        dynamic_call_sites_in_generated_go=st["dynamic_call_sites"],
                        go_build_s=round(st["build_s"], 1), native_wall_s=round(time.time() - t0, 1))
    samples = [{"program": elk_program(p)[:900]} for _, p in cases[:3]]
    ctx.stream(NATIVE, st["executed"], len(st["distinct"]),
               "seeded well-typed programs: 0-4 methods (Int/Bool/String parameters, typed locals, calls along a random "
               "acyclic order incl. forward references, optional bounded self-recursion), statements set/println/if/while/"
               "return/call, Int literals around 2^31, 2^53, 2^62..2^70, division and modulo with occasional zero divisors "
               "(uncaught ZeroDivisionError), short-circuit && ||, String concatenation, Int#inspect (Bool#inspect in 1/8 of the "
               "programs); 3 of 4 programs also have a class hierarchy K0 + 4..6 subclasses (single inheritance of depth >= 1, "
               "1-3 method names, each overridden in ~60% of the subclasses, field @k, self sends), object / union-typed "
               "(Int | String | Symbol | Char | Bool | nil) locals and parameters, List[K0] and List[<union>] literals of 4-14 "
               "elements with runs of equal classes, for-in loops (nested in while loops and methods) whose bodies send an "
               "overridden method to / inspect the element, so that the dynamically dispatched call sites of the generated Go "
               "(CallMethodByNameWithCache) see 1..7 receiver classes in many orders; every scope also has for-in loops over range "
               "LITERALS with each of the four bounded operators (literal bounds, (var % m) +- k bounds, bounds held in a local; "
               "empty / one-element / negative / start > end ranges) and over range values held in ClosedRange/RightOpenRange/"
               "LeftOpenRange/OpenRange[Int] locals, bodies printing and accumulating the element, one distinct loop variable "
               "per loop, nested in while loops and in methods with `return`; evaluation = one program run on BOTH "
               "back ends and compared with Sref and with each other (stdout lines, uncaught error class+message, zero/non-zero "
               "status); non-trivial = distinct executed program; rejected / back-end-panicking programs are skipped and "
               "counted (skip_rate)",
               samples, distribution)
    if st["programs"] and (skipped + st["model_skipped"]) * 2 > st["programs"]:
        ctx.broke("correspondence %s: more than half of the programs were not executed (%d rejected, %d back-end panics, %d model skips of %d)"
                  % (NATIVE, st["rejected"], st["backend_panic"], st["model_skipped"], st["programs"]))
