"""C15 — generators and async functions preserve the semantics of their body.

Stream c15.wrap: seeded function bodies (locals initialised from helper calls, arithmetic, if/while, yields,
early return, throw, nested helper calls, bumps of a local through a closure) are printed as ONE Elk program
holding the body in three wrappings
    pf  plain method          (a yield is printed by `emit`, the result / error by the caller)
    gf  generator `def *gf`   driven by `for x in gf(..)` (section F) and by explicit `.next` calls (section G)
    af  `async def af`        awaited from the main thread (section A, AWAIT_SYNC) and from another async
                              function on a pool thread inside do/catch (section B, AWAIT + suspension);
                              helper calls marked `ha` are `await ah<k>(..)` inside af (suspension points)
and run with ELK_DEFAULT_THREAD_POOL_SIZE in {1,2,4}.  Expected output of every section comes from the
extracted Coq model (ocaml/C15): reference interpreter S for P/A/B, the resumable machine for F/G.

Second pass (depth sweep): every run also gets an ELK_INIT_VALUE_STACK_SIZE from a lattice and two more sections
    D   the generator is resumed from the bottom of a recursion, at value-stack depths that sweep from 0 past the
        first two growth thresholds of that stack size (70 % of the capacity, then of the doubled capacity) in
        strides of a few frames; the bottom frame holds padding locals, so that the `next` (phase "N": explicit
        next calls, the first j of them at depth 0 so that the resume that meets the threshold is the j-th one;
        phase "F": for-in over a generator passed down the recursion) is the operation that crosses the threshold
    M   an async twin `am` of the body whose awaited helper promises are created first and held in locals
        (`p := ah1(..)` ... `h0(x, await p)`: operands on the stack at the await) is awaited many times in a row,
        so that the pool workers are suspended/resumed at ever higher levels of their own value stack
Both are compared line by line with the same extracted model results (the model has no notion of depth: the
mechanism theorem C15_resume_after_grow says depth and reallocation must not matter).

Python-level case = s-expression  (fn NP (INIT...) BODY FINAL (ARGS...) ...):
  expr  (c n) | (v i) | (+ a b) | (- a b) | (* a b) | (h k a b) | (ha k a b)
  cond  (lt a b) | (le a b) | (eq a b) | (not c) | (and c d) | (or c d)
  stmt  skip | (set x e) | (bump x e) | (seq s...) | (if c s s) | (while c s) | (yield e) | (ret e) | (throw t)
"""
import os
import re
import vlib

STREAM = "c15.wrap"
POOLS = ["1", "2", "4"]

# ------------------------------------------------------------------ s-expressions


def sx_parse(s):
    toks = re.findall(r"\(|\)|[^\s()]+", s)
    pos = [0]

    def item():
        t = toks[pos[0]]
        pos[0] += 1
        if t == "(":
            acc = []
            while toks[pos[0]] != ")":
                acc.append(item())
            pos[0] += 1
            return acc
        return t
    return item()


def sx_str(x):
    if isinstance(x, str):
        return x
    return "(" + " ".join(sx_str(y) for y in x) + ")"


# ------------------------------------------------------------------ the fixed prelude

PRELUDE = '''def h0(a: Int, b: Int): Int
  a + 1
end
def h1(a: Int, b: Int): Int
  c := h0(a, 0)
  c + b
end
def h2(a: Int, b: Int): Int ! String
  t := h0(a, b)
  if a < 0
    throw "t0"
  end
  t - 1
end
def h3(a: Int, b: Int): Int
  t := h1(a, a)
  t - 1 - b
end
async def ah0(a: Int, b: Int): Int
  a + 1
end
async def ah1(a: Int, b: Int): Int
  c := await ah0(a, 0)
  c + b
end
async def ah2(a: Int, b: Int): Int ! String
  t := h0(a, b)
  if a < 0
    throw "t0"
  end
  t - 1
end
async def ah3(a: Int, b: Int): Int
  t := await ah1(a, a)
  t - 1 - b
end
def emit(v: Int)
  println("Y " + v.inspect)
end
def nx(g: Generator[Int, String]): String
  do
    t := g.next
    "V " + t.inspect
  catch :stop_iteration
    "S"
  catch String() as e
    "E " + e
  end
end
'''

PAD = 26           # padding locals of the bottom frames of the depth sweep (slots between the last growth check and the resume)
FRAME = 3          # value-stack slots per recursion level of rg / rf (self, d, g)
VALUE_SIZE = 24    # bytes per value-stack slot (value.ValueSize); MIN_INIT_VALUE_STACK_SIZE = 256 slots
DEFAULT_INIT = 24000
# ELK_INIT_VALUE_STACK_SIZE lattice (None = variable unset); cf. checks/C10.py
SIZE_LATTICE = ["1", "6400", "6800", "7200", "9000", "12000", None]

_pads = "\n".join("  q%d := 0" % i for i in range(PAD))
# the catch clauses run at depth 0 only: a catch clause that runs while the value stack is more than half full
# wrote outside the stack before fixes/C15-pop-skip-one-out-of-bounds.patch (key generator-next-at-depth:catch-clause-above-half-stack)
PRELUDE_DEPTH = '''def nb(g: Generator[Int, String]): Int ! String | :stop_iteration
%s
  try g.next
end
def rg(d: Int, g: Generator[Int, String]): Int ! String | :stop_iteration
  if d <= 0
    return try nb(g)
  end
  try rg(d - 1, g)
end
def nxd(d: Int, g: Generator[Int, String]): String
  do
    t := rg(d, g)
    "V " + t.inspect
  catch :stop_iteration
    "S"
  catch String() as e
    "E " + e
  end
end
def cfb(g: Generator[Int, String]): String ! String
%s
  s := ""
  for x in g
    s = s + "V " + x.inspect + "|"
  end
  s + "END"
end
def rf(d: Int, g: Generator[Int, String]): String ! String
  if d <= 0
    return try cfb(g)
  end
  try rf(d - 1, g)
end
def fd(d: Int, g: Generator[Int, String]): String
  do
    rf(d, g)
  catch String() as e
    "E " + e
  end
end
''' % (_pads, _pads)

# ------------------------------------------------------------------ printing to Elk


def has_node(x, names):
    if isinstance(x, str):
        return x in names
    if x and isinstance(x[0], str) and x[0] in names:
        return True
    return any(has_node(y, names) for y in x if not isinstance(y, str))


def bumped_vars(s, acc=None):
    acc = [] if acc is None else acc
    if isinstance(s, str):
        return acc
    if s[0] == "bump":
        if s[1] not in acc:
            acc.append(s[1])
    elif s[0] in ("seq", "if", "while"):
        for y in s[1:]:
            bumped_vars(y, acc)
    return acc


def can_throw(fn):
    def go(x):
        if isinstance(x, str):
            return False
        if x and x[0] == "throw":
            return True
        if x and x[0] in ("h", "ha") and x[1] == "2":
            return True
        return any(go(y) for y in x if not isinstance(y, str))
    return go(fn[2]) or go(fn[3]) or go(fn[4])


class Printer:
    """mode: 'P' plain, 'G' generator, 'A' async, 'M' async with the awaited helper promises created first and
    held in locals (awaited with the other operands of the expression already on the stack).
    closures: print bumps through closures"""

    def __init__(self, mode, closures):
        self.mode = mode
        self.closures = closures
        self.pre = None       # mode M: promise creations to print before the current statement
        self.npromise = 0

    def hoisted(self, pad, out, f):
        """print the statement f() builds; in mode M its awaited helper calls become promise locals first"""
        if self.mode != "M":
            out.append(pad + f())
            return
        self.pre = []
        line = f()
        out.extend(pad + l for l in self.pre)
        self.pre = None
        out.append(pad + line)

    def expr(self, e):
        k = e[0]
        if k == "c":
            return "(%s)" % e[1] if e[1].startswith("-") else e[1]
        if k == "v":
            return "x" + e[1]
        if k in ("+", "-", "*"):
            return "(%s %s %s)" % (self.expr(e[1]), k, self.expr(e[2]))
        if k in ("h", "ha"):
            if k == "ha" and self.mode in ("A", "M"):
                a, b = self.expr(e[2]), self.expr(e[3])
                if self.pre is not None:
                    self.npromise += 1
                    self.pre.append("p%d := ah%s(%s, %s)" % (self.npromise, e[1], a, b))
                    return "(await p%d)" % self.npromise
                return "(await ah%s(%s, %s))" % (e[1], a, b)
            return "h%s(%s, %s)" % (e[1], self.expr(e[2]), self.expr(e[3]))
        raise ValueError(e)

    def cond(self, c):
        k = c[0]
        if k in ("lt", "le", "eq"):
            return "(%s %s %s)" % (self.expr(c[1]), {"lt": "<", "le": "<=", "eq": "=="}[k], self.expr(c[2]))
        if k == "not":
            return "(!%s)" % self.cond(c[1])
        if k in ("and", "or"):
            return "(%s %s %s)" % (self.cond(c[1]), "&&" if k == "and" else "||", self.cond(c[2]))
        raise ValueError(c)

    def stmt(self, s, ind, out):
        pad = "  " * ind
        if s == "skip":
            out.append(pad + "nil")
            return
        k = s[0]
        if k == "set":
            self.hoisted(pad, out, lambda: "x%s = %s" % (s[1], self.expr(s[2])))
        elif k == "bump":
            if self.closures:
                self.hoisted(pad, out, lambda: "b%s.(%s)" % (s[1], self.expr(s[2])))
            else:
                self.hoisted(pad, out, lambda: "x%s = (x%s + %s)" % (s[1], s[1], self.expr(s[2])))
        elif k == "seq":
            if len(s) == 1:
                out.append(pad + "nil")
            for y in s[1:]:
                self.stmt(y, ind, out)
        elif k == "if":
            out.append("%sif %s" % (pad, self.cond(s[1])))
            self.stmt(s[2], ind + 1, out)
            if s[3] != "skip":
                out.append(pad + "else")
                self.stmt(s[3], ind + 1, out)
            out.append(pad + "end")
        elif k == "while":
            out.append("%swhile %s" % (pad, self.cond(s[1])))
            self.stmt(s[2], ind + 1, out)
            out.append(pad + "end")
        elif k == "yield":
            if self.mode == "G":
                out.append("%syield %s" % (pad, self.expr(s[1])))
            else:
                self.hoisted(pad, out, lambda: "emit(%s)" % self.expr(s[1]))
        elif k == "ret":
            self.hoisted(pad, out, lambda: "return %s" % self.expr(s[1]))
        elif k == "throw":
            out.append('%sthrow "t%s"' % (pad, s[1]))
        else:
            raise ValueError(s)

    def func(self, fn):
        np_, inits, body, final = int(fn[1]), fn[2], fn[3], fn[4]
        name = {"P": "def pf", "G": "def *gf", "A": "async def af", "M": "async def am"}[self.mode]
        params = ", ".join("x%d: Int" % i for i in range(np_))
        # a body that cannot throw is declared without a throw type (this changes how the checker marks tail calls)
        out = ["%s(%s): Int%s" % (name, params, " ! String" if can_throw(fn) else "")]
        bv = bumped_vars(body) if self.closures else []
        for i, e in enumerate(inits):
            x = str(np_ + i)
            self.hoisted("  ", out, lambda: "x%s := %s" % (x, self.expr(e)))
            if x in bv:
                out.append("  b%s := |d: Int| -> x%s = x%s + d" % (x, x, x))
        self.stmt(body, 1, out)
        self.hoisted("  ", out, lambda: self.expr(final))
        out.append("end")
        return "\n".join(out) + "\n"


def slots_of(size):
    """capacity (slots) of a fresh value stack for a value of ELK_INIT_VALUE_STACK_SIZE (vm/vm.go init)"""
    return max(256, int(DEFAULT_INIT if size is None else size) // VALUE_SIZE)


def sweep_plan(cfg):
    """[(phase, lo, hi, stride)]: phase 1 crosses 70 % of the initial capacity, phase 2 70 % of the doubled one"""
    slots, st = slots_of(cfg["size"]), cfg["stride"]
    d1 = -(-7 * slots // (10 * FRAME)) + 2 * st
    d2 = -(-14 * slots // (10 * FRAME)) + 2 * st
    d1 -= d1 % st
    second = "F" if cfg["first"] == "N" else "N"
    return [(cfg["first"], 0, d1, st), (second, d1 + st, d2, st)]


def program(fn, nnext, gen_closures, cfg=None):
    """nnext[i] = number of `next` calls for argument tuple i; cfg: size / stride / first / many (sections D and M)"""
    np_ = int(fn[1])
    argsets = fn[5:]
    src = [PRELUDE, Printer("P", True).func(fn), Printer("G", gen_closures).func(fn), Printer("A", True).func(fn)]
    if cfg is not None:
        src += [Printer("M", True).func(fn), PRELUDE_DEPTH]
    params = ", ".join("x%d: Int" % i for i in range(np_))
    pnames = ", ".join("x%d" % i for i in range(np_))
    src.append('''async def drv(%s): String
  do
    r := await af(%s)
    "R " + r.inspect
  catch String() as e
    "E " + e
  end
end
def run_f(%s)
  n := 0
  do
    for x in gf(%s)
      println("Y " + x.inspect)
      n += 1
    end
    println("END " + n.inspect)
  catch String() as e
    println("E " + e + " " + n.inspect)
  end
end
def run_g(k: Int, %s)
  g := gf(%s)
  i := 0
  while i < k
    println(nx(g))
    i += 1
  end
  println("N " + i.inspect)
end
''' % (params, pnames, params, pnames, params, pnames))
    for i, a in enumerate(argsets):
        al = ", ".join(("(%s)" % v if v.startswith("-") else v) for v in a)
        src.append('println("# P %d")\ndo\n  r := pf(%s)\n  println("R " + r.inspect)\ncatch String() as e\n  println("E " + e)\nend\n' % (i, al))
    for i, a in enumerate(argsets):
        al = ", ".join(("(%s)" % v if v.startswith("-") else v) for v in a)
        src.append('println("# B %d")\nprintln(await drv(%s))\n' % (i, al))
        src.append('println("# F %d")\nrun_f(%s)\n' % (i, al))
        src.append('println("# G %d")\nrun_g(%d, %s)\n' % (i, nnext[i], al))
    for i, a in enumerate(argsets):
        al = ", ".join(("(%s)" % v if v.startswith("-") else v) for v in a)
        src.append('println("# A %d")\ndo\n  r := await af(%s)\n  println("R " + r.inspect)\ncatch String() as e\n  println("E " + e)\nend\n' % (i, al))
    if cfg is not None:
        src.append('''def sweep_n(lo: Int, hi: Int, st: Int, k: Int, %s)
  d := lo
  idx := 0
  while d <= hi
    g := gf(%s)
    s := ""
    j := idx %% (k + 1)
    i := 0
    while i < k
      dd := d
      if i < j
        dd = 0
      end
      s = s + nxd(dd, g) + "|"
      i += 1
    end
    println("D N " + d.inspect + " " + s)
    d += st
    idx += 1
  end
end
def sweep_f(lo: Int, hi: Int, st: Int, k: Int, %s)
  d := lo
  while d <= hi
    println("D F " + d.inspect + " " + fd(d, gf(%s)))
    d += st
  end
end
''' % (params, pnames, params, pnames))
        al0 = ", ".join(("(%s)" % v if v.startswith("-") else v) for v in argsets[0])
        src.append('println("# D 0")')
        for ph, lo, hi, st in sweep_plan(cfg):
            src.append("sweep_%s(%d, %d, %d, %d, %s)" % (ph.lower(), lo, hi, st, nnext[0], al0))
        src.append('println("# M 0")\nmi := 0\nwhile mi < %d' % cfg["many"])
        for a in argsets:
            al = ", ".join(("(%s)" % v if v.startswith("-") else v) for v in a)
            src.append('  do\n    r := await am(%s)\n    println("R " + r.inspect)\n  catch String() as e\n    println("E " + e)\n  end' % al)
        src.append('  mi += 1\nend\n')
    src.append('println("# DONE")\n')
    return "\n".join(src)


def depth_expected(cfg, secs, nargs):
    """expected lines of sections D and M from the model's G / F / P expectations"""
    g = secs[("G", 0)][:-1]
    f = secs[("F", 0)]
    fl = "E " + f[-1].split(" ")[1] if f[-1].startswith("E ") else "".join("V %s|" % l[2:] for l in f[:-1]) + "END"
    d = []
    for ph, lo, hi, st in sweep_plan(cfg):
        for depth in range(lo, hi + 1, st):
            d.append("D N %d %s" % (depth, "".join(t + "|" for t in g)) if ph == "N" else "D F %d %s" % (depth, fl))
    once = []
    for j in range(nargs):
        once += secs[("P", j)]
    return d, once * cfg["many"]


# ------------------------------------------------------------------ model input / expected sections


def strip_await(x):
    if isinstance(x, str):
        return x
    if x and x[0] == "ha":
        return ["h"] + [strip_await(y) for y in x[1:]]
    return [strip_await(y) for y in x]


def model_input(fn, args):
    np_, inits, body, final = int(fn[1]), fn[2], fn[3], fn[4]
    sets = [["set", str(np_ + i), e] for i, e in enumerate(inits)]
    return sx_str(strip_await(["fn", str(len(inits)), ["seq"] + sets + [body], final, list(args)]))


def expected_sections(mres):
    """model line -> dict section -> list of expected output lines; + number of next calls"""
    parts = dict(p.split("=", 1) for p in mres.split("|"))
    ys, out = parts["P"].split(";")
    ys = [y for y in ys.split(",") if y]

    def outline(o):
        return ("R " + o[1:]) if o[0] == "R" else ("E t" + o[1:])
    plain = ["Y " + y for y in ys] + [outline(out)]
    els, err = parts["F"].split(";")
    els = [y for y in els.split(",") if y]
    f = ["Y " + y for y in els] + (["END %d" % len(els)] if err == "-" else ["E t%s %d" % (err[1:], len(els))])
    g = []
    for tok in parts["G"].split(" "):
        g.append("S" if tok == "S" else ("E t" + tok[1:]) if tok[0] == "E" else "V " + tok[1:])
    g.append("N %d" % len(g))
    return {"P": plain, "A": plain, "B": plain, "F": f, "G": g}, len(g) - 1, parts


def split_sections(out):
    secs = {}
    cur = None
    done = False
    tail = []
    for line in out.splitlines():
        m = re.match(r"^# ([PFGBADM]) (\d+)$", line)
        if m:
            cur = (m.group(1), int(m.group(2)))
            secs[cur] = []
            continue
        if line == "# DONE":
            done = True
            cur = None
            continue
        if cur is not None:
            secs[cur].append(line)
        else:
            tail.append(line)
    return secs, done, tail


# ------------------------------------------------------------------ generator

class Gen:
    def __init__(self, rng, allow_ret_with_closure):
        self.r = rng
        self.allow_ret_with_closure = allow_ret_with_closure
        self.dist = {}

    def count(self, k, n=1):
        self.dist[k] = self.dist.get(k, 0) + n

    def expr(self, depth, nvars):
        c = self.r.below(12)
        if depth <= 0:
            c = self.r.below(5)
        if c < 2:
            return ["c", str(self.r.range(-3, 9))]
        if c < 5:
            return ["v", str(self.r.below(nvars))] if nvars > 0 else ["c", str(self.r.range(0, 5))]
        if c < 7:
            return [self.r.choice(["+", "-"]), self.expr(depth - 1, nvars), self.expr(depth - 1, nvars)]
        if c < 8:
            k = ["c", str(self.r.range(-2, 3))]
            e = self.expr(depth - 1, nvars)
            return ["*", e, k] if self.r.chance(1, 2) else ["*", k, e]
        self.count("call")
        h = self.r.below(4)
        if h == 2:
            self.count("call_may_throw")
        aw = self.r.chance(1, 2)
        if aw:
            self.count("awaited_call")
        return ["ha" if aw else "h", str(h), self.expr(depth - 1, nvars), self.expr(depth - 1, nvars)]

    def cond(self, depth, nvars):
        c = self.r.below(10)
        if depth <= 0 or c < 6:
            return [self.r.choice(["lt", "le", "eq", "lt"]), self.expr(1, nvars), self.expr(1, nvars)]
        if c < 7:
            return ["not", self.cond(depth - 1, nvars)]
        return [self.r.choice(["and", "or"]), self.cond(depth - 1, nvars), self.cond(depth - 1, nvars)]

    def block(self, depth, n, ctx):
        return ["seq"] + [self.stmt(depth, ctx) for _ in range(n)]

    def stmt(self, depth, ctx):
        """ctx: np, nvars, locals (assignable), busy (loop counters in use), closures, rets"""
        c = self.r.below(20)
        if depth <= 0 and c >= 12:
            c = self.r.below(12)
        free = [x for x in ctx["locals"] if x not in ctx["busy"]]
        if c < 4 and free:
            self.count("assign")
            return ["set", str(self.r.choice(free)), self.expr(2, ctx["nvars"])]
        if c < 6 and free and ctx["closures"]:
            self.count("bump")
            return ["bump", str(self.r.choice(free)), self.expr(1, ctx["nvars"])]
        if c < 11:
            self.count("yield")
            return ["yield", self.expr(2, ctx["nvars"])]
        if c < 12:
            return "skip"
        if c < 16:
            self.count("if")
            then = self.block(depth - 1, self.r.range(1, 2), ctx)
            x = self.r.below(8)
            if x == 0:
                self.count("throw")
                then.append(["throw", str(self.r.range(1, 3))])
            elif x == 1 and ctx["rets"]:
                self.count("return")
                then.append(["ret", self.expr(1, ctx["nvars"])])
            els = self.block(depth - 1, self.r.range(1, 2), ctx) if self.r.chance(1, 2) else "skip"
            return ["if", self.cond(1, ctx["nvars"]), then, els]
        if free:
            self.count("while")
            i = self.r.choice(free)
            ctx2 = dict(ctx, busy=ctx["busy"] + [i])
            body = self.block(depth - 1, self.r.range(1, 3), ctx2)
            body.append(["set", str(i), ["+", ["v", str(i)], ["c", "1"]]])
            return ["seq", ["set", str(i), ["c", "0"]],
                    ["while", ["lt", ["v", str(i)], ["c", str(self.r.range(1, 4))]], body]]
        self.count("yield")
        return ["yield", self.expr(2, ctx["nvars"])]

    def func(self):
        np_ = self.r.range(1, 2)
        nl = self.r.range(0, 4)
        inits = []
        for i in range(nl):
            c = self.r.below(4)
            if c == 0:
                inits.append(["c", str(self.r.range(0, 5))])
            else:
                # locals assigned from calls
                self.count("local_from_call")
                h = self.r.below(4)
                aw = self.r.chance(1, 2)
                inits.append(["ha" if aw else "h", str(h), self.expr(1, np_ + i), self.expr(1, np_ + i)])
        closures = self.r.chance(1, 3)
        rets = (not closures) or self.allow_ret_with_closure
        ctx = dict(np=np_, nvars=np_ + nl, locals=list(range(np_, np_ + nl)), busy=[], closures=closures, rets=rets)
        body = self.block(2, self.r.range(1, 5), ctx)
        if self.r.chance(1, 5):
            # no yields at all: the wrap_equiv shape
            body = drop_yields(body)
            self.count("fn_without_yield")
        final = self.expr(2, np_ + nl)
        if self.r.chance(1, 3):
            # a method call in tail position
            self.count("final_tail_call")
            final = ["ha" if self.r.chance(1, 2) else "h", str(self.r.below(4)), self.expr(1, np_ + nl), self.expr(1, np_ + nl)]
        nargs = self.r.range(2, 3)
        args = [[str(self.r.range(-3, 6)) for _ in range(np_)] for _ in range(nargs)]
        if bumped_vars(body):
            self.count("fn_with_closure")
        fn = ["fn", str(np_), inits, body, final]
        if not can_throw(fn):
            self.count("fn_without_throw_type")
        return ["fn", str(np_), inits, body, final] + args


def drop_yields(s):
    if isinstance(s, str):
        return s
    k = s[0]
    if k == "yield":
        return "skip"
    if k == "seq":
        return ["seq"] + [drop_yields(y) for y in s[1:]]
    if k == "if":
        return ["if", s[1], drop_yields(s[2]), drop_yields(s[3])]
    if k == "while":
        return ["while", s[1], drop_yields(s[2])]
    return s


# ------------------------------------------------------------------ running and comparing

SEC_NAME = {"P": "plain", "F": "generator-for-in", "G": "generator-next", "B": "await-on-pool-thread", "A": "await-on-main-thread",
            "D": "generator-resumed-at-depth", "M": "await-many-suspensions"}


def panic_class(out):
    if "tried to call an invalid method" in out or "neither bytecode nor native" in out:
        return "invalid-method"
    m = re.search(r"panic: ([^\n]{0,60})", out)
    if m:
        return re.sub(r"0x[0-9a-f]+|\d+", "N", m.group(1)).strip().replace(" ", "-")[:50]
    if "fatal error:" in out:
        m = re.search(r"fatal error: ([^\n]{0,50})", out)
        return "fatal-" + (m.group(1).strip().replace(" ", "-") if m else "unknown")
    return "unknown"


def final_is_call(fn):
    return fn[4][0] in ("h", "ha")


def yields_a_call(s):
    if isinstance(s, str):
        return False
    if s[0] == "yield":
        return s[1][0] in ("h", "ha")
    if s[0] in ("seq", "if", "while"):
        return any(yields_a_call(y) for y in s[1:])
    return False


def gen_tail_call_shape(fn):
    """the checker marks the operand of every yield and the last expression as tail position unless the
    method has a throw type"""
    return (not can_throw(fn)) and (final_is_call(fn) or yields_a_call(fn[3]))


def classify(fn, sec, exp, got, out_cls, out, prev_sec_had_error):
    """canonical class of the first disagreement of a program run"""
    name = SEC_NAME[sec]
    genlike = sec in ("F", "G")
    if sec in ("D", "M"):
        # the same body agreed with the model in the sections before: what differs is the stack level only
        if out_cls in ("go_panic", "go_fatal", "signal"):
            return name + ":crash"
        if got is None:
            return name + (":timeout" if out_cls == "timeout" else ":output-missing")
        return name + (":wrong-yield-sequence" if sec == "D" else ":wrong-result-or-error")
    if got is None:
        if out_cls in ("go_panic", "go_fatal", "signal"):
            if gen_tail_call_shape(fn):
                return "generator:yielded-method-call-compiled-as-tail-call:crash"
            return "crash:%s" % panic_class(out)
        if out_cls == "timeout":
            return "timeout"
        if prev_sec_had_error:
            return "await-on-main-thread:caught-rejection-ends-the-program"
        return "output:section-missing:" + name
    if sec == "B" and exp[-1].startswith("E ") and got and got[-1] == exp[-1][2:]:
        return "await-on-pool-thread:caught-rejection-resolves-with-the-error-value"
    if genlike and gen_tail_call_shape(fn):
        return "generator:yielded-method-call-compiled-as-tail-call:wrong-output"
    ey = [l for l in exp if l[0] in "YV"]
    gy = [l for l in got if l[0] in "YV"]
    if ey != gy:
        return name + ":wrong-yield-sequence"
    if genlike and [l for l in exp if l.startswith(("S", "END", "N"))] != [l for l in got if l.startswith(("S", "END", "N"))]:
        return name + ":wrong-stop-signal"
    return name + ":wrong-result-or-error"


def run_batch(ctx, elk, m, cases, tag, flags, st):
    """cases: list of (cid, fn). Runs every program under every pool size, compares every section."""
    ids, inputs = [], {}
    for cid, fn in cases:
        for j, a in enumerate(fn[5:]):
            i = "%s.%d" % (cid, j)
            ids.append(i)
            inputs[i] = model_input(fn, a)
    rc, exp, mout = vlib.run_model(m, ids, inputs)
    if rc != 0:
        ctx.broke("correspondence %s: model driver exited %d" % (STREAM, rc), mout[-2000:])
        return
    expected = {}
    progs = {}
    for cid, fn in cases:
        secs = {}
        nn = []
        ok = True
        for j, a in enumerate(fn[5:]):
            r = exp.get("%s.%d" % (cid, j))
            if r is None or r.startswith("bad-input") or r == "fuel" or "fuel" in r:
                ctx.broke("correspondence %s: model gave no answer for %s (%s)" % (STREAM, inputs["%s.%d" % (cid, j)], r))
                ok = False
                break
            e, n, parts = expected_sections(r)
            for s, lines in e.items():
                secs[(s, j)] = lines
            nn.append(n)
            st["yields"] += len([l for l in e["P"] if l.startswith("Y")])
            st["errors"] += 1 if e["P"][-1].startswith("E") else 0
            if parts["A"] != "-":
                st["noyield_cases"] += 1
        if ok:
            expected[cid] = secs
            progs[cid] = (fn, nn)

    def run_variant(which, closures_everywhere):
        """which: list of (cid, pool). returns {(cid, pool): (rc, out, cls)}"""
        res = {}
        for pool, size in sorted(set((p, cfgs[(c, p)]["size"]) for c, p in which), key=str):
            batch = []
            for cid, p in which:
                if p != pool or cfgs[(cid, p)]["size"] != size:
                    continue
                fn, nn = progs[cid]
                if closures_everywhere is None:
                    src = program(fn, nn, flags["closure_then_yield_ok"], cfgs[(cid, p)])
                else:
                    src = program_no_closures(fn, nn, cfgs[(cid, p)])
                batch.append((cid, src))
            if not batch:
                continue
            env = {"ELK_DEFAULT_THREAD_POOL_SIZE": pool, "GOMAXPROCS": "4"}
            if size is not None:
                env["ELK_INIT_VALUE_STACK_SIZE"] = size
            wd = os.path.join(ctx.workdir, "%s_p%s_s%s%s" % (tag, pool, size, "" if closures_everywhere is None else "_nc"))
            r = vlib.run_programs(elk, batch, wd, timeout=90, env=env)
            slow = [(cid, src) for cid, src in batch if r[cid][2] == "timeout"]
            if slow:
                r.update(vlib.run_programs(elk, slow, wd + "_slow", workers=2, timeout=400, env=env))
            for cid, v in r.items():
                res[(cid, pool)] = v
        return res

    # every (program, pool size) run gets a stack size, a stride and a phase order for sections D and M
    cfgs = {}
    crng = ctx.rng(STREAM + ".cfg." + tag)
    for cid in sorted(progs):
        fn, nn = progs[cid]
        for pool in POOLS:
            # pool size 1 always runs on the smallest stack: 179 suspensions lift its only worker over the threshold
            size = "1" if pool == "1" else crng.choice(SIZE_LATTICE)
            heavy = pool == "1"
            cfg = dict(size=size, stride=crng.choice([5, 8, 8, 11]), first=crng.choice(["N", "F"]),
                       many=(max(8, min(220, 440 // (1 + static_awaits(fn)))) if heavy else 6))
            cfgs[(cid, pool)] = cfg
            d, mexp = depth_expected(cfg, expected[cid], len(fn) - 5)
            expected[cid][("D", 0, pool)] = d
            expected[cid][("M", 0, pool)] = mexp
            st["configs"][str(size)] = st["configs"].get(str(size), 0) + 1
    allruns = [(cid, pool) for cid in progs for pool in POOLS]
    res = run_variant(allruns, None)
    st["program_runs"] += len(res)
    failed = []
    for (cid, pool), (rc_, out, cls) in sorted(res.items()):
        fn, nn = progs[cid]
        if "[FAIL]" in out and not re.search(r"^# P 0$", out, re.M):
            st["rejected"] += 1
            mm = re.search(r"\[FAIL\] ([^\n]*)", out)
            why = re.sub(r"`[^`]*`", "`..`", mm.group(1))[:80] if mm else "?"
            st["reject_reasons"][why] = st["reject_reasons"].get(why, 0) + 1
            continue
        bad = compare(fn, expected[cid], out, cls, st, pool)
        if bad:
            failed.append((cid, pool, bad, out, cls))
    # a mismatch of a function that bumps a local through a closure: does it go away when the very same
    # body updates the local directly?  Then (and only then) it is the closure-capture finding.
    retry = [(cid, pool) for cid, pool, bad, out, cls in failed if bumped_vars(progs[cid][0][3]) and bad[0] in "ABFG" and cls not in ("go_panic", "go_fatal", "signal", "timeout")]
    res2 = run_variant(retry, False) if retry else {}
    st["program_runs"] += len(res2)
    for cid, pool, bad, out, cls in failed:
        fn, nn = progs[cid]
        sec, j, e, g, prev_err = bad
        key = classify(fn, sec, e, g, cls, out, prev_err)
        if (cid, pool) in res2:
            rc2, out2, cls2 = res2[(cid, pool)]
            dummy = dict(st, sections=0, distinct=set(), sec_counts={})
            bad2 = compare(fn, expected[cid], out2, cls2, dummy, pool)
            if bad2 is None or sec_rank(fn, bad2[0], bad2[1]) > sec_rank(fn, sec, j):
                key = "suspend:closure-captured-local-diverges"     # this section agrees once the closure is gone
        st["mismatches"] += 1
        case = sx_str(fn[:5] + [fn[5 + j]])
        cfg = cfgs[(cid, pool)]
        where = "pool size %s, ELK_INIT_VALUE_STACK_SIZE %s" % (pool, cfg["size"] or "unset")
        if sec in ("D", "M"):
            # long sections: report the first line that differs
            case = sx_str(fn[:5] + (fn[5:] if sec == "M" else [fn[5]]))
            gl = g if g is not None else split_sections(out)[0].get((sec, 0), [])
            k = next((i for i in range(min(len(gl), len(e))) if gl[i] != e[i]), min(len(gl), len(e)))
            g = (gl[max(0, k - 1):k + 1] + (["<%s: %s>" % (cls, panic_class(out))] if cls != "ok" else [])) or ["<nothing>"]
            e = e[max(0, k - 1):k + 1]
            where += (", line %d of the section (stride %d frames of %d slots, %d padding locals, phase order %s first)"
                      % (k, cfg["stride"], FRAME, PAD, cfg["first"])) if sec == "D" else ", line %d of %d awaits in a row" % (k, cfg["many"])
        ctx.fail(key, "%s section of %s, %s: implementation printed %s, model expects %s" % (
            SEC_NAME[sec], case, where, g if g is not None else "<nothing: %s>" % cls, e),
            stream=STREAM, case=case + " ; " + where, impl="\n".join(g) if g is not None else cls + ": " + out[-400:],
            model="\n".join(e), oracle="the three wrappings must print what the proved reference semantics prints (%s)" % where)


def sec_rank(fn, sec, j):
    """position of a section in the program's output"""
    nargs = len(fn) - 5
    order = [("P", i) for i in range(nargs)]
    for i in range(nargs):
        order += [("B", i), ("F", i), ("G", i)]
    order += [("A", i) for i in range(nargs)] + [("D", 0), ("M", 0)]
    return order.index((sec, j))


def program_no_closures(fn, nn, cfg=None):
    np_ = int(fn[1])
    src = program(fn, nn, False, cfg)
    # replace the plain and async functions by closure-free prints
    for mode in ("P", "A", "M"):
        src = src.replace(Printer(mode, True).func(fn), Printer(mode, False).func(fn))
    return src


def static_awaits(fn):
    """awaited helper calls in the text of the body (each is at least one suspension when it runs)"""
    def go(x):
        if isinstance(x, str):
            return 0
        return (1 if x and x[0] == "ha" else 0) + sum(go(y) for y in x if not isinstance(y, str))
    return go(fn[2]) + go(fn[3]) + go(fn[4])


def compare(fn, expsecs, out, cls, st, pool):
    """returns None when every section agrees, else (sec, argidx, expected, got|None, silent_exit_after_caught_rejection)"""
    secs, done, tail = split_sections(out)
    nargs = len(fn) - 5
    order = [("P", j) for j in range(nargs)]
    for j in range(nargs):
        order += [("B", j), ("F", j), ("G", j)]
    order += [("A", j) for j in range(nargs)]
    if ("D", 0, pool) in expsecs:
        order += [("D", 0), ("M", 0)]
    for idx, (s, j) in enumerate(order):
        e = expsecs[(s, j, pool)] if s in "DM" else expsecs[(s, j)]
        g = secs.get((s, j))
        later = done or any(k in secs for k in order[idx + 1:])
        if g is None:
            return (s, j, e, None, False)
        if g != e:
            if s == "A" and not later and e[-1].startswith("E ") and g == e[:-1] and cls == "ok":
                return (s, j, e, None, True)
            if not later and g == e[:len(g)] and cls != "ok":
                return (s, j, e, None, False)       # the run died inside this section
            return (s, j, e, g, False)
        st["sections"] += 1
        st["sec_counts"][s] = st["sec_counts"].get(s, 0) + 1
        st["distinct"].add((sx_str(fn[:5]), tuple(fn[5 + j])))
        if s == "D":
            st["depth_lines"] += len(e)
        if s == "M":
            st["many_awaits"] += len([l for l in e if l[0] in "RE"])
        # second oracle, on the implementation's own output: the generator sections must show the
        # same elements as the plain run of the same binary (yields, then the result)
        if s in ("F", "G") and ("P", j) in secs:
            p = secs[("P", j)]
            pel = [l[2:] for l in p if l.startswith("Y ")] + ([p[-1][2:]] if p and p[-1].startswith("R ") else [])
            gel = [l[2:] for l in g if l.startswith(("Y ", "V "))]
            if pel != gel:
                return (s, j, e, g, False)
    if not done:
        return ("A", nargs - 1, expsecs[("A", nargs - 1)] + ["# DONE"], secs.get(("A", nargs - 1)), False)
    return None


def probe(elk, workdir):
    """does the checker accept `yield` / `return e` after a closure literal? (C12's finding when not)"""
    y = 'def *g(a: Int): Int\n  c := a\n  f := |d: Int| -> c = c + d\n  yield c\n  c\nend\nfor x in g(1)\n  println(x.inspect)\nend\n'
    r = 'def g(a: Int): Int\n  c := a\n  f := |d: Int| -> c = c + d\n  if a < 0\n    return 0\n  end\n  c\nend\nprintln(g(1).inspect)\n'
    res = vlib.run_programs(elk, [("probe_y", y), ("probe_r", r)], os.path.join(workdir, "probe"), timeout=120)
    return dict(closure_then_yield_ok="[FAIL]" not in res["probe_y"][1] and res["probe_y"][0] == 0,
                closure_then_return_ok="[FAIL]" not in res["probe_r"][1] and res["probe_r"][0] == 0)


CATCH_KEY = "generator-next-at-depth:catch-clause-above-half-stack"


def catch_at_depth(ctx, elk):
    """`g.next` inside do/catch :stop_iteration (the prelude's nx) at EVERY depth below the growth threshold of the
    stack, for four stack sizes: the catch clause itself runs deep.  (Sections D keep their catch clauses at depth 0, so
    that this finding does not mask what they look for.)  Also replays the minimised witness of the corpus.
    (Before fixes/C15-pop-skip-one-out-of-bounds.patch the clause wrote beyond the stack once sp > capacity / 2.)"""
    tmpl = PRELUDE + '''def *g1(x0: Int): Int ! String
  yield x0
  if x0 < 0
    throw "t1"
  end
  x0 + 1
end
def rn(d: Int, g: Generator[Int, String]): String ! String
  if d <= 0
    return nx(g)
  end
  rn(d - 1, g)
end
def at(d: Int, x0: Int): String
  g := g1(x0)
  a := try rn(d, g)
  b := try rn(d, g)
  c := try rn(d, g)
  a + "|" + b + "|" + c
end
d := 0
while d <= %d
  println("D " + d.inspect + " " + at(d, 3) + " " + at(d, -1))
  d += 1
end
println("# DONE")
'''
    wit = open(os.path.join(vlib.ROOT, "corpus", "C15.catchdepth.elk")).read()
    wexp = ["D %d E boom" % d for d in range(117)] + ["# DONE"]
    n = 0
    for size in (None, "36000", "48000", "96000"):
        cap = slots_of(size)
        top = 7 * cap // (10 * FRAME)
        exp = ["D %d V 3|V 4|S V -1|E t1|S" % d for d in range(top + 1)] + ["# DONE"]
        progs = [("catchdepth", tmpl % top, exp)] + ([("catchdepth_witness", wit, wexp)] if size is None else [])
        env = {"GOMAXPROCS": "4"}
        if size is not None:
            env["ELK_INIT_VALUE_STACK_SIZE"] = size
        res = vlib.run_programs(elk, [(a, b) for a, b, _ in progs], os.path.join(ctx.workdir, "catchdepth_s%s" % size), timeout=120, env=env)
        for name, _, e in progs:
            rc, out, cls = res[name]
            got = [l for l in out.splitlines() if l.startswith(("D ", "# DONE"))]
            k = next((i for i in range(min(len(got), len(e))) if got[i] != e[i]), min(len(got), len(e)))
            n += k
            if got != e or cls != "ok":
                ctx.fail(CATCH_KEY, "%s: do/catch around a throw (`g.next` at the end of the iteration / a generator body's error / a "
                         "plain throw) at recursion depth %d, value stack of %d slots (ELK_INIT_VALUE_STACK_SIZE %s): printed %s (%s), expected %s"
                         % (name, k, cap, size or "unset", got[k:k + 1], cls if cls == "ok" else cls + ": " + panic_class(out), e[k:k + 1]),
                         stream=STREAM, case="corpus/C15.catchdepth.elk" if name.endswith("witness") else "catch_at_depth(): size %s depth %d" % (size, k),
                         impl="\n".join(got[max(0, k - 1):k + 1]) + "\n" + out[-300:], model="\n".join(e[max(0, k - 1):k + 1]),
                         oracle="a generator signals the end of iteration / its body's error at any depth of the caller")
    return n


def load_corpus(path):
    out = []
    if os.path.exists(path):
        for n, line in enumerate(open(path)):
            line = line.strip()
            if not line or line.startswith("#"):
                continue
            out.append(("k%d" % n, sx_parse(line)))
    return out


def new_stats():
    return dict(program_runs=0, sections=0, rejected=0, mismatches=0, yields=0, errors=0, noyield_cases=0,
                reject_reasons={}, distinct=set(), sec_counts={}, configs={}, depth_lines=0, many_awaits=0)


def run(ctx):
    ctx.explanation = (
        "Proved in Coq for ALL bodies of the embedded language (Model/C15_Gen.v: Int locals, arithmetic, helper calls that "
        "may throw, bumps through a closure, if/while, yield, return, throw), all arguments and all sufficient fuel: the "
        "resumable machine behind a generator's `next` yields exactly the yields of the big-step reference interpreter S in "
        "order, then delivers S's result or error, then signals stop forever (C15_yield_sequence, C15_error_then_stop, "
        "C15_forin_collects); for bodies without yields the generator and the awaited async wrapping produce S's value or "
        "error (C15_wrap_equiv); S is fuel-independent. Mechanism model (Model/C15_GenState.v, mirrors CallGeneratorNext / "
        "callBytecodePromise / restoreLastFrame): suspend then resume on any thread gives back the frame slice, ip, sp-fp and "
        "every local (C15_save_restore_id, C15_suspend_caller, C15_resume_suspend_id); with the value stack as an array of "
        "any capacity that may be reallocated by the resume itself (any growth policy, incl. the 70 % rule), pushing the "
        "saved frame at a destination computed after the growth gives exactly the list-level resume "
        "(C15_resume_after_grow, C15_resume_arr_refines; C15_resume_before_grow_refuted is the witness for a destination "
        "taken before the growth check - a class of defect, not the code of /repo, whose resume prologue has no growth "
        "check); the faithful model does NOT keep a "
        "captured local and its closure together across a suspension (C15_capture_coherent_refuted, witness; "
        "C15_capture_coherent_partial for frames without captured locals). C15_settle_once is the theorem of the C16 promise "
        "protocol model (every interleaving, every pool size). NOT proved: that the compiler/VM implement these models - "
        "that is compared by running real Elk programs (three wrappings of seeded bodies, pool sizes 1/2/4) against the "
        "extracted model. The async model treats an awaited helper promise as an atomic call: suspension inside an async "
        "body is covered by the mechanism theorems and the runs only. Settlement counts are not observable from Elk code "
        "and are not measured on the implementation. Interleavings are those the Go scheduler produces with pool sizes "
        "1, 2, 4; they are not enumerated. Stack depth / reallocation is tied to the implementation by runs only: sections D "
        "(generator resumed at the bottom of recursions whose depth sweeps past the first two growth thresholds of a lattice "
        "of ELK_INIT_VALUE_STACK_SIZE values) and M (many awaits in a row, pool size 1 on a 256-slot stack) must print what "
        "the depth-free model prints; growth itself is not observable from Elk code, the sweep is laid out (3-slot frames, "
        "26 padding locals under the resume, strides of 5/8/11 frames) so that a resume is the operation that crosses the "
        "threshold. catch_at_depth(): do/catch around `next` at every depth below the first threshold of the default stack "
        "(re-finds the fixed defect generator-next-at-depth:catch-clause-above-half-stack, an out-of-bounds write of POP_2_SKIP_ONE, fixes/C15-pop-skip-one-out-of-bounds.patch; "
        "implementation-level oracle only, the model has no catch clauses).")
    ctx.trusted_base += [
        "Python generator/printer of the three wrappings and the section parser (checks/C15.py); OCaml driver ocaml/C15/main.ml",
        "fixed Elk prelude (helpers h0..h3 and their async twins ah0..ah3) is assumed to implement Model.C15_Gen.helper",
        "Int values only (Elk Int = Z); thrown values are String tags",
        "C16 protocol model as the meaning of 'settles once' (not re-tied to the implementation here)",
    ]
    ctx.run_proof_gate()
    elk = os.environ.get("C15_ELK_BINARY") or vlib.build_elk()     # C15_ELK_BINARY: development only
    m = vlib.build_model("C15")
    flags = probe(elk, ctx.workdir)
    rng = ctx.rng(STREAM)
    corpus = load_corpus(os.path.join(vlib.ROOT, "corpus", "C15.wrap.txt"))
    nprog = ctx.n(24, 1200)
    g = Gen(rng, flags["closure_then_return_ok"])
    cases = [("g%d" % i, g.func()) for i in range(nprog)]
    st_c = new_stats()
    if corpus:
        run_batch(ctx, elk, m, corpus, "corpus", flags, st_c)
    catch_lines = catch_at_depth(ctx, elk)
    st = new_stats()
    chunk = 400
    for off in range(0, len(cases), chunk):
        run_batch(ctx, elk, m, cases[off:off + chunk], "gen%d" % (off // chunk), flags, st)
    samples = [{"case": sx_str(fn)} for _, fn in cases[:3]]
    distribution = dict(constructs=g.dist, functions=len(cases), program_runs=st["program_runs"], pool_sizes=POOLS,
                        sections_compared=st["sec_counts"], yields_expected=st["yields"], error_outcomes=st["errors"],
                        argument_tuples_without_yield=st["noyield_cases"], checker_rejected_runs=st["rejected"],
                        reject_reasons=st["reject_reasons"], mismatching_runs=st["mismatches"],
                        checker_accepts_yield_after_closure=flags["closure_then_yield_ok"],
                        checker_accepts_return_after_closure=flags["closure_then_return_ok"],
                        corpus_functions=len(corpus), corpus_runs=st_c["program_runs"], corpus_sections=st_c["sections"],
                        corpus_mismatching_runs=st_c["mismatches"],
                        init_value_stack_size_of_runs=dict((k, st["configs"].get(k, 0) + st_c["configs"].get(k, 0))
                                                           for k in set(st["configs"]) | set(st_c["configs"])),
                        catch_at_depth_lines_agreeing=catch_lines,
                        depth_sweep_lines_compared=st["depth_lines"] + st_c["depth_lines"],
                        awaits_in_a_row_compared=st["many_awaits"] + st_c["many_awaits"],
                        depth_sweep=dict(frame_slots=FRAME, padding_locals=PAD, strides=[5, 8, 11], size_lattice=[x or "unset" for x in SIZE_LATTICE]))
    ctx.stream(STREAM, st["sections"] + st_c["sections"], len(st["distinct"] | st_c["distinct"]),
               "seeded function bodies (1-2 Int parameters, 0-4 locals initialised mostly from helper calls, statements: "
               "assignment, bump of a local through a closure, yield, if (then-branch may end in throw/return), bounded while "
               "loops (nesting <= 2), helper calls h0..h3 (h2 throws on negative input; half of the calls are `await ah<k>` in "
               "the async wrapping), final expression (one third a method call in tail position); each function printed as plain "
               "method, generator and async function in one program with 2-3 argument tuples and sections P (plain call), "
               "B (await inside an async function with do/catch on a pool thread), F (for-in over the generator inside a "
               "method), G (len(yields)+4 explicit next calls), A (await on the main thread inside do/catch); every program run "
               "with ELK_DEFAULT_THREAD_POOL_SIZE = 1, 2, 4. evaluation = one section of one run compared line by line with the "
               "extracted model; non-trivial = distinct (function, arguments) executed. Every run also has "
               "ELK_INIT_VALUE_STACK_SIZE from a lattice (1 -> the 256-slot minimum for pool size 1; 1, 6400, 6800, 7200, 9000, "
               "12000 or unset otherwise) and two more sections: D = depth sweep, the generator (first argument tuple) is resumed "
               "at the bottom of a recursion of d frames of 3 slots below a frame of 26 padding locals, d running in strides of "
               "5/8/11 frames from 0 past 70 % of the initial capacity (phase 1) and past 70 % of the doubled capacity (phase 2), "
               "one phase by explicit next calls (the first idx mod (k+1) of the k calls at depth 0, the rest at depth d), the "
               "other by for-in over a generator passed down the recursion, so that a resume is the operation that makes the "
               "stack grow; M = the async twin with awaited helper promises held in locals is awaited 6 times (pool sizes 2, 4) "
               "or 8-220 times (pool size 1, enough suspensions to lift the only worker over its threshold) for every argument "
               "tuple in turn; both compared line by line with the model's results. When the checker rejects yield/return "
               "after a closure literal (C12 finding) generator bodies print bumps without a closure and bodies with closures "
               "get no early return.",
               samples, distribution)
    if st["program_runs"] and st["rejected"] * 2 > st["program_runs"]:
        ctx.broke("correspondence %s: more than half of the program runs were rejected by the checker (%d of %d)"
                  % (STREAM, st["rejected"], st["program_runs"]), str(st["reject_reasons"]))
