"""C07 — Fixed-width integers wrap modulo 2^n; floats follow IEEE-754."""
import os
import struct
import subprocess
import vlib

TYS = {"i8": (True, 8), "i16": (True, 16), "i32": (True, 32), "i64": (True, 64),
       "u8": (False, 8), "u16": (False, 16), "u32": (False, 32), "u64": (False, 64), "u": (False, 64)}
KIND_RANGE = {"smallint": (True, 64), "i64": (True, 64), "i32": (True, 32), "i16": (True, 16), "i8": (True, 8),
              "u64": (False, 64), "u32": (False, 32), "u16": (False, 16), "u8": (False, 8), "u": (False, 64)}


# ------------------------------------------------------------------ independent oracle
# The property evaluated directly in Python integers / hardware IEEE doubles; shares no code
# with the Coq model or its extraction.

def wrap(s, w, z):
    z &= (1 << w) - 1
    if s and z >= 1 << (w - 1):
        z -= 1 << w
    return z


def trunc_div(a, b):
    q = abs(a) // abs(b)
    return q if (a < 0) == (b < 0) else -q


def shl(s, w, a, n):
    return 0 if n >= w else wrap(s, w, a << n)


def ashr(a, n):
    return (-1 if a < 0 else 0) if n >= 80 else a >> n


def lshr(s, w, a, n):
    return 0 if n >= w else wrap(s, w, (a & ((1 << w) - 1)) >> n)


def int_oracle(f):
    """expected observable for an integer case, or None when the oracle has no opinion"""
    if f[0] == "bin":
        s, w = TYS[f[2]]
        op, a, b = f[3], int(f[4]), int(f[5])
        if op in ("div", "mod") and b == 0:
            return "err 1"
        if op == "pow":
            if b > 100000:
                return None
            r = 1 if b <= 0 else pow(a, b, 1 << w)
        else:
            r = {"add": lambda: a + b, "sub": lambda: a - b, "mul": lambda: a * b,
                 "div": lambda: trunc_div(a, b), "mod": lambda: a - b * trunc_div(a, b),
                 "and": lambda: a & b, "or": lambda: a | b, "xor": lambda: a ^ b,
                 "andnot": lambda: a & ~b}[op]()
        return "ok %d" % wrap(s, w, r)
    if f[0] == "un":
        s, w = TYS[f[2]]
        a = int(f[4])
        r = {"neg": -a, "not": ~a, "inc": a + 1, "dec": a - 1}[f[3]]
        return "ok %d" % wrap(s, w, r)
    if f[0] in ("sh", "same"):
        if f[0] == "sh":
            ty, op, a, kind, n = f[2], f[3], int(f[4]), f[5], int(f[6])
            if kind == "float":
                return "err 2"
        else:
            ty, op, a, n = f[1], f[2], int(f[3]), int(f[4])
        s, w = TYS[ty]
        left = op in ("shl", "lshl")
        logical = op in ("lshl", "lshr")
        if n < 0:
            left, n = not left, -n
        if left:
            r = shl(s, w, a, n)
        elif logical:
            r = lshr(s, w, a, n)
        else:
            r = ashr(a, n)
        return "ok %d" % r
    return None


def f64_of_bits(b):
    return struct.unpack("<d", struct.pack("<Q", b))[0]


def bits_of_f64(x):
    return struct.unpack("<Q", struct.pack("<d", x))[0]


def f32_of_bits(b):
    return struct.unpack("<f", struct.pack("<I", b))[0]


def round32(x):
    """round a double to binary32 (overflow -> inf), returned as a double"""
    try:
        return struct.unpack("<f", struct.pack("<f", x))[0]
    except OverflowError:
        return float("inf") if x > 0 else float("-inf")


def bits_of_f32(x):
    return struct.unpack("<I", struct.pack("<f", x))[0]


def fdiv(a, b):
    if b == 0.0:
        if a != a or a == 0.0:
            return float("nan")
        neg = (struct.pack("<d", a)[7] ^ struct.pack("<d", b)[7]) & 0x80
        return float("-inf") if neg else float("inf")
    return a / b


def float_oracle(f):
    if f[0] == "f":
        ty, op = f[1], f[2]
        is32 = ty == "f32"
        a = f32_of_bits(int(f[3])) if is32 else f64_of_bits(int(f[3]))
        b = f32_of_bits(int(f[4])) if is32 else f64_of_bits(int(f[4]))
        if op in ("add", "sub", "mul", "div"):
            # binary32 results via one binary64 operation + rounding: exact for + - * /
            # because 53 >= 2*24+2 (no double-rounding error)
            r = {"add": lambda: a + b, "sub": lambda: a - b, "mul": lambda: a * b, "div": lambda: fdiv(a, b)}[op]()
            if is32:
                r = round32(r)
            if r != r:
                return "nan"
            return str(bits_of_f32(r) if is32 else bits_of_f64(r))
        un = a != a or b != b
        if op == "cmp":
            return "un" if un else ("lt" if a < b else ("gt" if a > b else "eq"))
        r = {"lt": a < b, "le": a <= b, "gt": a > b, "ge": a >= b, "eq": a == b}[op]
        return "true" if r else "false"
    if f[0] == "cv":
        op, x = f[1], int(f[2])
        if op in ("i2fl", "i642f64", "big2fl"):
            try:
                return str(bits_of_f64(float(x)))          # Python int -> float rounds to nearest even
            except OverflowError:
                return str(bits_of_f64(float("inf") if x > 0 else float("-inf")))
        if op == "fl2f32":
            r = round32(f64_of_bits(x))
            return "nan" if r != r else str(bits_of_f32(r))
        if op == "f322f64":
            r = f32_of_bits(x)
            return "nan" if r != r else str(bits_of_f64(r))
        if op == "fl2int":
            return "ok %d" % int(f64_of_bits(x))
    return None


# ------------------------------------------------------------------ failure keys

def amount_class(kind, n, w):
    if kind == "float":
        return "any"
    if kind == "bigint" and not (-(1 << 63) <= n < (1 << 63)):
        return "beyond64neg" if n < 0 else "beyond64pos"
    if kind in KIND_RANGE:
        s, kw = KIND_RANGE[kind]
        if s and n == -(1 << (kw - 1)):
            return "kindmin"
    if n < 0:
        return "neg>=w" if -n >= w else "neg<w"
    if n == 0:
        return "zero"
    return "pos>=w" if n >= w else "pos<w"


def obs_class(obs):
    h = obs.split(" ", 1)[0]
    if h == "panic":
        return "panic"
    if h == "err":
        return "err" + obs.split()[1]
    if h in ("hang", "undefined", "other"):
        return h
    return "wrong-value"


def kind_class(k):
    if k in ("smallint", "i64", "i32", "i16", "i8"):
        return "signed-kind"
    if k in ("u64", "u32", "u16", "u8"):
        return "unsigned-kind"
    return k            # u, bigint, float


def int_key(inp, obs, exp):
    """canonical class of a failing case: operator, signedness of the left type, class of the
    right operand / amount, kind of wrong outcome (the width is kept only for 64-bit lefts,
    whose class methods are registered separately in vm/int64.go)"""
    f = inp.split()
    oc = obs_class(obs)
    sg = lambda ty: ("s" if TYS[ty][0] else "u") + ("64" if TYS[ty][1] == 64 else "")
    if f[0] == "bin":
        b = int(f[5])
        s, w = TYS[f[2]]
        bc = "zero" if b == 0 else ("max" if b == ((1 << (w - 1)) - 1 if s else (1 << w) - 1) else ("neg" if b < 0 else "pos"))
        return "bin:%s:%s:b=%s:%s" % (f[3], sg(f[2]), bc, oc)
    if f[0] == "un":
        return "un:%s:%s:%s" % (f[3], sg(f[2]), oc)
    if f[0] == "sh":
        s, w = TYS[f[2]]
        k = "sh:%s:%s:%s:%s" % (f[3], kind_class(f[5]), amount_class(f[5], int(f[6]), w), oc)
        # panics and type errors do not depend on the left operand; wrong values may (the class
        # methods of the 64-bit types are registered separately)
        return k if oc != "wrong-value" else k + ":%s:%s" % (f[1], sg(f[2]))
    if f[0] == "same":
        s, w = TYS[f[1]]
        return "same:%s:%s:%s" % (f[2], amount_class(f[1], int(f[4]), w), oc)
    return "int:" + f[0]


def fclass(ty, bits):
    bits = int(bits)
    if ty == "f32":
        e, m = (bits >> 23) & 0xFF, bits & 0x7FFFFF
        top = 0xFF
    else:
        e, m = (bits >> 52) & 0x7FF, bits & ((1 << 52) - 1)
        top = 0x7FF
    if e == top:
        return "nan" if m else "inf"
    if e == 0:
        return "sub" if m else "zero"
    return "norm"


def float_key(inp, obs, exp):
    f = inp.split()
    if f[0] == "f":
        return "f:%s:%s:%s/%s" % (f[1], f[2], fclass(f[1], f[3]), fclass(f[1], f[4]))
    return "cv:%s" % f[1]


# ------------------------------------------------------------------ streaming correspondence

def run_stream(ctx, stream, harness, model, n, extra, oracle, keyfn, rule, corpus=None, nontrivial=None):
    """harness -> file; model over the same inputs -> file; compare line by line (streams of
    several million cases in the thorough tier never sit in Python dictionaries)."""
    wd = ctx.workdir
    obs_path = os.path.join(wd, stream + ".obs")
    exp_path = os.path.join(wd, stream + ".exp")
    cmd = [harness, "-seed", str(ctx.sseed(stream)), "-n", str(n), "-tier", ctx.tier, "-extra", extra]
    if corpus and os.path.exists(corpus):
        cmd += ["-input", corpus]
    with open(obs_path, "w") as out:
        try:
            rc = subprocess.run(cmd, stdout=out, stderr=subprocess.PIPE, env=vlib.elk_env(), timeout=3000).returncode
        except subprocess.TimeoutExpired:
            rc = 124
    if rc != 0:
        ctx.broke("correspondence %s: harness exited %d" % (stream, rc))
    with open(obs_path) as inp, open(exp_path, "w") as out:
        try:
            rc2 = subprocess.run([model], stdin=inp, stdout=out, stderr=subprocess.PIPE, timeout=3000).returncode
        except subprocess.TimeoutExpired:
            rc2 = 124
    if rc2 != 0:
        ctx.broke("correspondence %s: model driver exited %d" % (stream, rc2))
    total = mism = omism = checked_by_oracle = 0
    distinct = set()
    dist = {}
    samples = []
    reported = {}
    with open(obs_path) as fo, open(exp_path) as fe:
        for lo in fo:
            p = lo.rstrip("\n").split("\t")
            if len(p) < 3:
                continue
            le = fe.readline().rstrip("\n").split("\t")
            cid, inp, obs = p[0], p[1], p[2]
            exp = le[1] if len(le) >= 2 and le[0] == cid else None
            total += 1
            f = inp.split()
            cls = " ".join(f[:2]) if f[0] in ("f", "cv") else "%s %s" % (f[0], f[3] if f[0] in ("bin", "un", "sh") else f[2])
            dist[cls] = dist.get(cls, 0) + 1
            if len(samples) < 2 or (total % 997 == 0 and len(samples) < 4):
                samples.append({"input": inp, "observed": obs})
            if nontrivial is None or nontrivial(f):
                if len(distinct) < 6000000:
                    distinct.add(hash(inp))
            if exp is None:
                ctx.broke("correspondence %s: model gave no answer for %s" % (stream, inp))
                continue
            bad = None
            if exp != obs:
                mism += 1
                bad = ("implementation differs from the proved model", exp)
            o = oracle(f)
            if o is not None:
                checked_by_oracle += 1
                if o != obs:
                    omism += 1
                    if bad is None:
                        bad = ("implementation violates the property evaluated directly (independent oracle)", o)
                if o != exp:
                    # the two oracles disagree with each other: the check itself is wrong somewhere
                    ctx.broke("correspondence %s: model %s and independent oracle %s disagree on %s" % (stream, exp, o, inp))
            if bad is not None:
                k = keyfn(inp, obs, exp)
                if reported.get(k, 0) < 3 and len(reported) < 400:
                    reported[k] = reported.get(k, 0) + 1
                    ctx.fail(k, "%s: implementation %s, expected %s" % (inp, obs, bad[1]), stream=stream, case=inp,
                             impl=obs, model=exp, oracle=bad[0])
    ctx.stream(stream, total, len(distinct), rule, samples, dist, mismatches=mism, oracle_mismatches=omism,
               checked_by_independent_oracle=checked_by_oracle)
    return total


ELK_CASES = [
    # (source expression, expected inspect) — the VM path: literals, operators, method-call syntax
    ("1i8 + 127i8", "-128i8"),
    ("(-127i8 - 1i8) / -1i8", "-128i8"),
    ("(-127i8 - 1i8) % -1i8", "0i8"),
    ("200u8 * 2u8", "144u8"),
    ("-(-127i8 - 1i8)", "-128i8"),
    ("0u16 - 1u16", "65535u16"),
    ("1i8 <<< 2u", "4i8"),
    ("1i16 <<< 2u", "4i16"),
    ("1i32 <<< 2u", "4i32"),
    ("1i64 <<< 2u", "4i64"),
    ("-4i8 <<< -1", "126i8"),
    ("-4i8 >>> 1", "126i8"),
    ("-4i8 >> 1", "-2i8"),
    ("-4i8 << -1", "-2i8"),
    ("1i8 << 8", "0i8"),
    ("1u8 << 9u8", "0u8"),
    ("-1i8 >> 2 ** 70", "-1i8"),
    ("-1i8 << -(2 ** 70)", "-1i8"),
    ("1i8 << (-127i8 - 1i8)", "0i8"),
    ("-1i16 << (-32767i16 - 1i16)", "-1i16"),
    ("-1i16 >> (-32767i16 - 1i16)", "0i16"),
    ("1i8 >> (-9223372036854775807i64 - 1i64)", "0i8"),
    ("-1i64 >>> 1", "9223372036854775807i64"),
    ("(-1i64).>>>(1)", "9223372036854775807i64"),
    ("(-1i64).>>>(60u8)", "15i64"),
    ("(1i64).<<<(40)", "1099511627776i64"),
    ("3i8 ** 127i8", "-85i8"),
    ("3u8 ** 255u8", "171u8"),
    ("1i8 / 0i8", "ZeroDivisionError"),
    ("1u64 % 0u64", "ZeroDivisionError"),
    ("0.1 + 0.2", "0.30000000000000004"),
    ("16777216f32 + 1f32", "1.6777216e+07f32"),
    ("1.5f32 + 2.25f32", "3.75f32"),
    ("1.0f64 / 4.0f64", "0.25f64"),
    ("0.1f64 + 0.2f64", "0.30000000000000004f64"),
]


def elk_stream(ctx):
    """A small stream through real Elk programs: the compiler's constant folder and the VM
    opcode / method-call paths must agree with the same expectations."""
    elk = vlib.build_elk()
    progs = []
    for i, (src, want) in enumerate(ELK_CASES):
        # one program per expression; `a` forces a run-time (non-folded) evaluation as well
        progs.append(("e%d" % i, "println((%s).inspect)\n" % src))
    res = vlib.run_programs(elk, progs, os.path.join(ctx.workdir, "elk"), timeout=20)
    # a loaded machine can make a 90 ms program miss its deadline: timed-out programs get one more, longer, chance
    again = [p for p in progs if res[p[0]][2] == "timeout"]
    if again:
        res.update(vlib.run_programs(elk, again, os.path.join(ctx.workdir, "elk"), timeout=45))
    n = 0
    for i, (src, want) in enumerate(ELK_CASES):
        rc, out, cls = res["e%d" % i]
        n += 1
        lines = [l for l in out.strip().splitlines() if l.strip()]
        if want == "ZeroDivisionError":
            ok = cls == "elk_error" and "ZeroDivisionError" in out or (cls == "ok" and "ZeroDivisionError" in out)
            got = "ZeroDivisionError" if ok else (cls + ": " + (lines[-1] if lines else ""))
        else:
            got = lines[-1] if (cls == "ok" and lines) else (cls + ": " + (lines[-1][:100] if lines else ""))
            ok = got == want
        if not ok:
            ctx.fail("elk:%s:%s" % (src, cls), "`%s` gives %s, expected %s" % (src, got, want), stream="c07.elk", case=src,
                     impl=got, model=want, oracle="Elk program result differs from two's-complement / IEEE expectation")
    ctx.stream("c07.elk", n, n, "fixed list of boundary expressions run as Elk programs (compiler folding + VM); "
               "expected values are instances of the proved model", [{"input": s, "observed": w} for s, w in ELK_CASES[:3]], {})


def run(ctx):
    ctx.explanation = (
        "Integers: Coq theorems, generic in width w (1 < w <= 64) and signedness, over ALL values of the type and ALL "
        "integers of every admitted right-operand kind, about a Gallina model that mirrors value/int8.go..uint.go and the four "
        "shift helpers of value/strict_numeric.go case by case (64-bit system): results are in range and congruent mod 2^w; "
        "/ and % truncate with the single MinInt/-1 wrap; division by zero is ZeroDivisionError; shifts mean wrap(a*2^n), "
        "floor(a/2^n), logical variants on the w-bit pattern, reversed for negative n, 0/sign beyond the width; no admitted "
        "operand kind gives TypeError or panic. The model is tied to the Go code by differential streams (value.*Val "
        "dispatchers AND the native methods registered on the Std::IntN classes), and every case is also checked against an "
        "independent Python oracle. Floats: the model's operations are Flocq's binary64/binary32 operations; proved (from "
        "Flocq) that finite non-overflowing + - * / round the exact real result once at the operand's own precision "
        "(binary32 for Float32), comparison is real comparison, Int->Float rounds once. That the Go implementation computes "
        "these functions is differential-tested on bit patterns (NaN payloads canonicalised), not proved. Float % and ** "
        "(math.Mod/math.Pow), Float->sized-int conversions and to_int of NaN/Inf are outside the claim.")
    ctx.trusted_base += [
        "Flocq 4.1.0 (IEEE-754 formalisation) and the standard-library real-number axioms it uses",
        "Go's arithmetic on sized integers and float32/float64 as compiled for amd64 (validated by the streams, not proved)",
        "the model covers 64-bit systems only (Int64/UInt64 inline, UInt 64 bits wide); the reference-typed Int64/UInt64 "
        "cases of the helpers (32-bit systems) are not exercised",
    ]
    ctx.run_proof_gate()
    h = vlib.build_harness("c07")
    m = vlib.build_model("C07")
    croot = os.path.join(vlib.ROOT, "corpus")
    run_stream(ctx, "c07.int", h, m, ctx.n(8000, 300000), "int", int_oracle, int_key,
               "seeded, boundary-directed: 9 types x {10 binary, 4 unary operators} x {value.*Val dispatcher, class method}, "
               "4 shift operators x 11 right-operand kinds (+ a non-integer) with amounts around 0, +-width, +-64, kind "
               "extremes, beyond 64 bits; same-type shift helpers; thorough adds the exhaustive 8-bit sweep. "
               "distinct = distinct inputs with a non-zero operand",
               corpus=os.path.join(croot, "C07.int.txt"),
               nontrivial=lambda f: any(x not in ("0",) for x in f[4:5]))
    run_stream(ctx, "c07.float", h, m, ctx.n(6000, 500000), "float", float_oracle, float_key,
               "bit patterns: +-0, subnormals, min normal, +-inf, NaNs, max finite, ulp neighbours of powers of two, "
               "moderate exponents, random; Float/Float64/Float32 x + - * / <=> < <= > >= ==; Int->Float, Int64->Float32, "
               "BigInt->Float, Float->Float32, Float32->Float64, finite Float->Int; compared as bit patterns, NaN = 'nan'",
               corpus=os.path.join(croot, "C07.float.txt"))
    elk_stream(ctx)
