"""C07 — Fixed-width integers wrap modulo 2^n; floats follow IEEE-754."""
import os
import struct
import subprocess
import vlib

TYS = {"i8": (True, 8), "i16": (True, 16), "i32": (True, 32), "i64": (True, 64),
       "u8": (False, 8), "u16": (False, 16), "u32": (False, 32), "u64": (False, 64), "u": (False, 64)}
KIND_RANGE = {"smallint": (True, 64), "i64": (True, 64), "i32": (True, 32), "i16": (True, 16), "i8": (True, 8),
              "u64": (False, 64), "u32": (False, 32), "u16": (False, 16), "u8": (False, 8), "u": (False, 64)}


# ------------------------------------------------------------------ independent oracle
# The property evaluated directly in Python integers / hardware IEEE doubles; shares no code
# with the Coq model or its extraction.

def wrap(s, w, z):
    z &= (1 << w) - 1
    if s and z >= 1 << (w - 1):
        z -= 1 << w
    return z


def trunc_div(a, b):
    q = abs(a) // abs(b)
    return q if (a < 0) == (b < 0) else -q


def shl(s, w, a, n):
    return 0 if n >= w else wrap(s, w, a << n)


def ashr(a, n):
    return (-1 if a < 0 else 0) if n >= 80 else a >> n


def lshr(s, w, a, n):
    return 0 if n >= w else wrap(s, w, (a & ((1 << w) - 1)) >> n)


def int_oracle(f):
    """expected observable for an integer case, or None when the oracle has no opinion"""
    if f[0] == "bin":
        s, w = TYS[f[2]]
        op, a, b = f[3], int(f[4]), int(f[5])
        if op in ("div", "mod") and b == 0:
            return "err 1"
        if op == "pow":
            if b > 100000:
                return None
            r = 1 if b <= 0 else pow(a, b, 1 << w)
        else:
            r = {"add": lambda: a + b, "sub": lambda: a - b, "mul": lambda: a * b,
                 "div": lambda: trunc_div(a, b), "mod": lambda: a - b * trunc_div(a, b),
                 "and": lambda: a & b, "or": lambda: a | b, "xor": lambda: a ^ b,
                 "andnot": lambda: a & ~b}[op]()
        return "ok %d" % wrap(s, w, r)
    if f[0] == "un":
        s, w = TYS[f[2]]
        a = int(f[4])
        r = {"neg": -a, "not": ~a, "inc": a + 1, "dec": a - 1}[f[3]]
        return "ok %d" % wrap(s, w, r)
    if f[0] in ("sh", "same"):
        if f[0] == "sh":
            ty, op, a, kind, n = f[2], f[3], int(f[4]), f[5], int(f[6])
            if kind == "float":
                return "err 2"
        else:
            ty, op, a, n = f[1], f[2], int(f[3]), int(f[4])
        s, w = TYS[ty]
        left = op in ("shl", "lshl")
        logical = op in ("lshl", "lshr")
        if n < 0:
            left, n = not left, -n
        if left:
            r = shl(s, w, a, n)
        elif logical:
            r = lshr(s, w, a, n)
        else:
            r = ashr(a, n)
        return "ok %d" % r
    return None


def f64_of_bits(b):
    return struct.unpack("<d", struct.pack("<Q", b))[0]


def bits_of_f64(x):
    return struct.unpack("<Q", struct.pack("<d", x))[0]


def f32_of_bits(b):
    return struct.unpack("<f", struct.pack("<I", b))[0]


def round32(x):
    """round a double to binary32 (overflow -> inf), returned as a double"""
    try:
        return struct.unpack("<f", struct.pack("<f", x))[0]
    except OverflowError:
        return float("inf") if x > 0 else float("-inf")


def bits_of_f32(x):
    return struct.unpack("<I", struct.pack("<f", x))[0]


def fdiv(a, b):
    if b == 0.0:
        if a != a or a == 0.0:
            return float("nan")
        neg = (struct.pack("<d", a)[7] ^ struct.pack("<d", b)[7]) & 0x80
        return float("-inf") if neg else float("inf")
    return a / b


INF = float("inf")
NAN = float("nan")


def is_neg(x):
    return struct.pack("<d", x)[7] & 0x80 != 0


def py_pow_special(x, y):
    """IEEE 754-2008 9.2.1 exceptional cases of pow on Python floats (written from the standard's
    list, independently of the Coq table); None for the ordinary pairs"""
    if y == 0.0 or x == 1.0:
        return 1.0
    if x != x or y != y:
        return NAN
    yinf = y in (INF, -INF)
    yint = (not yinf) and y.is_integer()
    yodd = yint and abs(y) < 2.0 ** 53 and int(y) % 2 == 1
    if x == 0.0:
        neg = is_neg(x) and yodd
        if y < 0:
            return -INF if neg else INF
        return -0.0 if neg else 0.0
    if x in (INF, -INF):
        neg = x < 0 and yodd
        if y < 0:
            return -0.0 if neg else 0.0
        return -INF if neg else INF
    if yinf:
        if abs(x) == 1.0:
            return 1.0
        return INF if (abs(x) > 1.0) == (y > 0) else 0.0
    if x < 0 and not yint:
        return NAN
    return None


def py_fmod(a, b):
    if a != a or b != b or a in (INF, -INF) or b == 0.0:
        return NAN
    if b in (INF, -INF):
        return a
    return __import__("math").fmod(a, b)      # C fmod: exact, sign of the dividend


def show_bits(is32, r):
    if r != r:
        return "nan"
    return str(bits_of_f32(r) if is32 else bits_of_f64(r))


def powmod_oracle(is32, op, a, b):
    """exact string for `%` and the special cases of `**`; ("approx", value, rel_tol) for ordinary
    `**` pairs with a moderate exponent (Go's math.Pow is not correctly rounded: only gross errors
    are the independent oracle's business there); None otherwise"""
    if op == "mod":
        return show_bits(is32, py_fmod(a, b))
    r = py_pow_special(a, b)
    if r is not None:
        return show_bits(is32, r)
    if abs(b) <= 1024.0:
        try:
            v = __import__("math").pow(a, b)
        except (OverflowError, ValueError):
            return None
        lo, hi = (1e-37, 1e38) if is32 else (1e-300, 1e300)
        if lo < abs(v) < hi:
            return ("approx", v, 1e-6 if is32 else 1e-9)
    return None


def float_oracle(f):
    if f[0] == "fp":
        is32 = f[2] == "f32"
        a = f32_of_bits(int(f[4])) if is32 else f64_of_bits(int(f[4]))
        b = f32_of_bits(int(f[5])) if is32 else f64_of_bits(int(f[5]))
        return powmod_oracle(is32, f[3], a, b)
    if f[0] == "fpi":
        try:
            b = float(int(f[4]))
        except OverflowError:
            b = INF if int(f[4]) > 0 else -INF
        return powmod_oracle(False, f[2], f64_of_bits(int(f[3])), b)
    if f[0] == "f":
        ty, op = f[1], f[2]
        is32 = ty == "f32"
        a = f32_of_bits(int(f[3])) if is32 else f64_of_bits(int(f[3]))
        b = f32_of_bits(int(f[4])) if is32 else f64_of_bits(int(f[4]))
        if op in ("add", "sub", "mul", "div"):
            # binary32 results via one binary64 operation + rounding: exact for + - * /
            # because 53 >= 2*24+2 (no double-rounding error)
            r = {"add": lambda: a + b, "sub": lambda: a - b, "mul": lambda: a * b, "div": lambda: fdiv(a, b)}[op]()
            if is32:
                r = round32(r)
            if r != r:
                return "nan"
            return str(bits_of_f32(r) if is32 else bits_of_f64(r))
        un = a != a or b != b
        if op == "cmp":
            return "un" if un else ("lt" if a < b else ("gt" if a > b else "eq"))
        r = {"lt": a < b, "le": a <= b, "gt": a > b, "ge": a >= b, "eq": a == b}[op]
        return "true" if r else "false"
    if f[0] == "cv":
        op, x = f[1], int(f[2])
        if op in ("i2fl", "i642f64", "big2fl"):
            try:
                return str(bits_of_f64(float(x)))          # Python int -> float rounds to nearest even
            except OverflowError:
                return str(bits_of_f64(float("inf") if x > 0 else float("-inf")))
        if op == "fl2f32":
            r = round32(f64_of_bits(x))
            return "nan" if r != r else str(bits_of_f32(r))
        if op == "f322f64":
            r = f32_of_bits(x)
            return "nan" if r != r else str(bits_of_f64(r))
        if op == "fl2int":
            return "ok %d" % int(f64_of_bits(x))
    return None


# ------------------------------------------------------------------ failure keys

def amount_class(kind, n, w):
    if kind == "float":
        return "any"
    if kind == "bigint" and not (-(1 << 63) <= n < (1 << 63)):
        return "beyond64neg" if n < 0 else "beyond64pos"
    if kind in KIND_RANGE:
        s, kw = KIND_RANGE[kind]
        if s and n == -(1 << (kw - 1)):
            return "kindmin"
    if n < 0:
        return "neg>=w" if -n >= w else "neg<w"
    if n == 0:
        return "zero"
    return "pos>=w" if n >= w else "pos<w"


def obs_class(obs):
    h = obs.split(" ", 1)[0]
    if h == "panic":
        return "panic"
    if h == "err":
        return "err" + obs.split()[1]
    if h in ("hang", "undefined", "other"):
        return h
    return "wrong-value"


def approx_ok(is32, obs, v, tol):
    if not obs.isdigit():
        return False
    x = f32_of_bits(int(obs)) if is32 else f64_of_bits(int(obs))
    return x == x and abs(x - v) <= tol * abs(v)


def kind_class(k):
    if k in ("smallint", "i64", "i32", "i16", "i8"):
        return "signed-kind"
    if k in ("u64", "u32", "u16", "u8"):
        return "unsigned-kind"
    return k            # u, bigint, float


def int_key(inp, obs, exp):
    """canonical class of a failing case: operator, signedness of the left type, class of the
    right operand / amount, kind of wrong outcome (the width is kept only for 64-bit lefts,
    whose class methods are registered separately in vm/int64.go)"""
    f = inp.split()
    oc = obs_class(obs)
    sg = lambda ty: ("s" if TYS[ty][0] else "u") + ("64" if TYS[ty][1] == 64 else "")
    if f[0] == "bin":
        b = int(f[5])
        s, w = TYS[f[2]]
        bc = "zero" if b == 0 else ("max" if b == ((1 << (w - 1)) - 1 if s else (1 << w) - 1) else ("neg" if b < 0 else "pos"))
        return "bin:%s:%s:b=%s:%s" % (f[3], sg(f[2]), bc, oc)
    if f[0] == "un":
        return "un:%s:%s:%s" % (f[3], sg(f[2]), oc)
    if f[0] == "sh":
        s, w = TYS[f[2]]
        k = "sh:%s:%s:%s:%s" % (f[3], kind_class(f[5]), amount_class(f[5], int(f[6]), w), oc)
        # panics and type errors do not depend on the left operand; wrong values may (the class
        # methods of the 64-bit types are registered separately)
        return k if oc != "wrong-value" else k + ":%s:%s" % (f[1], sg(f[2]))
    if f[0] == "same":
        s, w = TYS[f[1]]
        return "same:%s:%s:%s" % (f[2], amount_class(f[1], int(f[4]), w), oc)
    return "int:" + f[0]


def fclass(ty, bits):
    bits = int(bits)
    if ty == "f32":
        e, m = (bits >> 23) & 0xFF, bits & 0x7FFFFF
        top = 0xFF
    else:
        e, m = (bits >> 52) & 0x7FF, bits & ((1 << 52) - 1)
        top = 0x7FF
    if e == top:
        return "nan" if m else "inf"
    if e == 0:
        return "sub" if m else "zero"
    return "norm"


def pclass(is32, x):
    """class of a `**` / `%` operand: sign + what IEEE 754-2008 9.2.1 distinguishes"""
    if x != x:
        return "nan"
    s = "-" if is_neg(x) else "+"
    if x == 0.0:
        return s + "zero"
    if x in (INF, -INF):
        return s + "inf"
    if abs(x) == 1.0:
        return s + "one"
    if x.is_integer():
        return s + ("oddint" if abs(x) < 2.0 ** 53 and int(x) % 2 == 1 else "evenint")
    if abs(x) < (2.0 ** -126 if is32 else 2.0 ** -1022):
        return s + "sub"
    return s + "frac"


def float_key(inp, obs, exp):
    f = inp.split()
    if f[0] == "fp":
        is32 = f[2] == "f32"
        a = f32_of_bits(int(f[4])) if is32 else f64_of_bits(int(f[4]))
        b = f32_of_bits(int(f[5])) if is32 else f64_of_bits(int(f[5]))
        return "fp:%s:%s:%s/%s:%s" % (f[2], f[3], pclass(is32, a), pclass(is32, b), obs_class(obs))
    if f[0] == "fpi":
        n = int(f[4])
        nc = "zero" if n == 0 else (("-" if n < 0 else "+") + ("big" if abs(n) >= 1 << 63 else ("odd" if n % 2 else "even")))
        return "fpi:%s:%s/int%s:%s" % (f[2], pclass(False, f64_of_bits(int(f[3]))), nc, obs_class(obs))
    if f[0] == "f":
        return "f:%s:%s:%s/%s" % (f[1], f[2], fclass(f[1], f[3]), fclass(f[1], f[4]))
    return "cv:%s" % f[1]


# ------------------------------------------------------------------ streaming correspondence

def run_stream(ctx, stream, harness, model, n, extra, oracle, keyfn, rule, corpus=None, nontrivial=None):
    """harness -> file; model over the same inputs -> file; compare line by line (streams of
    several million cases in the thorough tier never sit in Python dictionaries)."""
    wd = ctx.workdir
    obs_path = os.path.join(wd, stream + ".obs")
    exp_path = os.path.join(wd, stream + ".exp")
    cmd = [harness, "-seed", str(ctx.sseed(stream)), "-n", str(n), "-tier", ctx.tier, "-extra", extra]
    if corpus and os.path.exists(corpus):
        cmd += ["-input", corpus]
    with open(obs_path, "w") as out:
        try:
            rc = subprocess.run(cmd, stdout=out, stderr=subprocess.PIPE, env=vlib.elk_env(), timeout=3000).returncode
        except subprocess.TimeoutExpired:
            rc = 124
    if rc != 0:
        ctx.broke("correspondence %s: harness exited %d" % (stream, rc))
    with open(obs_path) as inp, open(exp_path, "w") as out:
        try:
            rc2 = subprocess.run([model], stdin=inp, stdout=out, stderr=subprocess.PIPE, timeout=3000).returncode
        except subprocess.TimeoutExpired:
            rc2 = 124
    if rc2 != 0:
        ctx.broke("correspondence %s: model driver exited %d" % (stream, rc2))
    total = mism = omism = checked_by_oracle = nonspecial = approx = 0
    distinct = set()
    dist = {}
    samples = []
    reported = {}
    with open(obs_path) as fo, open(exp_path) as fe:
        for lo in fo:
            p = lo.rstrip("\n").split("\t")
            if len(p) < 3:
                continue
            le = fe.readline().rstrip("\n").split("\t")
            cid, inp, obs = p[0], p[1], p[2]
            exp = le[1] if len(le) >= 2 and le[0] == cid else None
            total += 1
            f = inp.split()
            if f[0] in ("fp", "fpi"):
                cls = "%s %s %s" % (f[0], f[2], f[3]) if f[0] == "fp" else "fpi fl %s" % f[2]
            else:
                cls = " ".join(f[:2]) if f[0] in ("f", "cv") else "%s %s" % (f[0], f[3] if f[0] in ("bin", "un", "sh") else f[2])
            by_ref = False
            if exp == "nonspecial":
                # ordinary `**` pair: outside the Coq table; the expectation is Go's math.Pow as
                # computed by the harness itself (4th column)
                by_ref = True
                nonspecial += 1
                exp = p[3] if len(p) >= 4 else None
            dist[cls] = dist.get(cls, 0) + 1
            if len(samples) < 2 or (total % 997 == 0 and len(samples) < 4):
                samples.append({"input": inp, "observed": obs})
            if nontrivial is None or nontrivial(f):
                if len(distinct) < 6000000:
                    distinct.add(hash(inp))
            if exp is None:
                ctx.broke("correspondence %s: model gave no answer for %s" % (stream, inp))
                continue
            bad = None
            if exp != obs:
                mism += 1
                bad = ("implementation differs from Go's math.Pow on the same operands (trusted reference for ordinary pairs)"
                       if by_ref else "implementation differs from the proved model", exp)
            o = oracle(f)
            if isinstance(o, tuple):
                # loose independent sanity bound (libm pow) on an ordinary `**` pair
                approx += 1
                if not approx_ok(f[0] == "fp" and f[2] == "f32", obs, o[1], o[2]):
                    omism += 1
                    if bad is None:
                        bad = ("implementation is not within %g (relative) of libm pow" % o[2], repr(o[1]))
            elif o is not None:
                checked_by_oracle += 1
                if o != obs:
                    omism += 1
                    if bad is None:
                        bad = ("implementation violates the property evaluated directly (independent oracle)", o)
                if o != exp:
                    # the two oracles disagree with each other: the check itself is wrong somewhere
                    ctx.broke("correspondence %s: model %s and independent oracle %s disagree on %s" % (stream, exp, o, inp))
            if bad is not None:
                k = keyfn(inp, obs, exp)
                if reported.get(k, 0) < 3 and len(reported) < 400:
                    reported[k] = reported.get(k, 0) + 1
                    ctx.fail(k, "%s: implementation %s, expected %s" % (inp, obs, bad[1]), stream=stream, case=inp,
                             impl=obs, model=exp, oracle=bad[0])
    extra = {}
    if nonspecial or approx:
        extra = {"pow_ordinary_pairs_checked_against_go_math_pow": nonspecial, "pow_ordinary_pairs_with_libm_sanity_bound": approx}
    ctx.stream(stream, total, len(distinct), rule, samples, dist, mismatches=mism, oracle_mismatches=omism,
               checked_by_independent_oracle=checked_by_oracle, **extra)
    return total


ELK_CASES = [
    # (source expression, expected inspect) — the VM path: literals, operators, method-call syntax
    ("1i8 + 127i8", "-128i8"),
    ("(-127i8 - 1i8) / -1i8", "-128i8"),
    ("(-127i8 - 1i8) % -1i8", "0i8"),
    ("200u8 * 2u8", "144u8"),
    ("-(-127i8 - 1i8)", "-128i8"),
    ("0u16 - 1u16", "65535u16"),
    ("1i8 <<< 2u", "4i8"),
    ("1i16 <<< 2u", "4i16"),
    ("1i32 <<< 2u", "4i32"),
    ("1i64 <<< 2u", "4i64"),
    ("-4i8 <<< -1", "126i8"),
    ("-4i8 >>> 1", "126i8"),
    ("-4i8 >> 1", "-2i8"),
    ("-4i8 << -1", "-2i8"),
    ("1i8 << 8", "0i8"),
    ("1u8 << 9u8", "0u8"),
    ("-1i8 >> 2 ** 70", "-1i8"),
    ("-1i8 << -(2 ** 70)", "-1i8"),
    ("1i8 << (-127i8 - 1i8)", "0i8"),
    ("-1i16 << (-32767i16 - 1i16)", "-1i16"),
    ("-1i16 >> (-32767i16 - 1i16)", "0i16"),
    ("1i8 >> (-9223372036854775807i64 - 1i64)", "0i8"),
    ("-1i64 >>> 1", "9223372036854775807i64"),
    ("(-1i64).>>>(1)", "9223372036854775807i64"),
    ("(-1i64).>>>(60u8)", "15i64"),
    ("(1i64).<<<(40)", "1099511627776i64"),
    ("3i8 ** 127i8", "-85i8"),
    ("3u8 ** 255u8", "171u8"),
    ("1i8 / 0i8", "ZeroDivisionError"),
    ("1u64 % 0u64", "ZeroDivisionError"),
    ("0.1 + 0.2", "0.30000000000000004"),
    ("16777216f32 + 1f32", "1.6777216e+07f32"),
    ("1.5f32 + 2.25f32", "3.75f32"),
    ("1.0f64 / 4.0f64", "0.25f64"),
    ("0.1f64 + 0.2f64", "0.30000000000000004f64"),
]


def elk_stream(ctx):
    """A small stream through real Elk programs: the compiler's constant folder and the VM
    opcode / method-call paths must agree with the same expectations."""
    elk = vlib.build_elk()
    progs = []
    for i, (src, want) in enumerate(ELK_CASES):
        # one program per expression; `a` forces a run-time (non-folded) evaluation as well
        progs.append(("e%d" % i, "println((%s).inspect)\n" % src))
    res = vlib.run_programs(elk, progs, os.path.join(ctx.workdir, "elk"), timeout=20)
    # a loaded machine can make a 90 ms program miss its deadline: timed-out programs get one more, longer, chance
    again = [p for p in progs if res[p[0]][2] == "timeout"]
    if again:
        res.update(vlib.run_programs(elk, again, os.path.join(ctx.workdir, "elk"), timeout=45))
    n = 0
    for i, (src, want) in enumerate(ELK_CASES):
        rc, out, cls = res["e%d" % i]
        n += 1
        lines = [l for l in out.strip().splitlines() if l.strip()]
        if want == "ZeroDivisionError":
            ok = cls == "elk_error" and "ZeroDivisionError" in out or (cls == "ok" and "ZeroDivisionError" in out)
            got = "ZeroDivisionError" if ok else (cls + ": " + (lines[-1] if lines else ""))
        else:
            got = lines[-1] if (cls == "ok" and lines) else (cls + ": " + (lines[-1][:100] if lines else ""))
            ok = got == want
        if not ok:
            ctx.fail("elk:%s:%s" % (src, cls), "`%s` gives %s, expected %s" % (src, got, want), stream="c07.elk", case=src,
                     impl=got, model=want, oracle="Elk program result differs from two's-complement / IEEE expectation")
    ctx.stream("c07.elk", n, n, "fixed list of boundary expressions run as Elk programs (compiler folding + VM); "
               "expected values are instances of the proved model", [{"input": s, "observed": w} for s, w in ELK_CASES[:3]], {})


# ------------------------------------------------------------------ `**` and `%` through Elk programs

def f32_repr(x):
    for p in range(1, 10):
        r = "%.*g" % (p, x)
        if round32(float(r)) == x:
            break
    if "e" not in r and "." not in r and "n" not in r:
        r += ".0"
    return r


FTY = {"fl": ("Float", "", ""), "f64": ("Float64", "f64", ".to_float64"), "f32": ("Float32", "f32", ".to_float32")}


def elk_lit(ty, x):
    """Elk source for the float x of type ty (exact: shortest round-trip decimal)"""
    _, suf, conv = FTY[ty]
    if x != x:
        return "Float::NAN" + conv
    if x in (INF, -INF):
        return ("Float::INF" if x > 0 else "Float::NEG_INF") + conv
    r = (f32_repr(abs(x)) if ty == "f32" else repr(abs(x))).replace("e+", "e")
    if "e" in r and "." not in r:
        m, e = r.split("e")
        r = m + ".0e" + e
    return "(-%s%s)" % (r, suf) if is_neg(x) else r + suf


def parse_inspect(ty, line):
    """bits (as the harness prints them) of an inspected Float / Float64 / Float32, or None"""
    cname, suf, _ = FTY[ty]
    t = line.strip()
    pre = "Std::%s::" % cname
    if t.startswith(pre):
        v = {"INF": INF, "NEG_INF": -INF, "NAN": NAN}.get(t[len(pre):])
    else:
        if suf:
            if not t.endswith(suf):
                return None
            t = t[:-len(suf)]
        try:
            v = float(t)
        except ValueError:
            return None
    if v is None:
        return None
    return show_bits(ty == "f32", v)


ELK_SMALL = [0.0, 0.5, 1.0, 3.0, INF]           # both signs, plus the values below: all ordered pairs
ELK_SMALL_EXTRA = [NAN, 2.0, 2.5]
ELK_WIDE64 = [9007199254740991.0, 9007199254740992.0, 4503599627370495.5, 0.1, 1.0 / 3, 1023.0, 5.0, 4.0, 0.25, 1.5,
              1.7976931348623157e308, 5e-324, 2.2250738585072014e-308, 1.0000000000000002, 0.9999999999999999]
ELK_WIDE32 = [16777215.0, 16777216.0, 8388607.5, round32(0.1), round32(1.0 / 3), 127.0, 5.0, 4.0, 0.25, 1.5,
              f32_of_bits(0x7F7FFFFF), f32_of_bits(1), f32_of_bits(0x00800000), f32_of_bits(0x3F800001), f32_of_bits(0x3F7FFFFF)]


def float_elk_stream(ctx, harness, model):
    """`**` and `%` of Float / Float64 / Float32 evaluated by real Elk programs, once with literal
    operands (the compile-time folder) and once with typed locals (the VM opcode); expectation:
    the Coq model on the same bit patterns (Go's math.Pow for ordinary `**` pairs)."""
    stream = "c07.felk"
    elk = vlib.build_elk()
    rng = ctx.rng(stream)
    wd = os.path.join(ctx.workdir, "felk")
    os.makedirs(wd, exist_ok=True)
    small = [s * v for v in ELK_SMALL for s in (1.0, -1.0)] + ELK_SMALL_EXTRA
    plans = []          # (prog id, ty, op, [(a, b)])
    for ty in ("fl", "f64", "f32"):
        wide = small + [s * v for v in (ELK_WIDE32 if ty == "f32" else ELK_WIDE64) for s in (1.0, -1.0)]
        for op in ("pow", "mod"):
            pairs = [(a, b) for a in small for b in small]
            pairs += [(rng.choice(wide), rng.choice(wide)) for _ in range(ctx.n(40, 400))]
            plans.append(("%s_%s" % (ty, op), ty, op, pairs))
    # expectations: harness (value-level result + Go reference) and model on the same cases
    def tobits(ty, x):
        if x != x:
            return "2143289344" if ty == "f32" else "9221120237041090560"
        return show_bits(ty == "f32", x)
    cases = os.path.join(wd, "cases.txt")
    with open(cases, "w") as f:
        for _, ty, op, pairs in plans:
            for a, b in pairs:
                f.write("fp val %s %s %s %s\n" % (ty, op, tobits(ty, a), tobits(ty, b)))
    rc, out = vlib.sh([harness, "-seed", "0", "-n", "0", "-tier", ctx.tier, "-extra", "floatcases", "-input", cases],
                      env=vlib.elk_env(), timeout=600)
    if rc != 0:
        ctx.broke("correspondence %s: harness exited %d" % (stream, rc))
        return
    obs_path = os.path.join(wd, "cases.obs")
    with open(obs_path, "w") as f:
        f.write(out)
    with open(obs_path) as inp:
        mo = subprocess.run([model], stdin=inp, stdout=subprocess.PIPE, stderr=subprocess.PIPE, timeout=600)
    if mo.returncode != 0:
        ctx.broke("correspondence %s: model driver exited %d" % (stream, mo.returncode))
        return
    hl = [l.split("\t") for l in out.splitlines() if l.strip()]
    ml = [l.split("\t") for l in mo.stdout.decode().splitlines() if l.strip()]
    expect = []
    for h, mline in zip(hl, ml):
        e = mline[1] if len(mline) > 1 and mline[0] == h[0] else None
        if e == "nonspecial":
            e = h[3] if len(h) > 3 else None
        expect.append((h[1], e))
    progs = []
    for pid_, ty, op, pairs in plans:
        cname = FTY[ty][0]
        sym = "**" if op == "pow" else "%"
        src = ["var a: %s = %s" % (cname, elk_lit(ty, 1.0)), "var b: %s = %s" % (cname, elk_lit(ty, 1.0))]
        for a, b in pairs:
            la, lb = elk_lit(ty, a), elk_lit(ty, b)
            src.append("println((%s %s %s).inspect)" % (la, sym, lb))
            src.append("a = %s" % la)
            src.append("b = %s" % lb)
            src.append("println((a %s b).inspect)" % sym)
        progs.append((pid_, "\n".join(src) + "\n"))
    res = vlib.run_programs(elk, progs, wd, timeout=60)
    again = [p for p in progs if res[p[0]][2] == "timeout"]
    if again:
        res.update(vlib.run_programs(elk, again, wd, timeout=180))
    total = 0
    distinct = set()
    dist = {}
    samples = []
    reported = {}
    idx = 0
    for pid_, ty, op, pairs in plans:
        rc, out, cls = res[pid_]
        lines = [l for l in out.splitlines() if l.strip()]
        exps = expect[idx: idx + len(pairs)]
        idx += len(pairs)
        if cls != "ok" or len(lines) != 2 * len(pairs):
            ctx.fail("felk:%s:%s:program-%s" % (ty, op, cls), "the Elk program of %d `%s` expressions on %s did not run to completion: %s"
                     % (len(pairs), "**" if op == "pow" else "%", FTY[ty][0], (lines[-1][:200] if lines else "")),
                     stream=stream, case=pid_, impl=cls, model="ok", oracle="every `**` / `%` of two floats of one type evaluates")
            continue
        for i, ((a, b), (inp, exp)) in enumerate(zip(pairs, exps)):
            for form, line in (("folded", lines[2 * i]), ("typed", lines[2 * i + 1])):
                total += 1
                got = parse_inspect(ty, line)
                k0 = "%s %s %s" % (ty, op, form)
                dist[k0] = dist.get(k0, 0) + 1
                distinct.add((inp, form))
                if len(samples) < 3:
                    samples.append({"input": "%s [%s] %s %s %s" % (inp, form, elk_lit(ty, a), "**" if op == "pow" else "%", elk_lit(ty, b)),
                                    "observed": line})
                if exp is None:
                    ctx.broke("correspondence %s: no expectation for %s" % (stream, inp))
                    continue
                if got != exp:
                    k = "felk:" + form + ":" + float_key(inp, got if got is not None else "other", exp)[3:]
                    if reported.get(k, 0) < 2:
                        reported[k] = reported.get(k, 0) + 1
                        ctx.fail(k, "`%s %s %s` (%s, %s operands) prints %s = %s, expected %s" %
                                 (elk_lit(ty, a), "**" if op == "pow" else "%", elk_lit(ty, b), FTY[ty][0], form, line.strip(), got, exp),
                                 stream=stream, case=inp, impl=got, model=exp,
                                 oracle="Elk program result differs from the model (IEEE 754-2008 9.2.1 table / exact remainder / Go math.Pow)")
    ctx.stream(stream, total, len(distinct),
               "`**` and `%` on Float, Float64, Float32 in Elk programs: all ordered pairs of {+-0, +-0.5, +-1, +-3, +-inf, NaN, 2, 2.5} "
               "plus seeded pairs from a wider corner set (largest odd integer, 2^p, largest non-integer, subnormals, extremes, "
               "neighbours of 1), each once with literal operands (compile-time folding) and once through typed locals (VM opcode); "
               "printed results parsed back to bit patterns", samples, dist)


def run(ctx):
    ctx.explanation = (
        "Integers: Coq theorems, generic in width w (1 < w <= 64) and signedness, over ALL values of the type and ALL "
        "integers of every admitted right-operand kind, about a Gallina model that mirrors value/int8.go..uint.go and the four "
        "shift helpers of value/strict_numeric.go case by case (64-bit system): results are in range and congruent mod 2^w; "
        "/ and % truncate with the single MinInt/-1 wrap; division by zero is ZeroDivisionError; shifts mean wrap(a*2^n), "
        "floor(a/2^n), logical variants on the w-bit pattern, reversed for negative n, 0/sign beyond the width; no admitted "
        "operand kind gives TypeError or panic. The model is tied to the Go code by differential streams (value.*Val "
        "dispatchers AND the native methods registered on the Std::IntN classes), and every case is also checked against an "
        "independent Python oracle. Floats: the model's operations are Flocq's binary64/binary32 operations; proved (from "
        "Flocq) that finite non-overflowing + - * / round the exact real result once at the operand's own precision "
        "(binary32 for Float32), comparison is real comparison, Int->Float rounds once. That the Go implementation computes "
        "these functions is differential-tested on bit patterns (NaN payloads canonicalised), not proved. "
        "Float / Float64 / Float32 `%` and the special cases of `**` are INSIDE the claim: `%` has an exact Coq model "
        "(operands aligned to integers, integer remainder, converted back) proved, for every binary format, to satisfy "
        "x = q*y + r with q an integer, |r| < |y|, sign r = sign x (also for a zero result), without any rounding "
        "(C07_float_mod_aligned on integers, fifth clause of C07_float_ieee on the reals); `**` has the table of exceptional "
        "cases of IEEE 754-2008 9.2.1 written on the structure of the operands (pow_special), proved clause by clause and "
        "total on exceptional operands (C07_float_pow_special_table, C07_float_pow_integrality; |x| against 1 and x = +1 are "
        "the real comparisons). Both are tied to the Go code by the c07.float stream (all ordered pairs of a 57-value corner "
        "set per width on every run, through the value dispatchers, the typed methods and the class natives, plus seeded "
        "operands and Float op Int) and by c07.felk (Elk programs: folded literals and typed locals), with an independent "
        "Python oracle (C fmod; a separately written 9.2.1 table). ORDINARY `**` pairs (both operands finite, non-zero, "
        "x > 0 or y an integer) are NOT modelled: the implementation's result is compared with Go's math.Pow evaluated by "
        "the harness itself on the same operands at binary64 and rounded to the width (trusted reference; it is not "
        "correctly rounded, so this is agreement with Go, not with IEEE's recommended pow), plus a loose libm bound "
        "(1e-9 relative, exponents up to 1024) that catches gross errors only. Float->sized-int conversions and to_int of "
        "NaN/Inf are outside the claim.")
    ctx.trusted_base += [
        "Flocq 4.1.0 (IEEE-754 formalisation) and the standard-library real-number axioms it uses",
        "Go's arithmetic on sized integers and float32/float64 as compiled for amd64 (validated by the streams, not proved)",
        "Go's math.Pow as the reference for `**` on ordinary (non-exceptional) operand pairs; Python's math.fmod / math.pow (C libm) "
        "in the independent oracle",
        "the model covers 64-bit systems only (Int64/UInt64 inline, UInt 64 bits wide); the reference-typed Int64/UInt64 "
        "cases of the helpers (32-bit systems) are not exercised",
    ]
    ctx.run_proof_gate()
    h = vlib.build_harness("c07")
    m = vlib.build_model("C07")
    croot = os.path.join(vlib.ROOT, "corpus")
    run_stream(ctx, "c07.int", h, m, ctx.n(8000, 300000), "int", int_oracle, int_key,
               "seeded, boundary-directed: 9 types x {10 binary, 4 unary operators} x {value.*Val dispatcher, class method}, "
               "4 shift operators x 11 right-operand kinds (+ a non-integer) with amounts around 0, +-width, +-64, kind "
               "extremes, beyond 64 bits; same-type shift helpers; thorough adds the exhaustive 8-bit sweep. "
               "distinct = distinct inputs with a non-zero operand",
               corpus=os.path.join(croot, "C07.int.txt"),
               nontrivial=lambda f: any(x not in ("0",) for x in f[4:5]))
    run_stream(ctx, "c07.float", h, m, ctx.n(6000, 500000), "float", float_oracle, float_key,
               "bit patterns: +-0, subnormals, min normal, +-inf, NaNs, max finite, ulp neighbours of powers of two, "
               "moderate exponents, random; Float/Float64/Float32 x + - * / <=> < <= > >= ==; Int->Float, Int64->Float32, "
               "BigInt->Float, Float->Float32, Float32->Float64, finite Float->Int; compared as bit patterns, NaN = 'nan'. "
               "`**` and `%`: on every run ALL ordered pairs of a 57-value corner set per width (+-0, +-1, +-0.5, +-2, odd / even "
               "integers, non-integers, largest non-integer, largest odd integer, 2^p and beyond, subnormals, min normal, max, "
               "ulp neighbours of 1, +-inf, NaN) x {Float, Float64, Float32} x {value.ExponentiateVal/ModuloVal, the typed "
               "methods, the natives `**` `%` (and `**@1` `%@1`) registered on the classes}, then seeded pairs (small integers, "
               "quarters, neighbours of 1, integers around 2^p, moderate magnitudes, random bits) and Float op Int (SmallInt, "
               "BigInt incl. beyond the binary64 range); `**` on ordinary pairs is compared with Go's math.Pow computed by the harness",
               corpus=os.path.join(croot, "C07.float.txt"))
    float_elk_stream(ctx, h, m)
    elk_stream(ctx)
