"""C33 — cancellation stops any running program (verified validator + observed run time)."""
import importlib.util
import json
import os
import re
import vlib

_spec = importlib.util.spec_from_file_location("check_C29_shared", os.path.join(vlib.ROOT, "checks", "C29.py"))
c29 = importlib.util.module_from_spec(_spec)
_spec.loader.exec_module(c29)

ONE_SHOT = ("<methodDefinitions>", "<namespaceDefinitions>", "<ivarIndices>", "<file>")
ONE_SHOT_PREFIX = ("<class:", "<module:", "<mixin:", "<interface:", "<singleton_class:")
LIMIT_MS = 2000


def fname(inp):
    m = re.search(r";name=([^;]*)", inp)
    return m.group(1) if m else "?"


def unit_kind(inp, origin):
    n = fname(inp)
    if n == "<closure>" or n == "<defer>":
        return "closure"
    if n.startswith("<"):
        return "unit" + n
    if "::" in n or ".:" in n or "#" in n:
        return "method"
    return "main"


def tagval(tags, k):
    m = re.search(r"(?:^|[, ])%s=([^, ]*)" % k, tags or "")
    return m.group(1) if m else ""


def static_cases(ctx, stream, ids, inputs, obs, exp, stats, samples, gate=True, inconclusive=None):
    for i in ids:
        inp = inputs[i]
        if inp.startswith("N "):
            stats["programs_rejected_by_checker"] = stats.get("programs_rejected_by_checker", 0) + 1
            continue
        if not inp.startswith("F "):
            continue
        e = exp.get(i)
        if e is None:
            ctx.broke("%s: model gave no verdict for %s" % (stream, i))
            continue
        stats["functions"] += 1
        origin = i.split("#")[0]
        stats["origins"].add(origin)
        body = inp.split(";name=")[0]
        mnb = re.search(r"checks=(\d+)", e)
        if mnb and int(mnb.group(1)) > 0:
            stats["distinct"].add(body)
        if len(samples) < 4 and mnb and int(mnb.group(1)) > 1:
            samples.append({"input": inp[:300], "verdict": e})
        if e.startswith("safe"):
            stats["safe"] += 1
            continue
        kind = unit_kind(inp, origin)
        if e.startswith("unsafe exit") and (fname(inp) in ONE_SHOT or fname(inp).startswith(ONE_SHOT_PREFIX)):
            stats["exit_unchecked_oneshot_units"] += 1
            continue
        if e.startswith("unsafe loop") and e.endswith(" jtf"):
            stats["inconclusive_finally_dispatch"] += 1
            if inconclusive is not None:
                inconclusive.add(origin)
            continue
        if not gate:
            k = "corpus_functions_with_unchecked_loop" if e.startswith("unsafe loop") else "corpus_functions_with_unchecked_return"
            stats[k] = stats.get(k, 0) + 1
            continue
        what = "loop-without-check" if e.startswith("unsafe loop") else \
            ("return-without-check" if e.startswith("unsafe exit") else e.split()[0])
        cont = ":continue" if "continue" in origin else ""
        key = "static:%s:%s%s" % (what, kind, cont)
        tg = obs.get(i, "")
        if tagval(tg, "form"):
            # grid shape: canonical class = loop form x class of the ending (x unit kind when the
            # rejected function is not the one that holds the loop under test)
            key = "static:%s:%s:%s" % (what, tagval(tg, "form"), tagval(tg, "cls"))
        ctx.fail(key,
                 "compiled WITH abort checks, function %s of %s is rejected by the proved validator: %s"
                 % (fname(inp), origin, e),
                 stream=stream, case=inp, impl=obs.get(i, ""), model=e,
                 oracle="every cycle contains CHECK_ABORT/a context-aware opcode; every RETURN/YIELD is preceded by a check")


def run(ctx):
    ctx.level = "translation_validation"
    ctx.explanation = (
        "PROVED (Coq, closed): if `abort_safe f` accepts then (1) every control-flow path of f (ordinary, handler and finally "
        "edges) that visits no CHECK_ABORT, no context-aware blocking opcode (SELECT) and no suspension point (YIELD, "
        "STOP_ITERATION) has at most |f| offsets - so after cancellation fewer than |f|+1 further instructions of f run before "
        "a check; (2) every path from the entry / a resume point to RETURN, RETURN_SELF, RETURN_FIRST_ARG or YIELD passes a "
        "check, so every completed activation has run one (recursion, native-driven iteration). The ranking/reachability "
        "searches are unverified; only their checkers are proved. VALIDATED PER FUNCTION: abort_safe is run on every function "
        "compiled with checker.AdditionalAbortChecks (the REPL's setting) for non-terminating shapes - a grid of 10 contexts x "
        "37 loop forms (loop, while/until incl. single-line, modifier while/until/for-in, fornum with each of the 8 subsets of its "
        "clauses, for-in over range literal/range value/Int/generator/user iterator/pattern/finite collections/fed channel) x "
        "labelled|unlabelled x 35 iteration endings (fallthrough, continue in every syntactic position, continue through "
        "do/finally, continue[label] from nested loops); every run contains the covering design {form x core ending, ending x "
        "family, context x family}, the rest of the grid is sampled; plus recursion, channels, generators, collection-literal "
        "loops - gated - and for the C29 corpus - REPORTED ONLY "
        "(corpus_functions_with_unchecked_loop: the compiler emits bounded internal loops without checks, e.g. the rest-element "
        "loop of list patterns). The theorems are per activation: an endless chain of TAIL CALLS never completes an activation "
        "and is outside them (C33_tailcall_refuted shows an accepted function whose only check follows its tail call; the "
        "dynamic stream finds the hang). NOT PROVED / "
        "LIMITS: the validator is path-insensitive, so functions that use JUMP_TO_FINALLY (break/continue through finally) can "
        "be rejected spuriously - counted as inconclusive_finally_dispatch, not gated statically; EVERY such shape is run and gated "
        "in c33.dynamic (the check breaks if one of them got no dynamic verdict); "
        "RETURN_FINALLY is not treated as a guarded exit; one-shot definition units (<methodDefinitions>, "
        "<namespaceDefinitions>, <ivarIndices>, <file>) end in an unguarded RETURN by design and are only counted; C33_blocking_ops "
        "(model of PushCtx/PopCtx) was not built. OBSERVED ONLY (c33.dynamic): the same programs run in-process on a fresh "
        "vm.Thread whose Aborter context is cancelled after a delay; the run must return Std::ExecutionAbortedError within "
        "%d ms (the property's 'promptly' is wall-clock; the measured cancel-to-return times are reported, the 1 s figure is "
        "not gated). The dynamic stream runs all special shapes, EVERY grid shape with a statically inconclusive function and a "
        "seeded sample of the decided ones; programs share a harness process, any outcome other than aborted is re-run alone "
        "before it is judged. NOT RUN: the four endings that put `continue` inside a catch body / a finally block / after "
        "`defer` (they overrun the VM value stack on their own, with or without abort checks - a separate defect, reported "
        "in grid_shapes_not_run_leaky_endings); they are validated statically only. "
        "Programs that catch the abort error themselves are outside the generated shapes. Blocking natives "
        "without context support (AWAIT_SYNC, sleep, timers) are run and REPORTED in blocking_without_context, not gated." % LIMIT_MS)
    ctx.trusted_base += [
        "hand-written opcode table (harness/cfgx/optable.go): which opcodes are abort checks / context-aware (CHECK_ABORT, SELECT)",
        "modelling of JUMP_TO_FINALLY targets and of handler edges (Base/Cfg.v)",
        "Go scheduler and wall clock in the dynamic stream",
    ]
    h29 = vlib.build_harness("c29")
    h33 = vlib.build_harness("c33")
    for p in c29.regen_table(h29):
        ctx.broke("opcode table: " + p)
    ctx.run_proof_gate()
    m = vlib.build_model("C33")

    # ---------------- shapes (one list for both streams)
    replay_case = (json.load(open(ctx.replay)).get("case") or "") if ctx.replay else None
    shapes = []          # (id, "S src", tags)
    if not ctx.replay:
        rc, out = vlib.sh([h33, "-extra", "shapes", "-n", str(ctx.n(0, 6000)), "-seed", str(ctx.sseed("c33.shapes")),
                           "-repo", vlib.REPO], timeout=600, env=vlib.elk_env())
        ids, inputs, obs = vlib.parse_case_lines(out)
        shapes = [(i, inputs[i], obs[i]) for i in ids]
        if rc != 0 or len(shapes) < 100:
            ctx.broke("c33: shape generator failed (rc=%d, %d shapes)" % (rc, len(shapes)), out[-1000:])
    tags_of = {sid: tags for sid, _, tags in shapes}

    # ---------------- c33.static
    stream = "c33.static"
    stats = {"functions": 0, "safe": 0, "exit_unchecked_oneshot_units": 0, "inconclusive_finally_dispatch": 0,
             "origins": set(), "distinct": set()}
    samples = []
    inconclusive = set()
    corpus = os.path.join(vlib.ROOT, "corpus", "C33.static.txt")
    if ctx.replay:
        tmp = os.path.join(ctx.workdir, "replay_case.txt")
        with open(tmp, "w") as f:
            f.write("r0\t%s\n" % replay_case)
        runs = [(h29, ["-abort", "-extra", "replay", "-input", tmp, "-repo", vlib.REPO])]
    else:
        sfile = os.path.join(ctx.workdir, "static_shapes.txt")
        with open(sfile, "w") as f:
            f.write(open(corpus).read())
            for sid, src, tags in shapes:
                f.write("%s\t%s\t%s\n" % (sid, src, tags))
        runs = [(h33, ["-extra", "static", "-n", "0", "-repo", vlib.REPO, "-input", sfile]),
                (h29, ["-abort", "-extra", "export", "-n", str(ctx.n(25, 1500)), "-seed", str(ctx.sseed(stream + ".c29")),
                       "-repo", vlib.REPO, "-input", os.path.join(vlib.ROOT, "corpus", "C29.verify.txt")]
                 + (["-norepo"] if ctx.quick() else []))]
    for hh, args in runs:
        ids, inputs, obs, exp = c29.run_cases(ctx, hh, m, args)
        # the shapes (and replays) gate; the C29 corpus is reported only: the compiler emits bounded
        # internal loops without checks (e.g. the rest-element loop of list patterns), which a
        # path- and value-insensitive validator cannot tell from user loops
        static_cases(ctx, stream, ids, inputs, obs, exp, stats, samples, gate=(hh == h33 or bool(ctx.replay)),
                     inconclusive=inconclusive if hh == h33 else None)
    nfun = stats["functions"]
    dist = {k: (len(v) if isinstance(v, set) else v) for k, v in stats.items() if k not in ("origins", "distinct")}
    dist["programs"] = len(stats["origins"])
    dist["grid_shapes"] = len([1 for sid in tags_of if "form=" in tags_of[sid]])
    dist["shapes_with_inconclusive_function"] = len(inconclusive)
    for k in ("form", "end", "ctx", "family"):
        dist["grid_distinct_" + k] = len(set(tagval(t, k) for t in tags_of.values() if tagval(t, k)))
    ctx.stream(stream, nfun, len(stats["distinct"]),
               "every BytecodeFunction of every non-terminating shape (grid: context x loop form x label x ending; covering design "
               "on every run), of main.elk.test (std kernel + repository tests) and of "
               "generated programs, all compiled WITH AdditionalAbortChecks; verdict of the extracted abort_safe; non-trivial = "
               "distinct functions containing at least one check node", samples, dist)
    if nfun == 0:
        ctx.broke("c33.static: no function was validated")
    ctx.extra["programs"] = nfun
    ctx.extra["disagreements_checked"] = nfun

    # ---------------- c33.dynamic
    stream = "c33.dynamic"
    if ctx.replay and not replay_case.startswith("S "):
        return
    rng = ctx.rng(stream)
    delays = [20] if ctx.quick() else [5, 50, 200]
    jobs = {}            # jid -> (sid, src, tags, delay)
    must = set()

    def addjob(sid, src, tags, d):
        jobs["%s@%d" % (sid, d)] = (sid, src, tags, d + rng.below(5))

    if ctx.replay:
        addjob("replay", replay_case, "replay gate=true isolate", delays[0])
    else:
        for l in open(os.path.join(vlib.ROOT, "corpus", "C33.dynamic.txt")).read().splitlines():
            p = l.split("\t")
            if len(p) >= 2 and p[1].startswith("S "):
                addjob("corpus:" + p[0], p[1], "corpus gate=true", delays[0])
        # every special shape, every shape the validator could not decide (mandatory), and a seeded
        # sample of the decided ones: each core-ending cell first, then the rest
        # (endings tagged nodyn corrupt the VM's value stack on their own, abort checks or not - see
        # harness/cfgx/loopgrid.go `leaky`; they are validated statically only)
        nodyn = set(sid for sid, _, tags in shapes if "nodyn" in tags)
        for sid in sorted(nodyn & inconclusive):
            ctx.broke("c33: shape %s is neither decided statically nor runnable" % sid)
        grid = [(sid, src, tags) for sid, src, tags in shapes if "form=" in tags and sid not in nodyn]
        chosen = [x for x in shapes if "form=" not in x[2]]
        chosen += [x for x in grid if x[0] in inconclusive]
        must = set(x[0] for x in grid if x[0] in inconclusive)
        rest = [x for x in grid if x[0] not in inconclusive]
        for k in range(len(rest) - 1, 0, -1):
            j = rng.below(k + 1)
            rest[k], rest[j] = rest[j], rest[k]
        chosen += rest[:ctx.n(60, 2500)]
        for sid, src, tags in chosen:
            # thorough: a grid shape gets one of the delays (drawn), the special shapes get all of them
            for d in ([delays[rng.below(len(delays))]] if "form=" in tags else delays):
                addjob(sid, src, tags, d)

    def run_batch(batch):
        """batch = [jid...] with a common delay; returns {jid: outcome} for the programs that got a line"""
        d = jobs[batch[0]][3]
        fn = os.path.join(ctx.workdir, "dyn_%d.txt" % (abs(hash(tuple(batch))) % 10**9))
        with open(fn, "w") as f:
            for jid in batch:
                f.write("%s\t%s\n" % (jid, jobs[jid][1]))
        rc, out = vlib.sh([h33, "-extra", "dyn", "-input", fn, "-delay", str(d), "-limit", str(LIMIT_MS), "-repo", vlib.REPO],
                          timeout=45 + 4 * len(batch), env=vlib.elk_env())
        try:
            os.remove(fn)
        except OSError:
            pass
        res = {}
        for l in out.splitlines():
            p = l.split("\t")
            if len(p) >= 3 and p[1].startswith("S ") and p[0] in jobs:
                res[p[0]] = p[2]
        if rc != 0:
            # the process died (fatal runtime error) or was killed by the timeout: the first program
            # without a line is the one that was running (the harness flushes after every program)
            for jid in batch:
                if jid not in res:
                    res[jid] = "process-died rc=%d %s" % (rc, " ".join(out[-400:].split()))[:300]
                    break
        return res

    # programs that spawn threads / are expected to block run alone; the others share a process
    # (start-up dominates the cost).  The harness stops a batch at the first outcome that is not
    # aborted/rejected, the remainder is re-submitted; such an outcome is then CONFIRMED by a run
    # of that program alone in a fresh process, and only the confirmed outcome is judged.
    results = {}
    pending = list(jobs)
    rounds = 0
    while pending and rounds < 60:
        rounds += 1
        solo = [[j] for j in pending if "isolate" in jobs[j][2] or "native-no-context" in jobs[j][2]]
        shared = {}
        for j in pending:
            if [j] not in solo:
                shared.setdefault(jobs[j][3], []).append(j)
        batches = solo
        for d, js in sorted(shared.items()):
            size = max(4, min(24, (len(js) + 5) // 6))
            batches += [js[k:k + size] for k in range(0, len(js), size)]
        for res in vlib.parallel_map(run_batch, batches, workers=6):
            results.update(res)
        pending = [j for j in pending if j not in results]
    for j in pending:
        results[j] = "no-output (never reached)"
    suspects = [j for j, r in results.items()
                if not (r.startswith("aborted") or r.startswith("rejected")) and "isolate" not in jobs[j][2]
                and "native-no-context" not in jobs[j][2]]
    for res in vlib.parallel_map(run_batch, [[j] for j in suspects], workers=6):
        results.update(res)

    dist = {"confirmed_alone": len(suspects), "batch_rounds": rounds,
            "grid_shapes_not_run_leaky_endings": len(nodyn) if not ctx.replay else 0}
    times = []
    nogate = {}
    distinct = set()
    samples = []
    verdict_of = {}
    for jid in jobs:
        sid, src, tags, d = jobs[jid]
        res = results[jid]
        outcome = res.split(" cancel_to_return_ms")[0]
        cls = outcome.split()[0]
        mt = re.search(r"cancel_to_return_ms=(\d+)", res)
        gate = "gate=true" in tags
        if not gate:
            nogate[sid] = res
            continue
        dist[cls] = dist.get(cls, 0) + 1
        distinct.add(src)
        verdict_of.setdefault(sid, cls)
        if cls == "aborted":
            if mt:
                times.append(int(mt.group(1)))
            if len(samples) < 3:
                samples.append({"shape": sid, "delay_ms": d, "observed": res})
            continue
        if cls == "rejected":
            continue
        ctxk = sid.split("/")[0] if "/" in sid else sid
        cont = ":continue" if "continue" in sid else ""
        key = "dynamic:%s:%s%s" % (cls, ctxk, cont)
        if tagval(tags, "form"):
            key = "dynamic:%s:%s:%s" % (cls, tagval(tags, "form"), tagval(tags, "cls"))
        ctx.fail(key,
                 "shape %s, cancelled after %d ms: %s (expected Std::ExecutionAbortedError within %d ms)" % (sid, d, res, LIMIT_MS),
                 stream=stream, case=src, impl=res, model="aborted",
                 oracle="a cancelled program stops with ExecutionAbortedError")
    if dist.get("rejected", 0) * 20 > len(jobs):
        ctx.broke("c33.dynamic: %d of %d shapes no longer compile" % (dist["rejected"], len(jobs)))
    missing = sorted(x for x in must if verdict_of.get(x, "rejected") == "rejected")
    if missing:
        ctx.broke("c33.dynamic: %d shapes the validator could not decide got no dynamic verdict" % len(missing), ", ".join(missing[:20]))
    dist["statically_inconclusive_shapes_gated_here"] = len(must) - len(missing)
    dist["cancel_to_return_ms_max"] = max(times) if times else None
    dist["cancel_to_return_ms_over_1000"] = len([t for t in times if t > 1000])
    dist["delays_ms"] = delays
    ngated = len([1 for j in jobs if "gate=true" in jobs[j][2]])
    ctx.stream(stream, ngated, len(distinct),
               "non-terminating shapes (all special shapes, EVERY grid shape with a statically inconclusive function, a seeded "
               "sample of the others) compiled with abort checks and run in-process on a fresh vm.Thread; context cancelled after "
               "the delay; outcome class + cancel-to-return time; programs share a process, every outcome other than aborted is "
               "confirmed by a run alone in a fresh process; non-trivial = distinct sources",
               samples, dist)
    ctx.extra["blocking_without_context"] = nogate
