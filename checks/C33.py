"""C33 — cancellation stops any running program (verified validator + observed run time)."""
import importlib.util
import json
import os
import re
import vlib

_spec = importlib.util.spec_from_file_location("check_C29_shared", os.path.join(vlib.ROOT, "checks", "C29.py"))
c29 = importlib.util.module_from_spec(_spec)
_spec.loader.exec_module(c29)

ONE_SHOT = ("<methodDefinitions>", "<namespaceDefinitions>", "<ivarIndices>", "<file>")
ONE_SHOT_PREFIX = ("<class:", "<module:", "<mixin:", "<interface:", "<singleton_class:")
LIMIT_MS = 2000


def fname(inp):
    m = re.search(r";name=([^;]*)", inp)
    return m.group(1) if m else "?"


def unit_kind(inp, origin):
    n = fname(inp)
    if n == "<closure>" or n == "<defer>":
        return "closure"
    if n.startswith("<"):
        return "unit" + n
    if "::" in n or ".:" in n or "#" in n:
        return "method"
    return "main"


def tagval(tags, k):
    m = re.search(r"(?:^|[, ])%s=([^, ]*)" % k, tags or "")
    return m.group(1) if m else ""


def static_cases(ctx, stream, ids, inputs, obs, exp, stats, samples, gate=True, inconclusive=None):
    for i in ids:
        inp = inputs[i]
        if inp.startswith("N "):
            stats["programs_rejected_by_checker"] = stats.get("programs_rejected_by_checker", 0) + 1
            continue
        if not inp.startswith("F "):
            continue
        e = exp.get(i)
        if e is None:
            ctx.broke("%s: model gave no verdict for %s" % (stream, i))
            continue
        stats["functions"] += 1
        origin = i.split("#")[0]
        stats["origins"].add(origin)
        body = inp.split(";name=")[0]
        mnb = re.search(r"checks=(\d+)", e)
        if mnb and int(mnb.group(1)) > 0:
            stats["distinct"].add(body)
        if len(samples) < 4 and mnb and int(mnb.group(1)) > 1:
            samples.append({"input": inp[:300], "verdict": e})
        if e.startswith("safe"):
            stats["safe"] += 1
            continue
        kind = unit_kind(inp, origin)
        if e.startswith("unsafe exit") and (fname(inp) in ONE_SHOT or fname(inp).startswith(ONE_SHOT_PREFIX)):
            stats["exit_unchecked_oneshot_units"] += 1
            continue
        if e.startswith("unsafe loop") and e.endswith(" jtf"):
            stats["inconclusive_finally_dispatch"] += 1
            if inconclusive is not None:
                inconclusive.add(origin)
            continue
        if not gate:
            k = "corpus_functions_with_unchecked_loop" if e.startswith("unsafe loop") else "corpus_functions_with_unchecked_return"
            stats[k] = stats.get(k, 0) + 1
            continue
        what = "loop-without-check" if e.startswith("unsafe loop") else \
            ("return-without-check" if e.startswith("unsafe exit") else e.split()[0])
        cont = ":continue" if "continue" in origin else ""
        key = "static:%s:%s%s" % (what, kind, cont)
        tg = obs.get(i, "")
        if tagval(tg, "form"):
            # grid shape: canonical class = loop form x class of the ending (x unit kind when the
            # rejected function is not the one that holds the loop under test)
            key = "static:%s:%s:%s" % (what, tagval(tg, "form"), tagval(tg, "cls"))
        ctx.fail(key,
                 "compiled WITH abort checks, function %s of %s is rejected by the proved validator: %s"
                 % (fname(inp), origin, e),
                 stream=stream, case=inp, impl=obs.get(i, ""), model=e,
                 oracle="every cycle contains CHECK_ABORT/a context-aware opcode; every RETURN/YIELD is preceded by a check")


def run(ctx):
    ctx.level = "translation_validation"
    ctx.explanation = (
        "PROVED (Coq, closed): if `abort_safe f` accepts then (1) every control-flow path of f (ordinary, handler and finally "
        "edges) that visits no CHECK_ABORT, no context-aware blocking opcode (SELECT) and no suspension point (YIELD, "
        "STOP_ITERATION) has at most |f| offsets - so after cancellation fewer than |f|+1 further instructions of f run before "
        "a check; (2) every path from the entry / a resume point to RETURN, RETURN_SELF, RETURN_FIRST_ARG or YIELD passes a "
        "check, so every completed activation has run one (recursion, native-driven iteration). The ranking/reachability "
        "searches are unverified; only their checkers are proved. VALIDATED PER FUNCTION: abort_safe is run on every function "
        "compiled with checker.AdditionalAbortChecks (the REPL's setting) for non-terminating shapes - a grid of 10 contexts x "
        "38 loop forms (loop, while/until incl. single-line, modifier while/until/for-in, fornum with each of the 8 subsets of its "
        "clauses, for-in over range literal/range value/Int/generator/user iterator/pattern/finite collections/fed channel) x "
        "labelled|unlabelled x 36 iteration endings (fallthrough, continue in every syntactic position, continue through "
        "do/finally, continue[label] from nested loops); every run contains the covering design {form x core ending, ending x "
        "family, context x family}, the rest of the grid is sampled; plus recursion, channels, generators, collection-literal "
        "loops - gated - and for the C29 corpus - REPORTED ONLY "
        "(corpus_functions_with_unchecked_loop: the compiler emits bounded internal loops without checks, e.g. the rest-element "
        "loop of list patterns). The theorems are per activation: an endless chain of TAIL CALLS never completes an activation "
        "and is outside them (C33_tailcall_refuted shows an accepted function whose only check follows its tail call; the "
        "dynamic stream finds the hang). NOT PROVED / "
        "LIMITS: the validator is path-insensitive, so functions that use JUMP_TO_FINALLY (break/continue through finally) can "
        "be rejected spuriously - counted as inconclusive_finally_dispatch, not gated statically; EVERY such shape is run and gated "
        "in c33.dynamic (the check breaks if one of them got no dynamic verdict); "
        "RETURN_FINALLY is not treated as a guarded exit; one-shot definition units (<methodDefinitions>, "
        "<namespaceDefinitions>, <ivarIndices>, <file>) end in an unguarded RETURN by design and are only counted; C33_blocking_ops "
        "(model of PushCtx/PopCtx) was not built. OBSERVED ONLY (c33.dynamic): the same programs run in-process on a fresh "
        "vm.Thread whose Aborter context is cancelled after a delay; the run must return Std::ExecutionAbortedError within "
        "%d ms (the property's 'promptly' is wall-clock; the measured cancel-to-return times are reported, the 1 s figure is "
        "not gated). Programs that catch the abort error themselves are outside the generated shapes. Blocking natives "
        "without context support (AWAIT_SYNC, sleep, timers) are run and REPORTED in blocking_without_context, not gated." % LIMIT_MS)
    ctx.trusted_base += [
        "hand-written opcode table (harness/cfgx/optable.go): which opcodes are abort checks / context-aware (CHECK_ABORT, SELECT)",
        "modelling of JUMP_TO_FINALLY targets and of handler edges (Base/Cfg.v)",
        "Go scheduler and wall clock in the dynamic stream",
    ]
    h29 = vlib.build_harness("c29")
    h33 = vlib.build_harness("c33")
    for p in c29.regen_table(h29):
        ctx.broke("opcode table: " + p)
    ctx.run_proof_gate()
    m = vlib.build_model("C33")

    # ---------------- c33.static
    stream = "c33.static"
    stats = {"functions": 0, "safe": 0, "exit_unchecked_oneshot_units": 0, "inconclusive_finally_dispatch": 0,
             "origins": set(), "distinct": set()}
    samples = []
    corpus = os.path.join(vlib.ROOT, "corpus", "C33.static.txt")
    if ctx.replay:
        rp = json.load(open(ctx.replay))
        tmp = os.path.join(ctx.workdir, "replay_case.txt")
        with open(tmp, "w") as f:
            f.write("r0\t%s\n" % (rp.get("case") or ""))
        runs = [(h29, ["-abort", "-extra", "replay", "-input", tmp, "-repo", vlib.REPO])]
    else:
        runs = [(h33, ["-extra", "static", "-n", str(ctx.n(220, 100000)), "-seed", str(ctx.sseed(stream)),
                       "-repo", vlib.REPO, "-input", corpus]),
                (h29, ["-abort", "-extra", "export", "-n", str(ctx.n(25, 1500)), "-seed", str(ctx.sseed(stream + ".c29")),
                       "-repo", vlib.REPO, "-input", os.path.join(vlib.ROOT, "corpus", "C29.verify.txt")]
                 + (["-norepo"] if ctx.quick() else []))]
    for hh, args in runs:
        ids, inputs, obs, exp = c29.run_cases(ctx, hh, m, args)
        # the shapes (and replays) gate; the C29 corpus is reported only: the compiler emits bounded
        # internal loops without checks (e.g. the rest-element loop of list patterns), which a
        # path- and value-insensitive validator cannot tell from user loops
        static_cases(ctx, stream, ids, inputs, obs, exp, stats, samples, gate=(hh == h33 or bool(ctx.replay)))
    nfun = stats["functions"]
    dist = {k: (len(v) if isinstance(v, set) else v) for k, v in stats.items() if k not in ("origins", "distinct")}
    dist["programs"] = len(stats["origins"])
    ctx.stream(stream, nfun, len(stats["distinct"]),
               "every BytecodeFunction of every non-terminating shape, of main.elk.test (std kernel + repository tests) and of "
               "generated programs, all compiled WITH AdditionalAbortChecks; verdict of the extracted abort_safe; non-trivial = "
               "distinct functions containing at least one check node", samples, dist)
    if nfun == 0:
        ctx.broke("c33.static: no function was validated")
    ctx.extra["programs"] = nfun
    ctx.extra["disagreements_checked"] = nfun

    # ---------------- c33.dynamic
    stream = "c33.dynamic"
    if ctx.replay and not (json.load(open(ctx.replay)).get("case") or "").startswith("S "):
        return
    if ctx.replay:
        shapes = [("replay", json.load(open(ctx.replay))["case"], "replay gate=true")]
    else:
        rc, out = vlib.sh([h33, "-extra", "shapes", "-n", str(ctx.n(70, 100000)), "-seed", str(ctx.sseed(stream)),
                           "-repo", vlib.REPO], timeout=300, env=vlib.elk_env())
        ids, inputs, obs = vlib.parse_case_lines(out)
        shapes = [(i, inputs[i], obs[i]) for i in ids]
        for j, l in enumerate(open(os.path.join(vlib.ROOT, "corpus", "C33.dynamic.txt")).read().splitlines()):
            p = l.split("\t")
            if len(p) >= 2 and p[1].startswith("S "):
                shapes.insert(0, ("corpus:" + p[0], p[1], "corpus gate=true"))
    delays = [20] if ctx.quick() else [5, 50, 200]
    rng = ctx.rng(stream)
    jobs = []
    for sid, src, tags in shapes:
        for d in delays:
            jobs.append((sid, src, tags, d + rng.below(5)))

    def one(job):
        sid, src, tags, d = job
        fn = os.path.join(ctx.workdir, "dyn_%d.txt" % (abs(hash((sid, d))) % 10**9))
        with open(fn, "w") as f:
            f.write("x\t%s\n" % src)
        rc, out = vlib.sh([h33, "-extra", "dyn", "-input", fn, "-delay", str(d), "-limit", str(LIMIT_MS), "-repo", vlib.REPO],
                          timeout=60, env=vlib.elk_env())
        try:
            os.remove(fn)
        except OSError:
            pass
        res = "no-output rc=%d %s" % (rc, out[-200:].replace("\n", " "))
        for l in out.splitlines():
            p = l.split("\t")
            if len(p) >= 3 and p[1].startswith("S "):
                res = p[2]
        return job, res

    results = vlib.parallel_map(one, jobs, workers=6)
    dist = {}
    times = []
    nogate = {}
    distinct = set()
    samples = []
    for (sid, src, tags, d), res in results:
        outcome = res.split(" cancel_to_return_ms")[0]
        cls = outcome.split()[0]
        mt = re.search(r"cancel_to_return_ms=(\d+)", res)
        gate = "gate=true" in tags
        if not gate:
            nogate[sid] = res
            continue
        dist[cls] = dist.get(cls, 0) + 1
        distinct.add(src)
        if cls == "aborted":
            if mt:
                times.append(int(mt.group(1)))
            if len(samples) < 3:
                samples.append({"shape": sid, "delay_ms": d, "observed": res})
            continue
        if cls == "rejected":
            continue
        ctxk = sid.split("/")[0] if "/" in sid else sid
        cont = ":continue" if "continue" in sid else ""
        ctx.fail("dynamic:%s:%s%s" % (cls, ctxk, cont),
                 "shape %s, cancelled after %d ms: %s (expected Std::ExecutionAbortedError within %d ms)" % (sid, d, res, LIMIT_MS),
                 stream=stream, case=src, impl=res, model="aborted",
                 oracle="a cancelled program stops with ExecutionAbortedError")
    dist["cancel_to_return_ms_max"] = max(times) if times else None
    dist["cancel_to_return_ms_over_1000"] = len([t for t in times if t > 1000])
    dist["delays_ms"] = delays
    ctx.stream(stream, len([1 for (j, r) in results if "gate=true" in j[2]]), len(distinct),
               "each non-terminating shape compiled with abort checks and run in-process (one subprocess per run) on a fresh "
               "vm.Thread; context cancelled after the delay; outcome class + cancel-to-return time; non-trivial = distinct sources",
               samples, dist)
    ctx.extra["blocking_without_context"] = nogate
