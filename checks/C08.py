"""C08 — results do not depend on which evaluation path the compiler chose."""
import importlib.util
import math
import os
import struct
import vlib

OPSYM = {"add": "+", "sub": "-", "mul": "*", "div": "/", "mod": "%", "pow": "**", "lt": "<", "le": "<=",
         "gt": ">", "ge": ">=", "eq": "==", "shl": "<<", "shr": ">>", "and": "&", "or": "|", "xor": "^", "andnot": "&~"}
ARITH = ("add", "sub", "mul", "div", "mod", "pow")
CMP = ("lt", "le", "gt", "ge", "eq")
INTONLY = ("shl", "shr", "and", "or", "xor", "andnot")
VARIANTS = ("lit", "typed", "union", "call", "ucall")


def fbits(x):
    return struct.unpack("<Q", struct.pack("<d", x))[0]


def flit(x):
    s = format(x, "f")
    return s if x >= 0 else "(%s)" % s


def ilit(z):
    return str(z) if z >= 0 else "(%d)" % z


def lit(k, v):
    return ilit(v) if k == "I" else flit(v)


def kclass(k, v):
    if k == "F":
        return "F" + ("neg" if v < 0 else "zero" if v == 0 else "pos")
    return ("S" if -2 ** 63 <= v < 2 ** 63 else "B") + ("neg" if v < 0 else "zero" if v == 0 else "pos")


def gen_int(r):
    c = r.below(4)
    if c == 0:
        return r.range(-20, 20)
    if c == 1:
        z = 2 ** r.choice([7, 31, 53, 62, 63, 64, 65, 100]) + r.range(-2, 2)
        return -z if r.chance(1, 2) else z
    z = 0
    bits = r.range(1, 140)
    for _ in range((bits + 63) // 64):
        z = (z << 64) | r.next()
    z >>= ((bits + 63) // 64) * 64 - bits
    return -z if r.chance(1, 2) else z


def gen_float(r):
    """dyadic rationals m / 2^e (e <= 6): exactly representable and exactly printable with %f"""
    m = r.range(-2 ** r.range(1, 40), 2 ** r.range(1, 40))
    x = m / float(2 ** r.range(0, 6))
    return x if x != 0 else 0.5


def gen_case(r):
    lk = r.choice(["I", "I", "F"])
    rk = r.choice(["I", "I", "F"])
    if lk == "I" and rk == "I":
        op = r.choice(ARITH + CMP + INTONLY + ("shl", "shr"))
    else:
        op = r.choice(ARITH + CMP + ("sub", "lt", "le"))
    a = gen_int(r) if lk == "I" else gen_float(r)
    b = gen_int(r) if rk == "I" else gen_float(r)
    if op in ("div", "mod") and b == 0:
        b = 3 if rk == "I" else 1.5
    if op == "pow":
        if lk == "I" and rk == "I":
            b = r.range(0, 40)
            a = a if abs(a) < 2 ** 33 else r.range(-9, 9)
        else:       # keep float powers finite and small
            a = r.range(1, 9) if lk == "I" else abs(r.range(1, 64)) / 4.0
            b = r.range(-3, 6) if rk == "I" else r.range(-8, 12) / 4.0
    if op in ("shl", "shr"):
        b = r.choice([r.range(-3, 3), r.range(-70, 70), r.range(-150, 150), r.choice([63, 64, 65, -63, -64, -65])])
    if op in CMP and r.chance(1, 4):
        b = a
        rk = lk
    return op, lk, a, rk, b


def variant_code(i, v, op, lk, a, rk, b):
    """one println per (case, variant): '<i> <variant> <inspect of the result>'"""
    sym = OPSYM[op]
    ty = {"I": "Int", "F": "Float"}
    n = "%s%d" % (v[:2], i)
    if v == "lit":
        return 'println("%d lit " + (%s %s %s).inspect)\n' % (i, lit(lk, a), sym, lit(rk, b))
    if v == "typed":
        return ('var x%s: %s = %s\nvar y%s: %s = %s\nprintln("%d typed " + (x%s %s y%s).inspect)\n'
                % (n, ty[lk], lit(lk, a), n, ty[rk], lit(rk, b), i, n, sym, n))
    if v in ("union", "ucall"):
        if op in ("and", "or", "xor", "andnot"):
            return None           # no union of builtin types admits these operators
        if op in ("shl", "shr"):
            lt, rt = "Int | Int64", "Int"
        else:
            lt = rt = "Int | Float"
        if v == "ucall":          # a.op(b) on union-typed operands: resolved at run time
            return ('var x%s: %s = %s\nvar y%s: %s = %s\nprintln("%d ucall " + x%s.%s(y%s).inspect)\n'
                    % (n, lt, lit(lk, a), n, rt, lit(rk, b), i, n, sym, n))
        return ('var x%s: %s = %s\nvar y%s: %s = %s\nprintln("%d union " + (x%s %s y%s).inspect)\n'
                % (n, lt, lit(lk, a), n, rt, lit(rk, b), i, n, sym, n))
    if v == "call":
        return ('var x%s: %s = %s\nvar y%s: %s = %s\nprintln("%d call " + x%s.%s(y%s).inspect)\n'
                % (n, ty[lk], lit(lk, a), n, ty[rk], lit(rk, b), i, n, sym, n))


def canon(s):
    """elk inspect output -> the model's vocabulary"""
    if s in ("true", "false"):
        return "B " + s
    try:
        return "I %d" % int(s)
    except ValueError:
        pass
    if s == "ZDE":
        return "err 1"
    s = {"Std::Float::INF": "inf", "Std::Float::NEG_INF": "-inf", "Std::Float::NAN": "nan"}.get(s, s)
    try:
        x = float(s.replace("Inf", "inf").replace("NaN", "nan"))
    except ValueError:
        return "? " + s
    return "F nan" if x != x else "F %d" % fbits(x)


def canon_model(s):
    """the model prints NaN with whatever payload OCaml produced: every NaN is one value"""
    if s.startswith("F "):
        b = int(s[2:])
        if (b >> 52) & 0x7ff == 0x7ff and b & ((1 << 52) - 1):
            return "F nan"
    return s


# ---------------------------------------------------------------- c08.grid: exhaustive corner grid
GRIDV = ("lit", "typed", "union", "call", "ucall")
SHIFT_EXTRA = [s * n for n in (31, 32, 62, 63, 64, 65, 66) for s in (1, -1)]
POW_EXTRA = [3, 31, 32, 62, 63, 64, 65]


def int_corners(bases, ds):
    """0, +-1, +-2 and +-(2^k + d): the values around which the small/big representation, the
    int32/int64 width and the float53 precision change"""
    out = [0, 1, -1, 2, -2]
    for k in bases:
        for d in ds:
            for z in (2 ** k + d, -(2 ** k + d)):
                if z not in out:
                    out.append(z)
    return out


def float_corners(full):
    pos = [0.0, 1.5, 2.0 ** 53 - 1, 2.0 ** 53, 2.0 ** 53 + 2, 2.0 ** 63]
    if full:
        pos += [0.5, 2.0 ** 31, 2.0 ** 63 + 2048, 2.0 ** 64]
    neg = [-x for x in pos] if full else [-0.0, -1.5, -(2.0 ** 53), -(2.0 ** 63)]
    return pos + neg


def isneg(x):
    return math.copysign(1.0, x) < 0 if isinstance(x, float) else x < 0


def glit(k, v):
    t = str(v) if k == "I" else format(v, "f")
    return "(%s)" % t if isneg(v) else t


def grid_admissible(op, lk, a, rk, b):
    """the exact result must be small enough to compute: Int ** Int needs |a| <= 1 or b <= 66; an
    effective left shift of a non-zero Int by 200 < n < 2^63 bits is left out (amounts that do not
    fit a SmallInt are fine: the implementation answers 0 / sign fill without shifting)"""
    if lk == "I" and rk == "I":
        if op == "pow":
            return abs(a) <= 1 or b <= 66
        if op in ("shl", "shr"):
            n = b if op == "shl" else -b
            return a == 0 or not (200 < n < 2 ** 63)
    return True


def grid_cases(full):
    """every operator on every ordered pair of corner operands (Int x Int: 17 operators; pairs with
    a Float: the 11 arithmetic/comparison operators)"""
    ints = int_corners((31, 32, 63, 64), (-2, -1, 0, 1, 2))
    mixed_ints = int_corners((53, 63, 64), (-2, -1, 0, 1, 2) if full else (-1, 0, 1))
    floats = float_corners(full)
    cases = []
    for op in ARITH + CMP + INTONLY:
        rights = ints + (SHIFT_EXTRA if op in ("shl", "shr") else POW_EXTRA if op == "pow" else [])
        for a in ints:
            for b in rights:
                if grid_admissible(op, "I", a, "I", b):
                    cases.append((op, "I", a, "I", b))
    for op in ARITH + CMP:
        for a in mixed_ints:
            for f in floats:
                cases.append((op, "I", a, "F", f))
                cases.append((op, "F", f, "I", a))
        for f in floats:
            for g in floats:
                cases.append((op, "F", f, "F", g))
    return cases


class GridLocals:
    """one declaration per (operand, static type) used in a program; -0.0 is computed at run time
    (a literal -0.0 is emitted as FLOAT_0, see known finding negzero-result)"""

    def __init__(self):
        self.names, self.decls = {}, []

    def get(self, kind, v, ty):
        key = (kind, ty, repr(v))
        if key not in self.names:
            n = "%s%d" % ({"Int": "t", "Float": "f", "Int | Float": "u", "Int | Int64": "s"}[ty], len(self.names))
            if kind == "F" and v == 0 and isneg(v):
                if "zf" not in self.names:
                    self.names["zf"] = "zf"
                    self.decls.append("var zf: Float = 0.0")
                init = "zf * (-1.0)"
            else:
                init = glit(kind, v)
            self.decls.append("var %s: %s = %s" % (n, ty, init))
            self.names[key] = n
        return self.names[key]


def grid_stmt(k, v, case, loc):
    """one statement printing exactly one line '<k> <variant> <inspect | ZDE>', or None when the
    variant does not exist for the case"""
    op, lk, a, rk, b = case
    sym = OPSYM[op]
    ty = {"I": "Int", "F": "Float"}
    if v == "lit":
        expr = "(%s %s %s)" % (glit(lk, a), sym, glit(rk, b))
    elif v in ("typed", "call"):
        if v == "typed" and op == "eq" and lk == "F":
            return None     # EQUAL_INT on a Float: SIGSEGV (known finding eq:F/*:variant-crash:typed, corpus witness)
        x, y = loc.get(lk, a, ty[lk]), loc.get(rk, b, ty[rk])
        expr = "(%s %s %s)" % (x, sym, y) if v == "typed" else "%s.%s(%s)" % (x, sym, y)
    else:
        if op in ("and", "or", "xor", "andnot"):
            return None     # no union of builtin types admits these operators
        if op in ("shl", "shr"):
            x, y = loc.get(lk, a, "Int | Int64"), loc.get(rk, b, "Int")
        else:
            x, y = loc.get(lk, a, "Int | Float"), loc.get(rk, b, "Int | Float")
        expr = "(%s %s %s)" % (x, sym, y) if v == "union" else "%s.%s(%s)" % (x, sym, y)
    line = 'println("%d %s " + %s.inspect)' % (k, v, expr)
    if op in ("div", "mod") and rk == "I" and b == 0:
        line = 'do\n  %s\ncatch ZeroDivisionError() as e\n  println("%d %s ZDE")\nend' % (line, k, v)
    return line


def run_resumable(elk, batches, wd, variants, timeout, max_rounds=6):
    """batches: [(name, [(key, stmt)], locals)]. Runs every batch as one program; when a program
    dies, the first statement without an output line is blamed (CRASH:...) and the rest of the
    batch is run again. Returns (got, programs_run, not_isolated, log)."""
    got, nprog, lost, log = {}, 0, 0, []
    pending = list(batches)
    for rnd in range(max_rounds + 1):
        if not pending:
            break
        progs = [(name, "\n".join(decls) + "\n" + "\n".join(st for _, st in stmts) + "\n") for name, stmts, decls in pending]
        res = vlib.run_programs(elk, progs, wd, timeout=timeout)
        nprog += len(progs)
        nxt = []
        for name, stmts, decls in pending:
            rc_, out, cls = res[name]
            seen = set()
            for l in out.splitlines():
                f = l.split(" ")
                if len(f) == 3 and f[0].isdigit() and f[1] in variants:
                    got[(int(f[0]), f[1])] = f[2]
                    seen.add((int(f[0]), f[1]))
            if cls == "ok":
                continue
            i = next((i for i, (key, _) in enumerate(stmts) if key not in seen), None)
            if i is None:
                continue
            msg = next((x for x in out.splitlines() if "panic" in x or "rror" in x or "FAIL" in x or "signal" in x), out[-160:])
            compile_error = not seen and "[FAIL]" in out and "Stack trace" not in out     # nothing ran: not a crash
            if cls == "timeout" or rnd == max_rounds or compile_error:
                lost += len(stmts) - i
                log.append("%s: %s after %d statements: %s" % (name, cls, i, msg.strip()[:300]))
                continue
            got[stmts[i][0]] = "CRASH:" + cls + ":" + msg.strip()[:120].replace(" ", "_")
            if i + 1 < len(stmts):
                nxt.append(("%sr%d" % (name.split("r")[0], rnd + 1), stmts[i + 1:], decls))
        pending = nxt
    return got, nprog, lost, log


def grid_key(case, outs, vals, model):
    """canonical class of a failing grid case, or None"""
    op, lk, a, rk, b = case
    cls = "eq:%s/%s" % (lk, rk) if op == "eq" else "%s:%s/%s" % (op, kclass(lk, a), kclass(rk, b))
    crashed = sorted(v for v, o in outs.items() if o.startswith("CRASH:"))
    if crashed:
        return cls + ":variant-crash:" + "+".join(crashed), "variants %s crash (%s)" % (crashed, outs[crashed[0]])
    if len(set(vals.values())) > 1:
        ref = vals.get("union", vals.get("typed", vals.get("call")))
        odd = sorted(v for v, o in vals.items() if o != ref)
        if odd == ["lit"] and ref == "F %d" % fbits(-0.0) and vals["lit"] == "F 0":
            return ("negzero-result:variants-differ:lit",
                    "the constant-folded form prints 0.0, every run-time form prints -0.0: %s" % outs)
        return cls + ":variants-differ:" + "+".join(odd), "outputs differ between variants: %s" % outs
    if not (op == "pow" and "F" in (lk, rk)) and set(vals.values()) != {model}:
        return cls + ":model-differs", "all variants print %s, model says %s" % (sorted(set(outs.values())), model)
    return None


def grid_stream(ctx, m, elk):
    stream = "c08.grid"
    cases = grid_cases(not ctx.quick())
    ids = [str(i) for i in range(len(cases))]
    inputs = {str(i): "%s %s %s %s %s" % (c[0], c[1], c[2] if c[1] == "I" else fbits(c[2]), c[3], c[4] if c[3] == "I" else fbits(c[4]))
              for i, c in enumerate(cases)}
    # 0, 1, -1 to a huge power: Coq's Z.pow iterates the exponent, so these few are evaluated here
    direct = {str(i): "I %d" % (1 if c[4] <= 0 else pow(c[2], c[4])) for i, c in enumerate(cases)
              if c[0] == "pow" and c[1] == "I" and c[3] == "I" and c[4] > 66}
    mids = [i for i in ids if i not in direct]
    parts = vlib.parallel_map(lambda ch: vlib.run_model(m, ch, inputs, timeout=900), [mids[j::8] for j in range(8)], 8)
    model = {}
    for rc, mo, mout in parts:
        model.update(mo)
        if rc != 0:
            ctx.broke("c08.grid: model driver failed", mout[-2000:])
            return
    if len(model) != len(mids):
        ctx.broke("c08.grid: model driver answered %d of %d cases" % (len(model), len(mids)))
        return
    model.update(direct)
    bad_model = [i for i in ids if model[i].startswith(("paths-disagree", "model-failure", "bad-input"))]
    if bad_model:
        ctx.broke("c08.grid: the extracted paths disagree with each other (contradicts the theorems)",
                  "\n".join("%s -> %s" % (inputs[i], model[i]) for i in bad_model[:20]))
    CH = 1000
    batches = []
    for p0 in range(0, len(cases), CH):
        loc, stmts = GridLocals(), []
        for k in range(p0, min(p0 + CH, len(cases))):
            for v in GRIDV:
                st = grid_stmt(k, v, cases[k], loc)
                if st:
                    stmts.append(((k, v), st))
        batches.append(("g%d" % p0, stmts, loc.decls))
    got, nprog, lost, log = run_resumable(elk, batches, os.path.join(ctx.workdir, "grid"), GRIDV, timeout=900)
    if lost:
        ctx.broke("c08.grid: %d statements could not be run (program died or timed out and was not isolated)" % lost,
                  "\n".join(log[:20]))
    evals, dist, mism, samples, ndist, perkey = 0, {}, 0, [], 0, {}
    for i, c in enumerate(cases):
        op, lk, a, rk, b = c
        outs = {v: got[(i, v)] for v in GRIDV if (i, v) in got}
        if not outs:
            continue
        evals += len(outs)
        ndist += 1
        dk = "%s/%s%s" % (op, lk, rk)
        dist[dk] = dist.get(dk, 0) + 1
        if len(samples) < 3 and i % 997 == 5:
            samples.append({"input": inputs[str(i)], "observed": outs})
        vals = {v: canon(o) for v, o in outs.items() if not o.startswith("CRASH:")}
        bad = grid_key(c, outs, vals, canon_model(model[str(i)]))
        if bad:
            mism += 1
            perkey[bad[0]] = perkey.get(bad[0], 0) + 1
            if perkey[bad[0]] <= 3 and len(perkey) <= 300:      # the first cases of every class
                ctx.fail(bad[0], "%s %s %s: %s" % (glit(lk, a), OPSYM[op], glit(rk, b), bad[1]), stream=stream, case=inputs[str(i)],
                         impl=outs, model=model[str(i)],
                         oracle="every form (literals=folded, typed locals=typed opcode, union-typed locals=generic opcode, "
                                "a.op(b) on typed operands=statically bound overload, a.op(b) on union-typed operands=run-time "
                                "dispatch) must print the same result or raise the same error, equal to the model's")
    ctx.extra["c08.grid.failing_cases_per_class"] = perkey
    ctx.stream(stream, evals, ndist,
               "EXHAUSTIVE grid, no sampling: 17 operators x every ordered pair of Int corners (0, +-1, +-2, +-(2^31|2^32|2^63|2^64 + "
               "-2..2); shifts also by +-31..66, ** also by 3..65) and the 11 arithmetic/comparison operators x Int corners (also "
               "around 2^53) x Float corners (+-0.0, +-1.5, 2^53-1, 2^53, 2^53+2, 2^63, ...) in both orders and Float x Float; each "
               "case in up to 5 forms: literals, Int/Float locals, union-typed locals, a.op(b) on typed locals (statically bound "
               "native overload op@1 -> value.XInts), a.op(b) on union-typed locals; %d cases per program; left out: Int ** Int "
               "with |a| > 1 and b > 66, left shifts of a non-zero Int by 200 < n < 2^63 bits (result does not fit in memory), "
               "typed `==` with a Float on the left (known crash, corpus witness), union forms of & | ^ &~ (no admissible union). "
               "evaluations = form outputs compared; oracle 1: all forms equal; oracle 2: equal to the extracted model "
               "(except Float **, compared between forms only, and 0/1/-1 ** b for b > 66, evaluated exactly by the plugin)" % CH,
               samples, dist, mismatches=mism, programs=nprog)



def run(ctx):
    ctx.explanation = (
        "Proved (Coq): on a model of the six evaluation paths of a binary operator over Int (small/big) and Float operands - "
        "generic opcode (value.*Val), constant folder, typed Int opcodes, typed Float opcodes (after "
        "fixes/C08-typed-float-opcodes.patch), explicit method call incl. the op@1/op@2 overloads, and the Int-only helpers "
        "value.XInts -> SmallInt.XInt / BigInt.XInt behind the STATICALLY BOUND overload Int#op@1 (separate Go functions: "
        "C08_static_overload_eq) - every path returns what the generic path returns for all 17 operators (+ - * / % ** > >= < <= "
        "== << >> & | ^ &~) and all operand values admitted by the type checker; Int arithmetic is the C06 model, Int/Float "
        "comparisons are the exact three-way comparison of value/exact_compare.go (modelled in Coq on the binary64 bit pattern), "
        "the remaining IEEE arithmetic is abstract (the equalities hold for any float semantics). NOT proved: that the Go paths "
        "equal the model. That is tested on every run by two program-level streams on the real binary, each case in up to 5 forms "
        "(literals = folded, typed locals = typed opcode, union-typed locals = generic opcode, a.op(b) on typed locals = statically "
        "bound native overload, a.op(b) on union-typed locals = run-time dispatch), all outputs equal to each other and to the "
        "extracted model: c08.grid is EXHAUSTIVE over a grid of corner operands (every ordered pair of 45 Int corners around 0, "
        "2^31, 2^32, 2^63, 2^64 x 17 operators; Int corners x Float corners (+-0.0, +-1.5, 2^53-1..2^53+2, 2^63) in both orders and "
        "Float x Float x 11 operators; ZeroDivisionError compared as an outcome), c08.variants is seeded random. The Go backend's use of "
        "value.XInts for all 17 operators is not exercised here (C06's c06.val calls value.*Ints directly, C09 runs native builds). "
        "Defects: the compiler's opcode SELECTION is wrong for `==` with a Float on the left (EQUAL_INT, crashes: "
        "C08_typed_selection_refuted, known finding eq:F/F:variant-crash:typed; C08_typed_selection_partial excludes exactly that class; "
        "the grid leaves that one form out); a constant-folded Float result equal to -0.0 is emitted as FLOAT_0 = +0.0 (known finding "
        "negzero-result:variants-differ:lit, found by c08.grid, fixes/C08-negative-zero-constant.patch; constant EMISSION is not "
        "modelled: `fold` is the value the folder computes). Unary operators, != and <=>, sized integer types, BigFloat and arbitrary "
        "std methods are not modelled (partial, as in DESIGN).")
    ctx.trusted_base += ["IEEE-754 binary64 arithmetic / math.Mod / Int->Float conversion: Section variables in Coq, instantiated with "
                         "OCaml native doubles in the driver; float ** is compared between variants only",
                         "the bytecode compiler's choice of opcode / overload per static type (literals fold, Int/Float locals use typed "
                         "opcodes, Int | Float locals use the generic opcode, a.op(b) on Int locals is bound to the native op@1, on "
                         "union-typed locals it is resolved at run time) - observed through the program forms, not modelled",
                         "0 / 1 / -1 raised to an exponent > 66 in c08.grid is evaluated by the plugin (Python integers), not by the "
                         "extracted model (Coq's Z.pow is linear in the exponent)"]
    ctx.run_proof_gate()
    m = vlib.build_model_exact("C08")
    elk = vlib.build_elk()
    grid_stream(ctx, m, elk)
    stream = "c08.variants"
    r = ctx.rng(stream)
    cases = []
    corpus = os.path.join(vlib.ROOT, "corpus", "C08.variants.txt")
    if os.path.exists(corpus):
        for l in open(corpus):
            f = l.split("#")[0].split()
            if len(f) == 5:
                cases.append((f[0], f[1], int(f[2]) if f[1] == "I" else float(f[2]), f[3], int(f[4]) if f[3] == "I" else float(f[4])))
    ncorpus = len(cases)
    for _ in range(ctx.n(300, 30000)):
        cases.append(gen_case(r))
    ids = [str(i) for i in range(len(cases))]
    inputs = {str(i): "%s %s %s %s %s" % (c[0], c[1], c[2] if c[1] == "I" else fbits(c[2]), c[3], c[4] if c[3] == "I" else fbits(c[4]))
              for i, c in enumerate(cases)}
    rc, model, mout = vlib.run_model(m, ids, inputs)
    if rc != 0 or len(model) != len(ids):
        ctx.broke("c08.variants: model driver failed", mout[-2000:])
        return
    B = 25
    starts = ([0] if ncorpus else []) + list(range(ncorpus, len(cases), B))
    batches = []
    for bi, p0 in enumerate(starts):
        p1 = starts[bi + 1] if bi + 1 < len(starts) else len(cases)
        stmts = [((i, v), variant_code(i, v, *cases[i]).rstrip("\n")) for i in range(p0, p1) for v in VARIANTS
                 if variant_code(i, v, *cases[i])]
        batches.append(("p%d" % p0, stmts, []))
    wd = os.path.join(ctx.workdir, "variants")
    # a program that dies is resumed after the statement that killed it (every crash is isolated)
    got, nprog, lost, rlog = run_resumable(elk, batches, wd, VARIANTS, timeout=600, max_rounds=ctx.n(8, 40))
    evals, distinct, dist, mism, samples = 0, set(), {}, 0, []
    for i, c in enumerate(cases):
        op, lk, a, rk, b = c
        outs = {v: got[(i, v)] for v in VARIANTS if (i, v) in got}
        if not outs:
            continue
        evals += len(outs)
        dist["%s/%s%s" % (op, lk, rk)] = dist.get("%s/%s%s" % (op, lk, rk), 0) + 1
        distinct.add(c)
        if len(samples) < 3:
            samples.append({"input": inputs[str(i)], "observed": outs})
        # equality dispatches on the operand kinds only: sign and size do not enter the class
        cls = "eq:%s/%s" % (lk, rk) if op == "eq" else "%s:%s/%s" % (op, kclass(lk, a), kclass(rk, b))
        what = "%s %s %s: " % (lit(lk, a), OPSYM[op], lit(rk, b))
        crashed = [v for v, o in outs.items() if o.startswith("CRASH:")]
        vals = {v: canon(o) for v, o in outs.items() if not o.startswith("CRASH:")}
        bad = None
        if crashed:
            bad = ("variant-crash:" + "+".join(sorted(crashed)), "variants %s crash (%s)" % (crashed, outs[crashed[0]]))
        elif len(set(vals.values())) > 1:
            ref = vals.get("union", vals.get("lit"))
            odd = sorted(v for v, o in vals.items() if o != ref)
            bad = ("variants-differ:" + "+".join(odd), "outputs differ between variants: %s" % outs)
            if odd == ["lit"] and ref == "F %d" % fbits(-0.0) and vals["lit"] == "F 0":
                cls = "negzero-result"      # one defect whatever the operator: a folded -0.0 is emitted as FLOAT_0
        elif not (op == "pow" and "F" in (lk, rk)) and set(vals.values()) != {canon_model(model[str(i)])}:
            bad = ("model-differs", "all variants print %s, model says %s" % (sorted(set(outs.values())), model[str(i)]))
        if bad:
            mism += 1
            if mism <= 300:
                ctx.fail("%s:%s" % (cls, bad[0]), what + bad[1], stream=stream, case=inputs[str(i)], impl=outs, model=model[str(i)],
                         oracle="every variant (literals=folded, typed locals=typed opcode, union-typed locals=generic opcode, "
                                "a.op(b)=method call) must print the same result, equal to the model's")
    if lost:
        ctx.broke("c08.variants: %d statements could not be run (compile error, time-out or too many crashes in one program)" % lost,
                  "\n".join(rlog[:20]))
    ctx.stream(stream, evals, len(distinct),
               "seeded (operator, left, right) over Int (small, boundary, big) and Float (dyadic) operands x 17 operators, each as "
               "3-5 Elk program variants (literals, typed locals, union-typed locals, a.op(b) on typed locals, a.op(b) on union-typed "
               "locals) run on `elk run` (25 cases per program, %d corpus cases first); evaluations = variant "
               "outputs compared; oracle 1: all variants equal; oracle 2: equal to the extracted model (except float **)" % ncorpus,
               samples, dist, mismatches=mism, programs=nprog)
