"""C08 — results do not depend on which evaluation path the compiler chose."""
import importlib.util
import os
import struct
import vlib

OPSYM = {"add": "+", "sub": "-", "mul": "*", "div": "/", "mod": "%", "pow": "**", "lt": "<", "le": "<=",
         "gt": ">", "ge": ">=", "eq": "==", "shl": "<<", "shr": ">>", "and": "&", "or": "|", "xor": "^", "andnot": "&~"}
ARITH = ("add", "sub", "mul", "div", "mod", "pow")
CMP = ("lt", "le", "gt", "ge", "eq")
INTONLY = ("shl", "shr", "and", "or", "xor", "andnot")
VARIANTS = ("lit", "typed", "union", "call")


def fbits(x):
    return struct.unpack("<Q", struct.pack("<d", x))[0]


def flit(x):
    s = format(x, "f")
    return s if x >= 0 else "(%s)" % s


def ilit(z):
    return str(z) if z >= 0 else "(%d)" % z


def lit(k, v):
    return ilit(v) if k == "I" else flit(v)


def kclass(k, v):
    if k == "F":
        return "F" + ("neg" if v < 0 else "zero" if v == 0 else "pos")
    return ("S" if -2 ** 63 <= v < 2 ** 63 else "B") + ("neg" if v < 0 else "zero" if v == 0 else "pos")


def gen_int(r):
    c = r.below(4)
    if c == 0:
        return r.range(-20, 20)
    if c == 1:
        z = 2 ** r.choice([7, 31, 53, 62, 63, 64, 65, 100]) + r.range(-2, 2)
        return -z if r.chance(1, 2) else z
    z = 0
    bits = r.range(1, 140)
    for _ in range((bits + 63) // 64):
        z = (z << 64) | r.next()
    z >>= ((bits + 63) // 64) * 64 - bits
    return -z if r.chance(1, 2) else z


def gen_float(r):
    """dyadic rationals m / 2^e (e <= 6): exactly representable and exactly printable with %f"""
    m = r.range(-2 ** r.range(1, 40), 2 ** r.range(1, 40))
    x = m / float(2 ** r.range(0, 6))
    return x if x != 0 else 0.5


def gen_case(r):
    lk = r.choice(["I", "I", "F"])
    rk = r.choice(["I", "I", "F"])
    if lk == "I" and rk == "I":
        op = r.choice(ARITH + CMP + INTONLY + ("shl", "shr"))
    else:
        op = r.choice(ARITH + CMP + ("sub", "lt", "le"))
    a = gen_int(r) if lk == "I" else gen_float(r)
    b = gen_int(r) if rk == "I" else gen_float(r)
    if op in ("div", "mod") and b == 0:
        b = 3 if rk == "I" else 1.5
    if op == "pow":
        if lk == "I" and rk == "I":
            b = r.range(0, 40)
            a = a if abs(a) < 2 ** 33 else r.range(-9, 9)
        else:       # keep float powers finite and small
            a = r.range(1, 9) if lk == "I" else abs(r.range(1, 64)) / 4.0
            b = r.range(-3, 6) if rk == "I" else r.range(-8, 12) / 4.0
    if op in ("shl", "shr"):
        b = r.choice([r.range(-3, 3), r.range(-70, 70), r.range(-150, 150), r.choice([63, 64, 65, -63, -64, -65])])
    if op in CMP and r.chance(1, 4):
        b = a
        rk = lk
    return op, lk, a, rk, b


def variant_code(i, v, op, lk, a, rk, b):
    """one println per (case, variant): '<i> <variant> <inspect of the result>'"""
    sym = OPSYM[op]
    ty = {"I": "Int", "F": "Float"}
    n = "%s%d" % (v[0], i)
    if v == "lit":
        return 'println("%d lit " + (%s %s %s).inspect)\n' % (i, lit(lk, a), sym, lit(rk, b))
    if v == "typed":
        return ('var x%s: %s = %s\nvar y%s: %s = %s\nprintln("%d typed " + (x%s %s y%s).inspect)\n'
                % (n, ty[lk], lit(lk, a), n, ty[rk], lit(rk, b), i, n, sym, n))
    if v == "union":
        if op in ("and", "or", "xor", "andnot"):
            return None           # no union of builtin types admits these operators
        if op in ("shl", "shr"):
            lt, rt = "Int | Int64", "Int"
        else:
            lt = rt = "Int | Float"
        return ('var x%s: %s = %s\nvar y%s: %s = %s\nprintln("%d union " + (x%s %s y%s).inspect)\n'
                % (n, lt, lit(lk, a), n, rt, lit(rk, b), i, n, sym, n))
    if v == "call":
        return ('var x%s: %s = %s\nvar y%s: %s = %s\nprintln("%d call " + x%s.%s(y%s).inspect)\n'
                % (n, ty[lk], lit(lk, a), n, ty[rk], lit(rk, b), i, n, sym, n))


def canon(s):
    """elk inspect output -> the model's vocabulary"""
    if s in ("true", "false"):
        return "B " + s
    try:
        return "I %d" % int(s)
    except ValueError:
        pass
    try:
        return "F %d" % fbits(float(s.replace("Inf", "inf").replace("NaN", "nan")))
    except ValueError:
        return "? " + s


def run(ctx):
    ctx.explanation = (
        "Proved (Coq): on a model of the five evaluation paths of a binary operator over Int (small/big) and Float operands - "
        "generic opcode (value.*Val), constant folder, typed Int opcodes, typed Float opcodes (after "
        "fixes/C08-typed-float-opcodes.patch), explicit method call incl. the op@1/op@2 overloads - every path returns what the "
        "generic path returns for all 17 operators (+ - * / % ** > >= < <= == << >> & | ^ &~) and all operand values admitted by "
        "the type checker; Int arithmetic is the C06 model, IEEE arithmetic is abstract (the equalities hold for any float "
        "semantics). NOT proved: that the Go paths equal the model (c08.variants runs 3-4 program variants per case on the real "
        "binary and requires all outputs equal to each other and to the extracted model); the compiler's opcode SELECTION is wrong for `==` with a Float on the left (EQUAL_INT, crashes: C08_typed_selection_refuted, known finding eq:F/F:variant-crash:typed; C08_typed_selection_partial excludes exactly that class); unary operators, != and <=>, sized "
        "integer types, BigFloat and arbitrary std methods are not modelled (partial, as in DESIGN).")
    ctx.trusted_base += ["IEEE-754 binary64 arithmetic / math.Mod / Int->Float conversion: Section variables in Coq, instantiated with "
                         "OCaml native doubles in the driver; float ** is compared between variants only",
                         "the bytecode compiler's choice of opcode per static type (literals fold, Int/Float locals use typed opcodes, "
                         "Int | Float locals use the generic opcode, a.op(b) is a method call) - observed, not modelled"]
    ctx.run_proof_gate()
    m = vlib.build_model_exact("C08")
    elk = vlib.build_elk()
    stream = "c08.variants"
    r = ctx.rng(stream)
    cases = []
    corpus = os.path.join(vlib.ROOT, "corpus", "C08.variants.txt")
    if os.path.exists(corpus):
        for l in open(corpus):
            f = l.split("#")[0].split()
            if len(f) == 5:
                cases.append((f[0], f[1], int(f[2]) if f[1] == "I" else float(f[2]), f[3], int(f[4]) if f[3] == "I" else float(f[4])))
    ncorpus = len(cases)
    for _ in range(ctx.n(300, 30000)):
        cases.append(gen_case(r))
    ids = [str(i) for i in range(len(cases))]
    inputs = {str(i): "%s %s %s %s %s" % (c[0], c[1], c[2] if c[1] == "I" else fbits(c[2]), c[3], c[4] if c[3] == "I" else fbits(c[4]))
              for i, c in enumerate(cases)}
    rc, model, mout = vlib.run_model(m, ids, inputs)
    if rc != 0 or len(model) != len(ids):
        ctx.broke("c08.variants: model driver failed", mout[-2000:])
        return
    B = 25
    starts = ([0] if ncorpus else []) + list(range(ncorpus, len(cases), B))
    progs, members = [], {}
    for bi, p0 in enumerate(starts):
        p1 = starts[bi + 1] if bi + 1 < len(starts) else len(cases)
        src = "".join(filter(None, (variant_code(i, v, *cases[i]) for i in range(p0, p1) for v in VARIANTS)))
        progs.append(("p%d" % p0, src))
        members["p%d" % p0] = range(p0, p1)
    wd = os.path.join(ctx.workdir, "variants")
    res = vlib.run_programs(elk, progs, wd, timeout=240)
    got, rerun = {}, []

    def take(out):
        for l in out.splitlines():
            f = l.split(" ")
            if len(f) == 3 and f[0].isdigit() and f[1] in VARIANTS:
                got[(int(f[0]), f[1])] = f[2]
    for name, (rc_, out, cls) in res.items():
        if cls == "ok":
            take(out)
        else:
            rerun.append(name)
    budget = ctx.n(2, 40)
    singles = []
    for name in sorted(rerun, key=lambda s: int(s[1:]))[:budget]:
        for i in members[name]:
            for v in VARIANTS:
                code = variant_code(i, v, *cases[i])
                if code:
                    singles.append(("s%d_%s" % (i, v), code))
    timeouts = 0
    if singles:
        res2 = vlib.run_programs(elk, singles, wd, timeout=120)
        for name, (rc_, out, cls) in res2.items():
            i, v = name[1:].split("_")
            if cls == "ok":
                take(out)
            elif cls == "timeout":
                timeouts += 1
            else:
                msg = next((x for x in out.splitlines() if "panic" in x or "rror" in x or "FAIL" in x), out[:160])
                got[(int(i), v)] = "CRASH:" + cls + ":" + msg.strip()[:120].replace(" ", "_")
    evals, distinct, dist, mism, samples = 0, set(), {}, 0, []
    for i, c in enumerate(cases):
        op, lk, a, rk, b = c
        outs = {v: got[(i, v)] for v in VARIANTS if (i, v) in got}
        if not outs:
            continue
        evals += len(outs)
        dist["%s/%s%s" % (op, lk, rk)] = dist.get("%s/%s%s" % (op, lk, rk), 0) + 1
        distinct.add(c)
        if len(samples) < 3:
            samples.append({"input": inputs[str(i)], "observed": outs})
        # equality dispatches on the operand kinds only: sign and size do not enter the class
        cls = "eq:%s/%s" % (lk, rk) if op == "eq" else "%s:%s/%s" % (op, kclass(lk, a), kclass(rk, b))
        what = "%s %s %s: " % (lit(lk, a), OPSYM[op], lit(rk, b))
        crashed = [v for v, o in outs.items() if o.startswith("CRASH:")]
        vals = {v: canon(o) for v, o in outs.items() if not o.startswith("CRASH:")}
        bad = None
        if crashed:
            bad = ("variant-crash:" + "+".join(sorted(crashed)), "variants %s crash (%s)" % (crashed, outs[crashed[0]]))
        elif len(set(vals.values())) > 1:
            ref = vals.get("union", vals.get("lit"))
            odd = sorted(v for v, o in vals.items() if o != ref)
            bad = ("variants-differ:" + "+".join(odd), "outputs differ between variants: %s" % outs)
        elif not (op == "pow" and "F" in (lk, rk)) and set(vals.values()) != {model[str(i)]}:
            bad = ("model-differs", "all variants print %s, model says %s" % (sorted(set(outs.values())), model[str(i)]))
        if bad:
            mism += 1
            if mism <= 300:
                ctx.fail("%s:%s" % (cls, bad[0]), what + bad[1], stream=stream, case=inputs[str(i)], impl=outs, model=model[str(i)],
                         oracle="every variant (literals=folded, typed locals=typed opcode, union-typed locals=generic opcode, "
                                "a.op(b)=method call) must print the same result, equal to the model's")
    if timeouts:
        ctx.extra["c08.variants.timeouts_ignored"] = timeouts
    if len(rerun) > budget:
        ctx.extra["c08.variants.failing_batches_not_isolated"] = len(rerun) - budget
    ctx.stream(stream, evals, len(distinct),
               "seeded (operator, left, right) over Int (small, boundary, big) and Float (dyadic) operands x 17 operators, each as "
               "3-4 Elk program variants run on `elk run` (25 cases per program, %d corpus cases first); evaluations = variant "
               "outputs compared; oracle 1: all variants equal; oracle 2: equal to the extracted model (except float **)" % ncorpus,
               samples, dist, mismatches=mism, programs=len(progs) + len(singles))
