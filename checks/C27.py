"""C27 — REPL sessions behave like batch runs of their accepted inputs.

Stream c27.sessions: seeded histories over the tiny language of coq/Model/C27_Repl.v (method
(re)definitions, constants (also initialised from earlier constants), named types (`typedef`, at Root level and inside
modules, referring to Int/String/other named types/classes, forwards and backwards inside one input), empty class
declarations and their instances, top-level locals whose declared type is a type expression, assignments, prints;
"flat" inputs made of Root-level declarations only (nothing in them opens a scope); inputs that are rejected EARLY
(type-definition phase) or LATE (after hoisting, after some bodies were checked); inputs that raise a
runtime error after some effects), printed to Elk and driven IN-PROCESS through the calls repl.evaluate
makes (harness/cmd/c27: checker.CheckSourceBytecode + vm.InterpretREPL on one checker / one VM).
Oracles: (1) the extracted model's per-input result; (2) `elk run` of the concatenation of the accepted
inputs up to k as ONE program (separator tags), segment k; (3) the rollback evaluated directly on the
implementation: environment digest before/after a rejected input (hook types/checker/verif_c27.go) and
probe inputs that use a name only a rejected input defined.
Regenerated part: coq/Gen/C27_CheckerFields.v (harness/cmd/c27gen, go/ast) re-proved by C27_frame_audit.

Session s-expression (the model driver's input; the corpus stores these):
  (sess (inp stmt...) ...)   stmt: (def m i|s e) (const k e) (decl v X e) (asg v e) (pr e) early (td a X) (cls c)
  texp X: i s (a alias) (o class)
  expr: (i z) (s n) (l v) (k n) p (c m e) (add a b) (mul a b) (div a b) (new class)
Alias / constant ids >= 100 are printed inside a module (id // 100): `module M1X7; typedef T102X7 = ..; end`, used as
`M1X7::T102X7` (the local name keeps the full id: inside a module body an unqualified name resolves to the module's own
member first) — the model has one flat table of named types and one of constants; the module only changes WHERE the
implementation registers them (scope push/pop, namespace declaration).  Constants initialised from other constants
are generated but never read at run time ("dead": the compiler never defines them, in batch and REPL alike).
"""
import json
import os
import re
import vlib

STREAM = "c27.sessions"
GEN_V = os.path.join(vlib.COQ, "Gen", "C27_CheckerFields.v")
CORPUS = os.path.join(vlib.ROOT, "corpus", "C27.sessions.txt")


# ------------------------------------------------------------------ s-expressions

def sx_parse(s):
    toks = re.findall(r"\(|\)|[^\s()]+", s)
    pos = [0]

    def item():
        t = toks[pos[0]]
        pos[0] += 1
        if t == "(":
            acc = []
            while toks[pos[0]] != ")":
                acc.append(item())
            pos[0] += 1
            return acc
        return t
    return item()


def sx_str(x):
    if isinstance(x, str):
        return x
    return "(" + " ".join(sx_str(y) for y in x) + ")"


# ------------------------------------------------------------------ printing to Elk

def elk_expr(e, sid):
    if e == "p":
        return "x"
    k = e[0]
    if k == "i":
        return e[1] if not e[1].startswith("-") else "(%s)" % e[1]
    if k == "s":
        return '"s%s"' % e[1]
    if k == "l":
        return "v%s" % e[1]
    if k == "k":
        return const_name(e[1], sid)
    if k == "new":
        return "C%sX%d()" % (e[1], sid)
    if k == "c":
        return "m%sx%d(%s)" % (e[1], sid, elk_expr(e[2], sid))
    op = {"add": "+", "mul": "*", "div": "/"}[k]
    return "(%s %s %s)" % (elk_expr(e[1], sid), op, elk_expr(e[2], sid))


TY = {"i": "Int", "s": "String"}


def const_name(k, sid):
    k = int(k)
    if k >= 100:
        return "M%dX%d::K%dX%d" % (k // 100, sid, k, sid)
    return "K%dX%d" % (k, sid)


def alias_name(a, sid):
    a = int(a)
    if a >= 100:
        return "M%dX%d::T%dX%d" % (a // 100, sid, a, sid)
    return "T%dX%d" % (a, sid)


def in_module(n, sid, text):
    n = int(n)
    if n >= 100:
        return "module M%dX%d\n  %s\nend" % (n // 100, sid, text)
    return text


def elk_texp(x, sid):
    if isinstance(x, str):
        return TY[x]
    if x[0] == "a":
        return alias_name(x[1], sid)
    if x[0] == "o":
        return "C%sX%d" % (x[1], sid)
    raise ValueError(x)


def elk_stmt(st, sid):
    if st == "early":
        return "class Zq%d < Nope%d; end" % (sid, sid)
    k = st[0]
    if k == "def":
        return "def m%sx%d(x: Int): %s\n  %s\nend" % (st[1], sid, TY[st[2]], elk_expr(st[3], sid))
    if k == "const":
        return in_module(st[1], sid, "const K%dX%d: Int = %s" % (int(st[1]), sid, elk_expr(st[2], sid)))
    if k == "decl":
        return "var v%s: %s = %s" % (st[1], elk_texp(st[2], sid), elk_expr(st[3], sid))
    if k == "td":
        return in_module(st[1], sid, "typedef T%dX%d = %s" % (int(st[1]), sid, elk_texp(st[2], sid)))
    if k == "cls":
        return "class C%sX%d; end" % (st[1], sid)
    if k == "asg":
        return "v%s = %s" % (st[1], elk_expr(st[2], sid))
    if k == "pr":
        return "println((%s).inspect)" % elk_expr(st[1], sid)
    raise ValueError(st)


def elk_input(inp, sid):
    return "\n".join(elk_stmt(s, sid) for s in inp[1:])


# ------------------------------------------------------------------ generator

ALIAS_IDS = [0, 1, 2, 3, 4, 5, 100, 101, 102, 200, 201]     # >= 100: inside module id // 100
CONST_IDS = [0, 1, 2, 3, 4, 5, 100, 101, 200]
CLASS_IDS = [0, 1, 2, 3]
NEVER = "9"                                                   # alias / class / constant id that is never defined


class Gen:
    """generator-side bookkeeping of what the session has defined so far (what the REPL should know).
    Resolved types are 'i' | 's' | 'o<class>'; written type expressions are 'i' | 's' | ['a', alias] | ['o', class]."""

    def __init__(self, r):
        self.r = r
        self.meths = {}      # name -> 'i' | 's'
        self.consts = []     # every constant (live and dead)
        self.dead = set()    # constants initialised from constants: never read at run time
        self.locals = {}     # name -> resolved type
        self.aliases = {}    # alias id (str) -> resolved type
        self.classes = []    # class ids (str)
        self.ghost = []      # ('l'|'k'|'c'|'t'|'o', name): names only rejected inputs defined
        self.last_ghosts = []  # those of the latest rejected input

    def state(self):
        return dict(self.meths), list(self.consts), dict(self.locals), dict(self.aliases), list(self.classes), set(self.dead)

    def fresh(self, used, limit=6):
        cand = [str(i) for i in range(limit) if str(i) not in used]
        return self.r.choice(cand) if cand else None

    def fresh_of(self, ids, used):
        cand = [str(i) for i in ids if str(i) not in used]
        return self.r.choice(cand) if cand else None

    def live(self, consts=None, dead=None):
        consts = self.consts if consts is None else consts
        dead = self.dead if dead is None else dead
        return [k for k in consts if k not in dead]

    def int_expr(self, depth, in_body=False, meths=None, consts=None, locs=None):
        """consts: the constants the expression may READ (callers pass live constants only)"""
        r = self.r
        meths = self.meths if meths is None else meths
        consts = self.live() if consts is None else consts
        locs = self.locals if locs is None else locs
        leaves = [("i", str(r.choice([0, 1, 2, 3, 5, 7, 10, -1, -4, 12345678901234567890])))]
        if in_body:
            leaves += ["p", "p"]
        else:
            leaves += [("l", v) for v, t in sorted(locs.items()) if t == "i"]
        leaves += [("k", k) for k in consts]
        if depth <= 0 or r.chance(2, 5):
            x = r.choice(leaves)
            return x if isinstance(x, str) else list(x)
        c = r.below(10)
        im = [m for m, t in sorted(meths.items()) if t == "i"]
        if c < 4 and im:
            return ["c", r.choice(im), self.int_expr(depth - 1, in_body, meths, consts, locs)]
        if c < 7:
            return ["add", self.int_expr(depth - 1, in_body, meths, consts, locs), self.int_expr(depth - 1, in_body, meths, consts, locs)]
        if c < 9:
            return ["mul", self.int_expr(depth - 1, in_body, meths, consts, locs), self.int_expr(depth - 1, in_body, meths, consts, locs)]
        return ["div", self.int_expr(depth - 1, in_body, meths, consts, locs), ["i", str(r.choice([1, 2, 3, -2]))]]

    def str_expr(self, in_body=False, meths=None, locs=None):
        r = self.r
        meths = self.meths if meths is None else meths
        locs = self.locals if locs is None else locs
        opts = [["s", str(r.below(9))]]
        if not in_body:
            opts += [["l", v] for v, t in sorted(locs.items()) if t == "s"]
        sm = [m for m, t in sorted(meths.items()) if t == "s"]
        if sm and r.chance(1, 2):
            opts.append(["c", r.choice(sm), self.int_expr(0, in_body, meths, None, locs)])
        return r.choice(opts)

    def obj_expr(self, t, locs):
        opts = [["new", t[1:]]] + [["l", v] for v, tv in sorted(locs.items()) if tv == t]
        return self.r.choice(opts)

    def expr_of(self, t, in_body=False, meths=None, consts=None, locs=None):
        if t == "i":
            return self.int_expr(2, in_body, meths, consts, locs)
        if t == "s":
            return self.str_expr(in_body, meths, locs)
        return self.obj_expr(t, self.locals if locs is None else locs)

    def written(self, t, aliases):
        """a type expression that denotes the resolved type t: the type itself or one of its aliases"""
        al = [a for a, ta in sorted(aliases.items()) if ta == t]
        if al and self.r.chance(3, 5):
            return ["a", self.r.choice(al)]
        return t if t in ("i", "s") else ["o", t[1:]]

    def valid_stmts(self, n, allow_defs=True, flat=False):
        """n well-typed statements; returns (stmts, state') — state' = (meths, consts, locals, aliases, classes, dead) if accepted.
        flat: only Root-level declarations that open no scope (named types, constants, locals) and prints — nothing in such an
        input pushes or pops a constant / method scope after the declarations were registered"""
        r = self.r
        meths, consts, locs, aliases, classes, dead = self.state()
        # methods, classes and named types of this input are hoisted: decide them first so that earlier
        # statements may use them
        stmts = []
        plan = []
        for _ in range(n):
            c = r.below(17)
            if flat:
                plan.append("td" if c < 7 else "const" if c < 9 else "decl" if c < 12 else "asg" if c < 13 else "pr")
            else:
                plan.append("def" if (c < 3 and allow_defs) else "const" if c < 5 else "decl" if c < 8 else "asg" if c < 10
                            else "td" if c < 13 else "cls" if c < 14 else "pr")
        alias_ids = [i for i in ALIAS_IDS if i < 100] if flat else ALIAS_IDS
        const_ids = [i for i in CONST_IDS if i < 100] if flat else CONST_IDS
        newdefs = []
        newcls = []
        newtd = []
        for p in plan:
            if p == "def":
                if meths and r.chance(2, 5):
                    m = r.choice(sorted(meths))          # redefinition, same return type
                    newdefs.append((m, meths[m]))
                else:
                    m = self.fresh(meths)
                    if m is None:
                        m = r.choice(sorted(meths))
                        newdefs.append((m, meths[m]))
                    else:
                        t = "i" if r.chance(4, 5) else "s"
                        meths[m] = t
                        newdefs.append((m, t))
            elif p == "cls":
                c = r.choice([str(i) for i in CLASS_IDS])  # new class or reopening of an old one
                newcls.append(c)
                if c not in classes:
                    classes.append(c)
            elif p == "td":
                a = self.fresh_of(alias_ids, list(aliases) + [x for x in newtd if x])
                newtd.append(a)                          # None: no free name left -> becomes a print
        # right-hand sides: in a random resolution order, each alias may name the types known so far, so the
        # typedefs of one input refer to each other forwards and backwards without cycles
        order = [a for a in newtd if a]
        for i in range(len(order) - 1, 0, -1):
            j = r.below(i + 1)
            order[i], order[j] = order[j], order[i]
        rhs = {}
        for a in order:
            c = r.below(10)
            if c < 5 and aliases:
                b = r.choice(sorted(aliases))
                rhs[a], aliases[a] = ["a", b], aliases[b]
            elif c < 7 and classes:
                k = r.choice(classes)
                rhs[a], aliases[a] = ["o", k], "o" + k
            else:
                t = "i" if r.chance(2, 3) else "s"
                rhs[a], aliases[a] = t, t
        di = ci = ti = 0
        for p in plan:
            if p == "def":
                m, t = newdefs[di]
                di += 1
                # bodies call only lower-numbered methods (no recursion; these may be defined later in this
                # very input: hoisting) and read only live constants of EARLIER inputs (initialised for sure)
                lower = {x: tx for x, tx in meths.items() if int(x) < int(m)}
                stmts.append(["def", m, t, self.expr_of(t, True, lower, self.live(), {})])
            elif p == "cls":
                stmts.append(["cls", newcls[ci]])
                ci += 1
            elif p == "td":
                a = newtd[ti]
                ti += 1
                if a is None:
                    stmts.append(["pr", self.int_expr(1, False, meths, self.live(consts, dead), locs)])
                else:
                    stmts.append(["td", a, rhs[a]])
            elif p == "const":
                k = self.fresh_of(const_ids, consts)
                if k is None:
                    stmts.append(["pr", self.int_expr(1, False, meths, self.live(consts, dead), locs)])
                    continue
                if consts and r.chance(1, 3):
                    # initialised from other constants (live or dead): type-checked against the constant scopes,
                    # never defined at run time (a compiler defect outside this property) -> never read afterwards
                    init = ["add", ["k", r.choice(consts)], self.int_expr(1, False, {}, list(consts), {})]
                    dead.add(k)
                else:
                    init = self.int_expr(1, False, {}, [], {})
                stmts.append(["const", k, init])
                consts.append(k)
            elif p == "decl":
                v = self.fresh(locs)
                if v is None:
                    stmts.append(["pr", self.int_expr(1, False, meths, self.live(consts, dead), locs)])
                    continue
                c = r.below(8)
                t = "i" if c < 5 else "s" if c < 6 else ("o" + r.choice(classes)) if classes else "i"
                stmts.append(["decl", v, self.written(t, aliases), self.expr_of(t, False, meths, self.live(consts, dead), locs)])
                locs[v] = t
            elif p == "asg" and locs:
                v = r.choice(sorted(locs))
                stmts.append(["asg", v, self.expr_of(locs[v], False, meths, self.live(consts, dead), locs)])
            else:
                t = "i" if r.chance(4, 5) else "s"
                stmts.append(["pr", self.expr_of(t, False, meths, self.live(consts, dead), locs)])
        return stmts, (meths, consts, locs, aliases, classes, dead)

    def commit(self, st):
        self.meths, self.consts, self.locals, self.aliases, self.classes, self.dead = st
        real = {"l": self.locals, "k": self.consts, "c": self.meths, "t": self.aliases, "o": self.classes}
        self.ghost = [g for g in self.ghost if g[1] not in real[g[0]]]

    def remember_ghosts(self, st):
        meths, consts, locs, aliases, classes, _ = st
        self.last_ghosts = []
        for kind, new, old in (("l", locs, self.locals), ("k", consts, self.consts), ("c", meths, self.meths),
                               ("t", aliases, self.aliases), ("o", classes, self.classes)):
            for x in new:
                if x not in old:
                    self.last_ghosts.append((kind, x))
                    if (kind, x) not in self.ghost:
                        self.ghost.append((kind, x))

    def probe(self, kind, name):
        """an input that can only be accepted if the rejected input that defined `name` left a trace"""
        r = self.r
        free_l = [str(i) for i in range(6, 9) if str(i) not in self.locals]
        if kind == "l":
            return [["pr", ["l", name]]]
        root_a = [i for i in ALIAS_IDS if i < 100]
        if kind == "k":
            k = self.fresh_of([i for i in CONST_IDS if i < 100], self.consts + [name]) or self.fresh_of(CONST_IDS, self.consts + [name])
            if k is not None and r.chance(1, 2):
                return [["const", k, ["add", ["k", name], ["i", "1"]]]]       # constant from a ghost constant
            return [["pr", ["k", name]]]
        if kind == "c":
            return [["pr", ["c", name, ["i", "1"]]]]
        if kind == "t":
            a = (r.chance(3, 4) and self.fresh_of(root_a, list(self.aliases) + [name])) or self.fresh_of(ALIAS_IDS, list(self.aliases) + [name])
            if a is not None and r.chance(3, 4):
                return [["td", a, ["a", name]]]                               # named type from a ghost named type
            return [["decl", r.choice(free_l), ["a", name], ["i", "1"]]]
        a = (r.chance(3, 4) and self.fresh_of(root_a, list(self.aliases))) or self.fresh_of(ALIAS_IDS, list(self.aliases))
        if a is not None and r.chance(1, 2):
            return [["td", a, ["o", name]]]
        return [["decl", r.choice(free_l), ["o", name], ["new", name]]]

    def fault(self, st, flat=False):
        """one ill-typed statement, by kind; flat: only faults that open no scope either (no method, class or module)"""
        r = self.r
        meths, consts, locs, aliases, classes, dead = st
        kinds = ["undef-local", "undef-const", "undef-method", "decl-mismatch", "arith-mismatch",
                 "undef-type", "decl-undef-type", "undef-class"]
        if not flat:
            kinds += ["bad-body", "cyclic-typedef"]
        if locs:
            kinds += ["asg-mismatch", "redeclare-local"]
        if consts:
            kinds.append("redeclare-const")
        if meths and not flat:
            kinds.append("bad-override")
        if aliases:
            kinds += ["redeclare-typedef", "decl-alias-mismatch"]
        if classes:
            kinds.append("decl-obj-mismatch")
        k = r.choice(kinds)
        free_l = [str(i) for i in range(6, 9) if str(i) not in locs]
        free_a = [str(i) for i in ((6, 7, 8) if flat else (6, 7, 8, 106, 207)) if str(i) not in aliases]
        if k == "undef-local":
            return k, ["pr", ["l", r.choice(free_l)]]
        if k == "undef-const":
            return k, ["pr", ["k", "8"]]
        if k == "undef-method":
            return k, ["pr", ["c", "8", ["i", "1"]]]
        if k == "decl-mismatch":
            return k, ["decl", r.choice(free_l), "i", ["s", "1"]]
        if k == "bad-body":
            m = self.fresh(meths) or "7"
            return k, ["def", m if m not in meths else "7", "i", ["s", "2"]]
        if k == "arith-mismatch":
            return k, ["pr", ["add", ["i", "1"], ["s", "3"]]]
        if k == "undef-type":
            return k, ["td", r.choice(free_a), ["a", NEVER]]
        if k == "decl-undef-type":
            return k, ["decl", r.choice(free_l), ["a", NEVER], ["i", "1"]]
        if k == "cyclic-typedef":
            a = r.choice(free_a)
            return k, ["td", a, ["a", a]]
        if k == "undef-class":
            return k, ["decl", r.choice(free_l), ["o", NEVER], ["i", "1"]]
        if k == "redeclare-typedef":
            al = [a for a in sorted(aliases) if int(a) < 100 or not flat] or sorted(aliases)
            a = r.choice(al)
            return k, ["td", a, aliases[a] if aliases[a] in ("i", "s") else ["o", aliases[a][1:]]]
        if k == "decl-alias-mismatch":
            a = r.choice(sorted(aliases))
            return k, ["decl", r.choice(free_l), ["a", a], ["s", "1"] if aliases[a] != "s" else ["i", "1"]]
        if k == "decl-obj-mismatch":
            return k, ["decl", r.choice(free_l), "i", ["new", r.choice(classes)]]
        if k == "asg-mismatch":
            v = r.choice(sorted(locs))
            return k, ["asg", v, ["s", "1"] if locs[v] != "s" else ["i", "1"]]
        if k == "redeclare-local":
            v = r.choice(sorted(locs))
            return k, ["decl", v, self.written(locs[v], {}), ["i", "1"] if locs[v] == "i" else ["s", "1"] if locs[v] == "s" else ["new", locs[v][1:]]]
        if k == "redeclare-const":
            kl = [x for x in consts if int(x) < 100 or not flat] or consts
            return k, ["const", r.choice(kl), ["i", "4"]]
        m = r.choice(sorted(meths))
        t = "s" if meths[m] == "i" else "i"
        return k, ["def", m, t, ["s", "5"] if t == "s" else ["i", "5"]]


PROBE_KIND = {"l": "local", "k": "const", "c": "method", "t": "typedef", "o": "class"}


def gen_session(r, n_inputs):
    """returns (session sexp, kinds[], must_reject[] flags)"""
    g = Gen(r)
    inputs, kinds, must_rej = [], [], []
    pending_probe = 0
    for idx in range(n_inputs):
        c = r.below(20)
        if idx == 0:
            c = 0
        if pending_probe and g.ghost and r.chance(3, 4):
            # probe: use a name only a rejected input defined -> must be rejected too
            pending_probe -= 1
            recent = [x for x in g.ghost if x in g.last_ghosts] or g.ghost      # names of the latest rejected input first
            kind, name = r.choice(recent if r.chance(3, 4) else g.ghost)
            stmts = g.probe(kind, name)
            if g.locals and r.chance(1, 3):
                iv = [v for v, t in sorted(g.locals.items()) if t in ("i", "s")]
                if iv:
                    stmts.insert(0, ["pr", ["l", r.choice(iv)]])
            inputs.append(["inp"] + stmts)
            kinds.append("probe-" + PROBE_KIND[kind])
            must_rej.append(True)
            continue
        if c < 9:
            flat = idx > 0 and r.chance(1, 3)
            stmts, st = g.valid_stmts(r.range(1, 3) if flat else r.range(1, 4), flat=flat)
            g.commit(st)
            inputs.append(["inp"] + stmts)
            kinds.append("valid-redef" if any(s[0] == "def" for s in stmts) else "valid-flat" if flat else "valid")
            must_rej.append(False)
        elif c < 14:
            # late failure: definitions first, then a fault, then maybe more; flat: Root-level declarations only, so that
            # whatever the checker caches while registering them survives to the end of the rejected input
            flat = r.chance(2, 5)
            stmts, st = g.valid_stmts(r.range(1, 3), flat=flat)
            fk, bad = g.fault(st, flat)
            pos = r.range(1 if len(stmts) else 0, len(stmts))
            stmts = stmts[:pos] + [bad] + stmts[pos:]
            g.remember_ghosts(st)
            inputs.append(["inp"] + stmts)
            kinds.append(("flat:" if flat else "late:") + fk)
            must_rej.append(True)
            pending_probe = 2
        elif c < 16:
            stmts, st = g.valid_stmts(r.range(0, 3))
            pos = r.range(0, len(stmts))
            stmts = stmts[:pos] + ["early"] + stmts[pos:]
            g.remember_ghosts(st)
            inputs.append(["inp"] + stmts)
            kinds.append("early")
            must_rej.append(True)
            pending_probe = 2
        elif c < 19:
            # runtime error after some effects; after the raising statement only prints
            stmts, st = g.valid_stmts(r.range(1, 3), allow_defs=r.chance(1, 2))
            m, k, l, al, cl, dead = st
            g2 = Gen(r)
            g2.meths, g2.consts, g2.locals, g2.dead = m, k, l, dead
            zero = ["i", "0"]
            how = r.below(3)
            if how == 0 or not l:
                bad = ["pr", ["div", g2.int_expr(1), zero]]
            elif how == 1:
                iv = [v for v, t in sorted(l.items()) if t == "i"]
                bad = ["asg", r.choice(iv), ["div", ["i", "9"], zero]] if iv else ["pr", ["div", ["i", "9"], zero]]
            else:
                bad = ["pr", ["add", ["i", "1"], ["mul", ["div", ["i", "3"], zero], ["i", "2"]]]]
            tail = [["pr", g2.int_expr(1)] for _ in range(r.below(2))]
            g.commit(st)
            inputs.append(["inp"] + stmts + [bad] + tail)
            kinds.append("rterr")
            must_rej.append(False)
        else:
            # print everything defined so far (old names must keep their meaning)
            stmts = [["pr", ["l", v]] for v, t in sorted(g.locals.items()) if t in ("i", "s")] + [["pr", ["k", k]] for k in g.live()] + \
                    [["pr", ["c", m, ["i", "3"]]] for m in sorted(g.meths)]
            inputs.append(["inp"] + (stmts or [["pr", ["i", "1"]]]))
            kinds.append("print-all")
            must_rej.append(False)
    return ["sess"] + inputs, kinds, must_rej


# ------------------------------------------------------------------ observation handling

def canon_model(entry):
    """'ok:5,6' | 'err@1:5' | 'rej' | 'crash@0:' -> (status, [values], stmt index or None)"""
    if entry == "rej":
        return "rej", [], None
    head, vals = entry.split(":", 1)
    idx = None
    if "@" in head:
        head, i = head.split("@")
        idx = int(i)
    return head, [v for v in vals.split(",") if v != ""], idx


def canon_impl(o):
    st = o["st"]
    vals = [l for l in o.get("out", "").split("\n") if l != ""]
    if st == "parse":
        st = "rej"
    return st, vals


def batch_program(sess, sid, upto, model_incr):
    """concatenation of the accepted inputs 0..upto as ONE program; an input whose model status is err@i
    is cut after statement i and that statement is wrapped in do/catch (an uncaught error ends that input only)"""
    lines = []
    for j, inp in enumerate(sess[1:upto + 2]):
        st, _, idx = canon_model(model_incr[j])
        if st == "rej":
            continue
        lines.append('println("#%d")' % j)
        stmts = inp[1:]
        if st == "err":
            defs_after = [s for s in stmts[idx + 1:] if s != "early" and s[0] in ("def", "td", "cls")]
            for s in stmts[:idx]:
                lines.append(elk_stmt(s, sid))
            for s in defs_after:            # method / class / named-type definitions are hoisted: they took effect in the REPL too
                lines.append(elk_stmt(s, sid))
            lines.append("do\n  %s\ncatch Std::ZeroDivisionError() as e\n  println(\"!err\")\nend" % elk_stmt(stmts[idx], sid))
        else:
            for s in stmts:
                lines.append(elk_stmt(s, sid))
    return "\n".join(lines) + "\n"


def segment(out, j):
    """lines printed between tag #j and the next tag"""
    lines = out.split("\n")
    try:
        a = lines.index("#%d" % j)
    except ValueError:
        return None
    seg = []
    for l in lines[a + 1:]:
        if re.fullmatch(r"#\d+", l):
            break
        if l != "":
            seg.append(l)
    return seg


RAW = os.path.join(vlib.ROOT, "corpus", "C27.raw.txt")


def stream_raw(ctx, h, elk):
    """explicit Elk sessions outside the modelled language (corpus/C27.raw.txt: label \\t JSON list of inputs, all expected
    to be accepted): REPL per-input stdout vs the segments of the same inputs run as ONE program by `elk run`."""
    if not os.path.exists(RAW):
        return
    cases = []
    for l in open(RAW):
        l = l.rstrip("\n")
        if l and not l.startswith("#"):
            label, js = l.split("\t", 1)
            cases.append((label, json.loads(js)))
    impl, bad = run_sessions(ctx, h, [(1000 + i, ins) for i, (_, ins) in enumerate(cases)], digest=False)
    progs = [("raw%d" % i, "\n".join('println("#%d")\n%s' % (j, x) for j, x in enumerate(ins)) + "\n") for i, (_, ins) in enumerate(cases)]
    bres = vlib.run_programs(elk, progs, os.path.join(vlib.BUILD, "work", "C27", "raw"), workers=4, timeout=300)
    nfail, dist = 0, {}
    for i, (label, ins) in enumerate(cases):
        dist[label] = dist.get(label, 0) + 1
        obs = impl.get(1000 + i)
        rc, out, cls = bres["raw%d" % i]
        for j in range(len(ins)):
            seg = segment(out, j)
            o = obs[j] if obs else {"st": "harness-crash"}
            ist, iv = canon_impl(o) if obs else ("harness-crash", [])
            bst = "ok" if seg is not None and not (cls != "ok" and segment(out, j + 1) is None and j == max(k for k in range(len(ins)) if segment(out, k) is not None)) else "err"
            if ist != bst or (seg or []) != iv:
                nfail += 1
                ctx.fail("raw:%s:repl-%s:batch-%s" % (label, ist, bst),
                         "input %d `%s`: REPL %s %s %s, as one program %s %s" % (j, ins[j][:80], ist, iv, o.get("err", ""), bst, seg),
                         stream="c27.raw", case=json.dumps(ins), impl=json.dumps(obs)[:2000], model=out[-800:],
                         oracle="each accepted input prints what the accepted inputs run as one program print at that point")
                break
    ctx.stream("c27.raw", len(cases), len(cases),
               "explicit Elk sessions from corpus/C27.raw.txt (constructs outside the modelled language); every input is expected to be "
               "accepted; REPL (in-process, as repl.evaluate) per-input stdout and status vs the segments of the same inputs run as one "
               "program by `elk run`; no model involved",
               [{"input": json.dumps(c[1])[:300], "observed": c[0]} for c in cases[:3]], dist, failures=nfail)


def regenerate(ctx):
    gen = vlib.build_harness("c27gen")
    src = os.path.join(vlib.REPO, "types", "checker")
    rc, out = vlib.sh([gen, "-src", src], timeout=300)
    if rc != 0 or "Definition gen_fields" not in out:
        ctx.broke("tie: field extraction from types/checker/*.go failed (Checker struct / CheckSource / CheckProgram not found)", out[-2000:])
        return False
    vlib.write_if_changed(GEN_V, out)
    rows = re.findall(r'mkField "(\w+)" (\w+) (\w+) (\w+) (\w+) (\w+) (\w+)', out)
    ctx.extra["checker_fields"] = len(rows)
    ctx.extra["checker_fields_restored"] = [r[0] for r in rows if r[2] == "true"]
    ctx.extra["checker_fields_reset_by_checksource"] = [r[0] for r in rows if r[3] == "true" and r[2] != "true"]
    return True


def run_sessions(ctx, h, sessions, digest=True):
    """sessions: list of (sid, [elk inputs]); returns {sid: [per-input objects]}; chunks of sessions share a process"""
    work = os.path.join(vlib.BUILD, "work", "C27")
    os.makedirs(work, exist_ok=True)
    chunk = 6
    jobs = []
    for c in range(0, len(sessions), chunk):
        part = sessions[c:c + chunk]
        path = os.path.join(work, "sess_%d.txt" % c)
        with open(path, "w") as f:
            for sid, ins in part:
                f.write("s%d\t%s\n" % (sid, json.dumps(ins)))
        jobs.append((path, part))

    def one(job):
        path, part = job
        cmd = [h, "-input", path] + (["-extra", "digest"] if digest else [])
        rc, out = vlib.sh(cmd, timeout=1800, env=vlib.elk_env())
        res = {}
        lines = [l for l in out.split("\n") if l.count("\t") >= 2]
        for (sid, _), l in zip(part, lines):
            try:
                res[sid] = json.loads(l.split("\t")[2])
            except ValueError:
                res[sid] = None
        for sid, _ in part:
            if sid not in res:
                res[sid] = None
        return rc, out, res
    allres = {}
    bad = []
    for rc, out, res in vlib.parallel_map(one, jobs, workers=8):
        allres.update(res)
        if rc != 0:
            bad.append(out[-1500:])
    return allres, bad


def run(ctx):
    ctx.explanation = (
        "Proved (Coq, for every history of any length, induction over the history): on the model of Checker.CheckSource / "
        "CheckProgram's phases (namespace+constant hoisting, compiler chain, method hoisting with override check, constant "
        "check, method bodies, top-level statements, slot allocation) and of InterpretREPL's persistent slot-addressed value "
        "stack, over a tiny language with methods, Int constants, named types (typedef; aliases of Int/String/aliases/classes, hoisted, "
        "forward references, circular and undefined ones rejected, no redeclaration), empty classes and their instances, locals "
        "declared with type expressions: the results of the inputs the REPL runs equal, input by input, the results of a name-keyed reference interpreter "
        "run on the accepted inputs only (C27_incremental_eq_batch; an uncaught runtime error ends that input only, effects "
        "before it persist); a rejected input leaves methods, constants, named types, classes, locals, declared types, the compiler's slot table and "
        "the VM state unchanged and the rest of the session is the same with or without it (C27_rollback, "
        "C27_rollback_types: type expressions denote the same before and after, C27_rejected_no_trace). The model mirrors the code WITH fixes/C27-*.patch; for CheckSource as found the same model with "
        "fx=false refutes both (C27_rollback_refuted, C27_incremental_refuted: early failure leaves the namespace-definition "
        "compiler in Checker.compiler). C27_frame_audit (vm_compute, re-proved every run on the table regenerated from "
        "the Go AST): every field of `type Checker struct` has a class (restored / reset by CheckSource / reset by CheckProgram / "
        "immutable config / append-only cache / transient-balanced) consistent with the assignments in CheckSource/CheckProgram; a field "
        "classed reset-by-CheckSource (Filename, flags, the two scope-copy caches, macroChecks, methodBodyChecks, signatureChecks) must be "
        "assigned at the top level of CheckSource before the call of CheckProgram, a field classed reset-by-CheckProgram must be assigned by "
        "an unconditional top-level statement of CheckProgram or of a pass it calls at top level. The audit does NOT check that the "
        "assignment precedes every read: Checker.phase passes it although hoisting reads the phase before CheckProgram first assigns it "
        "(known finding reject:missed:late:cyclic-typedef, found by the stream; fixes/C27-reset-phase.patch). Modules are not in the model: "
        "the printer realises named types / constants with ids >= 100 inside `module M .. end` (one flat table in the model). Constants "
        "initialised from constants are only type-checked (the compiler never defines them at run time, in batch and REPL alike; the "
        "generator never reads them). NOT proved, only "
        "observed through behaviour and digests: that DeepCopyEnv copies the whole types package faithfully, that the real "
        "checker's phases behave as the model's on programs outside the tiny language, the method-call inline caches and "
        "static call binding of the VM/compiler (the reference is compared with `elk run` batch programs and the REPL "
        "differentially).")
    ctx.trusted_base += [
        "harness/cmd/c27 drives checker.CheckSourceBytecode + vm.InterpretREPL as repl.evaluate does (signal/abort plumbing left out)",
        "harness/cmd/c27gen: go/ast extraction of the Checker fields and of the save/restore/reset facts (syntactic, one call level for setters)",
        "coq/Model/C27_FieldClasses.v: the classification table and the reasons given there for ResetByProgram/TransientBalanced/AppendOnlyCache "
        "fields are read off the source by hand; the audit checks only the syntactic facts (assigned before CheckProgram / unconditionally by "
        "CheckProgram), not that a reset precedes every read of the field",
        "the Python printer maps named types / constants with ids >= 100 to members of modules (`module M1X7; typedef T102X7 = ..; end`, "
        "`M1X7::T102X7`): that module scoping does not change the meaning of these declarations is assumed, not modelled",
        "the Python printer from the tiny language to Elk and the batch-program builder (do/catch around the raising statement)",
        "hook types/checker/verif_c27.go (environment digest: namespaces, constants, methods, ivars, locals, scopes)",
    ]
    regenerate(ctx)
    ctx.run_proof_gate()
    h = vlib.build_harness("c27")
    elk = vlib.build_elk()
    try:
        m = vlib.build_model("C27")
    except vlib.BuildError as e:
        ctx.broke("model build failed", str(e)[-2000:])
        return
    stream_raw(ctx, h, elk)
    r = ctx.rng(STREAM)
    n_sessions = ctx.n(48, 2500)
    sessions = []   # (sexp, kinds, must_rej, origin)
    if os.path.exists(CORPUS):
        for l in open(CORPUS):
            l = l.strip()
            if l and not l.startswith("#"):
                sx = sx_parse(l.split("\t")[-1])
                label = l.split("\t")[0] if "\t" in l else "c"
                sessions.append((sx, ["corpus:" + label] * (len(sx) - 1), [False] * (len(sx) - 1), "corpus"))
    n_corpus = len(sessions)
    for _ in range(n_sessions):
        sx, kinds, mr = gen_session(r, r.range(5, ctx.n(8, 12)))
        sessions.append((sx, kinds, mr, "gen"))

    # model
    ids = ["s%d" % i for i in range(len(sessions))]
    rc, exp, mout = vlib.run_model(m, ids, {i: sx_str(s[0]) for i, s in zip(ids, sessions)}, timeout=1800)
    if rc != 0:
        ctx.broke("correspondence %s: model driver exited %d" % (STREAM, rc), mout[-2000:])
        return
    # implementation (REPL, in-process)
    impl, bad = run_sessions(ctx, h, [(i, [elk_input(inp, i) for inp in s[0][1:]]) for i, s in enumerate(sessions)])
    if bad and not any(v for v in impl.values()):
        ctx.broke("correspondence %s: harness produced nothing" % STREAM, bad[0])
        return

    dist, distinct, nfail, evals, n_inputs = {}, set(), 0, 0, 0
    batch_jobs, batch_meta = [], {}
    samples = []
    rb = ctx.rng(STREAM + ".batch")
    for i, (sx, kinds, must_rej, origin) in enumerate(sessions):
        sid = "s%d" % i
        line = exp.get(sid, "")
        if " # " not in line and not line.endswith(" #"):
            ctx.broke("model driver gave no answer for a session", sx_str(sx)[:500] + " -> " + line)
            continue
        mi, mb = (line.split(" # ") + [""])[:2]
        mincr = mi.split(";")
        mbatch = [x for x in mb.split(";") if x != ""]
        obs = impl.get(i)
        evals += 1
        if obs is None:
            nfail += 1
            ctx.fail("sess:harness-crash", "the harness process died on session %s" % sx_str(sx)[:300], stream=STREAM,
                     case=sx_str(sx), impl="process exit", model=mi, oracle="in-process REPL must not take the process down")
            continue
        interesting = False
        prev_special = "none"
        ok_so_far = True
        prev_env = None
        for k, inp in enumerate(sx[1:]):
            n_inputs += 1
            kind = kinds[k]
            dist[kind] = dist.get(kind, 0) + 1
            ms, mv, _ = canon_model(mincr[k])
            o = obs[k]
            ist, iv = canon_impl(o)
            if ist == "skipped":
                break
            if ok_so_far and (ist != ms or iv != mv):
                nfail += 1
                ok_so_far = False
                cls = ist if ist != ms else ist + "-output"
                # late failures are keyed by the fault (the history before them is in the text, not in the key)
                ctx.fail(("sess:%s:impl-%s:model-%s" % (kind, cls, ms)) if kind.startswith(("late:", "flat:")) else
                         ("sess:%s:after-%s:impl-%s:model-%s" % (kind, prev_special, cls, ms)),
                         "input %d (%s) of the session: REPL %s %s %s, model %s %s" % (k, kind, ist, iv, o.get("err") or o.get("diag") or "", ms, mv),
                         stream=STREAM, case=sx_str(sx), impl=json.dumps(obs)[:3000], model=mi,
                         oracle="per-input result of the REPL vs the extracted model (C27_incremental_eq_batch)")
            # oracle 3: rollback evaluated on the implementation alone
            if ist == "rej":
                if prev_env is not None and o.get("env") and o["env"] != prev_env:
                    nfail += 1
                    ctx.fail("rollback:digest:%s" % kind.split(":")[0],
                             "environment digest changed across rejected input %d (%s): %s -> %s" % (k, kind, prev_env, o["env"]),
                             stream=STREAM, case=sx_str(sx), impl=json.dumps(obs)[:3000], model=mi,
                             oracle="a rejected input leaves classes, methods, constants, locals and declared types as they were")
            elif must_rej[k] and ist in ("ok", "err"):
                nfail += 1
                if kind.startswith("probe-"):
                    ctx.fail("rollback:leak:%s" % kind, "input %d uses a name that only a rejected input defined, and was accepted" % k,
                             stream=STREAM, case=sx_str(sx), impl=json.dumps(obs)[:3000], model=mi,
                             oracle="a rejected input adds no classes, methods, constants, named types or locals")
                else:
                    ctx.fail("reject:missed:%s" % kind, "input %d is ill-typed by construction (%s: the same text is rejected as a batch program) "
                             "and was accepted by the REPL" % (k, kind),
                             stream=STREAM, case=sx_str(sx), impl=json.dumps(obs)[:3000], model=mi,
                             oracle="the REPL accepts an input only if the accepted inputs and that input are accepted as one program")
            if o.get("env"):
                prev_env = o["env"]
            if not ok_so_far:
                break       # the generator's bookkeeping (ghost names, expected rejections) is void after the first divergence
            if ist in ("rej", "err", "panic") or kind == "valid-redef":
                if ist != "ok":
                    interesting = True
                prev_special = "rejected-early" if kind == "early" else "rejected-late" if ist == "rej" else "rterr" if ist == "err" else "redef" if kind == "valid-redef" else ist
        if interesting:
            distinct.add(sx_str(sx))
        if len(samples) < 3 and interesting:
            samples.append({"input": sx_str(sx)[:600],
                            "observed": ";".join("%s:%s" % (canon_impl(o)[0], ",".join(canon_impl(o)[1])) for o in obs)[:300]})
        # oracle 2: batch programs for the last accepted input and one random accepted input
        acc = [k for k in range(len(sx) - 1) if canon_model(mincr[k])[0] != "rej"]
        if ok_so_far and acc:
            picks = {acc[-1]}
            picks.add(acc[rb.below(len(acc))])
            for k in sorted(picks):
                name = "b%d_%d" % (i, k)
                batch_jobs.append((name, batch_program(sx, i, k, mincr)))
                batch_meta[name] = (i, k, mincr[k], mbatch[acc.index(k)], obs[k])

    # batch oracle
    work = os.path.join(vlib.BUILD, "work", "C27", "batch")
    bres = vlib.run_programs(elk, batch_jobs, work, workers=8, timeout=300)
    nbatch, hoist_sensitive, bfail = 0, 0, 0
    for name, (i, k, m_incr, m_batch, o) in batch_meta.items():
        rc, out, cls = bres[name]
        nbatch += 1
        sx, kinds = sessions[i][0], sessions[i][1]
        seg = segment(out, k)
        bs, bv, _ = canon_model(m_batch)
        ist, iv = canon_impl(o)
        want_err = bs == "err"
        got_err = seg is not None and "!err" in seg
        got = [l for l in (seg or []) if l != "!err"]
        sensitive = canon_model(m_incr)[:2] != (bs, bv)
        if sensitive:
            hoist_sensitive += 1
        if cls != "ok" or seg is None or got != bv or got_err != want_err:
            bfail += 1
            ctx.fail("batch:%s:elk-vs-model" % kinds[k].split(":")[0],
                     "`elk run` of the accepted inputs up to %d as one program: segment %s%s (exit class %s), model batch %s" % (k, got, " !err" if got_err else "", cls, m_batch),
                     stream=STREAM, case=sx_str(sx), impl=out[-1500:], model=m_batch,
                     oracle="batch program vs extracted whole-program semantics")
        elif not sensitive and (got != iv or got_err != (ist == "err")):
            bfail += 1
            ctx.fail("batch:%s:repl-vs-elk" % kinds[k].split(":")[0],
                     "input %d: REPL printed %s (%s), the batch program printed %s for that input" % (k, iv, ist, got),
                     stream=STREAM, case=sx_str(sx), impl=json.dumps(o)[:1500], model=m_batch,
                     oracle="each accepted input prints what the accepted inputs run as one program print at that point")
    rule = ("seeded sessions of 5-8 (thorough 5-12) inputs over the tiny language of Model/C27_Repl.v (<= 6 methods Int->Int|String, <= 9 Int "
            "constants (6 at Root, 3 inside modules; 1/3 of them initialised from earlier constants and then never read), <= 11 named types (6 at "
            "Root, 5 inside 2 modules) aliasing Int/String/an earlier or later named type/a class, <= 4 empty classes (reopened at will) and "
            "their instances, <= 6 locals whose declared type is Int|String|a named type|a class; method bodies over the parameter, constants and "
            "other methods incl. ones defined later in the same input; redefinitions with the same signature): valid inputs (1/3 of them 'flat': "
            "Root-level typedef/const/var/print only, nothing that opens a scope), late failures (undefined local/constant/method/type/class, "
            "declaration / assignment / arithmetic type mismatch incl. through aliases and objects, redeclared local/constant/named type, circular "
            "named type, ill-typed method body, invalid override) placed after >= 1 valid statement of the same input (2/5 of them flat, so that "
            "whatever the checker cached while registering the declarations survives to the end of the rejected input), early failures "
            "(`class Z < Nope`), runtime errors (division by zero in a print, an assignment or nested arithmetic) after "
            "some effects and followed only by prints, probes using names only a rejected input defined (3/4 from the latest rejected input; "
            "local / constant / constant-from-constant / method / `typedef New = Ghost` at Root or in a module / `var v: Ghost` / ghost class), "
            "print-all inputs; per-session unique "
            "method/constant names (the runtime's namespace is process-global); driven in-process through CheckSourceBytecode+InterpretREPL; "
            "compared per input with the extracted model (status + printed values); rollback oracle on the implementation alone (digest equality "
            "across rejected inputs, probes rejected); batch oracle: `elk run` on the concatenation of the accepted inputs up to k (last accepted and "
            "one random accepted input per session), segment k vs the model's whole-program semantics and vs the REPL's output (skipped for the REPL "
            "comparison only when the model says hoisting a later redefinition changes an earlier segment's effects: counted as hoist_sensitive); "
            "non-trivial = session with at least one rejected or failing input; distinct by session text")
    ctx.stream(STREAM, evals, len(distinct), rule, samples, dist, failures=nfail + bfail, inputs=n_inputs, corpus_sessions=n_corpus,
               batch_programs=nbatch, batch_hoist_sensitive=hoist_sensitive, harness_errors=len(bad))


def setup_gen():
    """called by setup.sh: write coq/Gen/C27_CheckerFields.v before the full make"""
    regenerate(vlib.Ctx("C27", "quick", 1))
