"""C10 — runtime sizing parameters do not change program results."""
import json
import os
import sys

import vlib

sys.path.insert(0, os.path.join(vlib.ROOT, "lib"))
import c13lang  # noqa: E402
import c13machine  # noqa: E402
import c10sweep  # noqa: E402

SLOT = 24  # unsafe.Sizeof(value.Value)

LIMIT_MARKS = ("maximum value stack size exceeded", "call stack overflow")


def cfg_class(env):
    """canonical class of a configuration (part of failure keys)"""
    if not env:
        return "default"
    parts = []
    for k in sorted(env):
        v = int(env[k])
        short = {"ELK_INIT_VALUE_STACK_SIZE": "init", "ELK_MAX_VALUE_STACK_SIZE": "max", "ELK_CALL_STACK_SIZE": "calls",
                 "ELK_DEFAULT_THREAD_POOL_SIZE": "pool", "ELK_DEFAULT_THREAD_POOL_QUEUE_SIZE": "queue",
                 "ELK_SYMBOL_TABLE_INITIAL_SIZE": "symtab"}[k]
        if short == "init":
            c = "<1slot" if v < SLOT else ("small" if v < 24000 else ("default" if v == 24000 else "large"))
        elif short in ("pool", "queue"):
            c = "1" if v <= 1 else "n"
        else:
            c = "small" if v < 50000 else "large"
        parts.append("%s=%s" % (short, c))
    return ",".join(parts)


def outcome_class(rc, out, cls):
    if cls == "ok":
        return "wrong-output"
    if "index out of range [-1]" in out and "vm.New" in out:
        return "startup-panic"
    return cls


def sample_configs(rng, k):
    """points of the lattice of environment settings; always the default, one tiny and one
    small initial stack, then random combinations"""
    inits = ["0", "23", "24", "1024", "4096", "6144", "9000", "12000", "24000", "48000", "2400000"]
    cfgs = [{}, {"ELK_INIT_VALUE_STACK_SIZE": rng.choice(["0", "23", "24", "1024"])},
            {"ELK_INIT_VALUE_STACK_SIZE": rng.choice(["4096", "6144", "9000", "12000"])}]
    while len(cfgs) < k:
        e = {}
        if rng.chance(3, 4):
            e["ELK_INIT_VALUE_STACK_SIZE"] = rng.choice(inits)
        if rng.chance(1, 4):
            e["ELK_MAX_VALUE_STACK_SIZE"] = rng.choice(["200000", "1000000", "400000000"])
        if rng.chance(1, 4):
            e["ELK_CALL_STACK_SIZE"] = rng.choice(["20000", "74000", "300000"])
        if rng.chance(1, 3):
            e["ELK_DEFAULT_THREAD_POOL_SIZE"] = rng.choice(["1", "2", "8"])
        if rng.chance(1, 3):
            e["ELK_DEFAULT_THREAD_POOL_QUEUE_SIZE"] = rng.choice(["1", "2", "16", "256"])
        if rng.chance(1, 4):
            e["ELK_SYMBOL_TABLE_INITIAL_SIZE"] = rng.choice(["0", "1", "4096", "200000"])
        if e:
            cfgs.append(e)
    return cfgs


def run_matrix(elk, jobs, workdir, timeout):
    """jobs: list of (jobid, source, env). returns {jobid: (rc, out, cls)}"""
    os.makedirs(workdir, exist_ok=True)

    def one(j):
        jid, src, env = j
        path = os.path.join(workdir, jid + ".elk")
        with open(path, "w") as f:
            f.write(src)
        rc, out = vlib.sh([elk, "run", path], cwd=workdir, env=vlib.elk_env(env), timeout=timeout)
        try:
            os.remove(path)
        except OSError:
            pass
        return jid, (rc, out, vlib.classify_elk(rc, out))
    return dict(vlib.parallel_map(one, jobs, 12))


def load_corpus(path):
    items = []
    if not os.path.exists(path):
        return items
    for l in open(path):
        l = l.rstrip("\n")
        if not l or l.startswith("#"):
            continue
        head, _, envs = l.partition("\t")
        f = head.split()
        env = json.loads(envs or "{}")
        if f[0] == "src":
            d = os.path.join(vlib.ROOT, "corpus", "C10.src")
            items.append(("src:" + f[1], open(os.path.join(d, f[1] + ".elk")).read(),
                          open(os.path.join(d, f[1] + ".exp")).read(), env, ["corpus"]))
        elif f[0] == "gen":
            p = c13lang.gen_program(vlib.SplitMix(int(f[2])), f[1])
            exp, _ = c13lang.interp(p)
            if exp is not None:
                items.append(("gen:%s:%s" % (f[1], f[2]), c13lang.to_elk(p), exp, env, p["features"]))
    return items


def run(ctx):
    ctx.explanation = (
        "PROVED (Coq, coq/Props/C10.v) on the address-level stack machine model: growValueStack with the FIXED rebasing "
        "(live frames' fp, sp/fp, every upvalue on the open list, each exactly once) leaves the offset view unchanged for every "
        "new base address (C10_grow_invisible); the formulas of the unfixed code do not (C10_grow_old_refuted: negated frame offsets, "
        "open upvalues not rebased / negated / left in the old array). PROVED UNBOUNDED (C10_run_indep, via the simulation proof "
        "C13_refines): for ANY two base addresses and initial capacities and ANY placement of growth steps, two operation sequences "
        "that are equal once the growth steps are erased, satisfy the closing discipline D and never push beyond the current "
        "capacity produce the same reads. TIED TO THE GO CODE at machine level: c10.machine runs seeded "
        "operation traces on a real vm.Thread (hook vm/verif_c13.go: push/pop/locals/captureUpvalue/opCloseUpvalues/callBytecodeFunction/"
        "restoreLastFrame/growValueStack (no tail calls: C13), initial stacks of 4-64 slots so the 70% rule fires inside call chains) "
        "and compares reads and the complete offset view with the extracted Coq machine; c10.indep replays every D-respecting trace "
        "without its growth operations on a 4096-slot Thread and requires identical reads. NOT PROVED, only differential-tested (stream "
        "c10.env): everything outside the value stack (thread pool / queue / symbol-table presize / call-stack size), generators and "
        "async frames (restoring a suspended generator's saved frame on the thread's stack is NOT an operation of the proved machine: "
        "C10_generator_resume_stale_refuted is only a finite witness on the model that a restore through a destination address taken "
        "before a growth loses the frame; the Go code of CallGeneratorNext is covered at implementation level by the GENERATOR-RESUME "
        "family of the depth sweep: g.next / for-in resuming generators suspended with live locals and pending temporaries, created at "
        "the same level or suspended at the top level and passed down, at every depth of the sweep for every stack size); growth is only triggered at calls (70% rule), so a single frame needing more than 30% of the stack still "
        "overflows silently - outside the model and outside what the generated programs reach. Constructs of the run loop that "
        "hold a slot pointer across a nested call (opNext, interpolation, operator calls, native callbacks) are NOT in the Coq "
        "machine: C10_stale_slot_address_refuted only shows on the model that a write through a slot address cached before a "
        "growth is lost; the Go code is covered at implementation level by the depth sweep x construct family of c10.env.")
    ctx.trusted_base += ["uintptr arithmetic modelled in unbounded Z (no wrap at 2^64); Go allocator returns an arbitrary new base",
                         "Python reference interpreter lib/c13lang.py (store semantics) as expected-output oracle for c10.env",
                         "value.ValueSize = 24 bytes (checked by the stream: sizes below 24 are the <1slot class)",
                         "hook /repo/vm/verif_c13.go (thin wrappers around the real Thread functions)"]
    ctx.run_proof_gate()
    # machine level: real vm.Thread (hook vm/verif_c13.go) vs the extracted Coq machine, small initial stacks so that
    # growValueStack runs inside call chains with open upvalues; then the same traces without growth on a big stack
    c13machine.machine_stream(ctx, name="c10.machine", specname="c10.spec", quick=5000, thorough=300000, indep="c10.indep",
                                harness_args=("-extra", "notail"))   # tail calls are C13's subject
    elk = vlib.build_elk()
    rng = ctx.rng("c10.env")
    nprog = ctx.n(22, 400)
    ncfg = ctx.n(6, 16)
    timeout = 120
    items = load_corpus(os.path.join(vlib.ROOT, "corpus", "C10.env.txt"))
    ncorpus = len(items)
    skipped = 0
    for i in range(nprog):
        seed = rng.next() & 0x7FFFFFFF
        prng = vlib.SplitMix(seed)
        p = c13lang.gen_program(prng, "c10")
        exp, depth = c13lang.interp(p)
        if exp is None or len(exp) > 60000:
            skipped += 1
            continue
        src = c13lang.to_elk(p)
        sfx, sexp = c13lang.async_gen_suffix(prng)
        src += sfx
        exp += sexp
        for env in sample_configs(prng, ncfg):
            items.append(("gen:c10:%d" % seed, src, exp, env, p["features"] + ["depth%d" % (depth // 100 * 100)]))
    # second-generation closure programs incl. errors unwinding frames with live captured locals (profile c10c)
    for i in range(ctx.n(6, 200)):
        seed = rng.next() & 0x7FFFFFFF
        prng = vlib.SplitMix(seed)
        p = c13lang.gen_program(prng, "c10c")
        exp, depth = c13lang.interp(p)
        if exp is None or len(exp) > 60000:
            skipped += 1
            continue
        src = c13lang.to_elk(p)
        for env in sample_configs(prng, 3):
            items.append(("gen:c10c:%d" % seed, src, exp, env, p["features"] + ["depth%d" % (depth // 100 * 100)]))
    # depth sweep x construct: every stack-pointer-caching construct at every level of a recursion that passes the
    # growth thresholds, per initial stack size of the lattice, frames shifted by `offset` dummy slots
    sweep_cases = 0
    for rep in range(ctx.n(1, 5)):
        for cons in c10sweep.constructs():
            k, pad = rng.range(2, 7), rng.range(0, 3)
            depth = c10sweep.depth_for(pad)
            for size in c10sweep.SIZES + ([None] if rep == 0 else []):
                for off in ([rng.range(0, 9)] if ctx.tier == "quick" else [rng.range(0, 4), rng.range(5, 9)]):
                    src, exp = c10sweep.program(cons, k, pad, depth, off)
                    env = {"ELK_INIT_VALUE_STACK_SIZE": size} if size else {}
                    items.append(("sweep:%s:k%d:pad%d:depth%d:offset%d" % (cons, k, pad, depth, off), src, exp, env, ["sweep", cons]))
                    sweep_cases += 1
    jobs = []
    for n, (name, src, exp, env, feats) in enumerate(items):
        jobs.append(("j%d" % n, src, env))
    # the default-configuration run of every distinct program (oracle 2)
    defaults = {}
    for name, src, exp, env, feats in items:
        if name not in defaults:
            defaults[name] = "d%d" % len(defaults)
            jobs.append((defaults[name], src, {}))
    res = run_matrix(elk, jobs, os.path.join(ctx.workdir, "env"), timeout)
    dist = {}
    excluded = 0
    distinct = set()
    samples = []
    fails = 0
    for n, (name, src, exp, env, feats) in enumerate(items):
        rc, out, cls = res["j%d" % n]
        drc, dout, dcls = res[defaults[name]]
        cc = cfg_class(env)
        dist[cc] = dist.get(cc, 0) + 1
        if any(m in out for m in LIMIT_MARKS):
            # a configured limit (max value stack / call stack) was exhausted: the property excludes it
            excluded += 1
            dist["excluded:limit"] = dist.get("excluded:limit", 0) + 1
            continue
        if len(samples) < 4:
            samples.append({"program": name, "env": env, "features": feats[:8], "stdout_head": out[:60]})
        if feats[0] == "sweep":
            dist["sweep:" + feats[1]] = dist.get("sweep:" + feats[1], 0) + 1
        if (env or feats[0] == "sweep") and any(f.startswith(("deep", "recursive", "depth", "corpus", "sweep")) for f in feats):
            distinct.add((name, json.dumps(env, sort_keys=True)))
        bad = None
        if rc != 0 or out != exp:
            bad = ("model", "stdout/exit differ from the reference semantics")
        elif (rc, out) != (drc, dout) and not any(m in dout for m in LIMIT_MARKS):
            bad = ("default", "stdout/exit differ from the default-configuration run")
        if bad:
            fails += 1
            oc = outcome_class(rc, out, cls)
            if oc not in ("startup-panic", "wrong-output"):
                oc = "crash"
            iv = env.get("ELK_INIT_VALUE_STACK_SIZE")
            ic = "init-default" if iv is None or iv == "24000" else ("init<1slot" if int(iv) < SLOT else ("init-small" if int(iv) < 24000 else "init-large"))
            # canonical class: kind of failure x class of the initial stack size (the other variables only ride along)
            key = "%s:%s" % (oc, ic)
            if feats[0] == "sweep":
                # canonical class: the construct under which the stack was reallocated x kind of failure
                key = "sweep:%s:%s" % (feats[1], oc)
            ctx.fail(key, "%s under %s: %s (exit %d, outcome %s; default run outcome %s)" % (name, env or "default config", bad[1], rc, cls, dcls),
                     stream="c10.env", case={"program": name, "env": env, "source": src if len(src) < 6000 else src[:6000]},
                     impl=out[-1500:], model=exp[-600:], oracle=bad[1])
    ctx.stream("c10.env", len(items) - excluded, len(distinct),
               "generated deterministic programs (closures alive across deep method recursion, recursive closures with captured locals, "
               "loops of every kind capturing their variables, async tasks + generator suffix) x lattice of the six ELK_* size variables; "
               "stdout+exit must equal the reference interpreter's output AND the default-configuration run; runs that hit a configured "
               "limit are excluded; non-trivial = non-default configuration on a program with deep recursion; %d corpus cases first. "
               "Plus profile c10c (errors thrown 1-7 frames below caught in frames with live captured locals; labelled exits from "
               "inner loops) and the DEPTH SWEEP x CONSTRUCT family (lib/c10sweep.py, %d runs): one construct that keeps a stack "
               "pointer across a nested bytecode call per program (for-in over a user-defined iterator / iterable, closure calls, "
               "string interpolation calling to_string, operator / subscript / predicate methods of user classes, native map / fold "
               "/ filter calling back bytecode closures with and without captured writes, nested call arguments, error unwinding, "
               "tail calls; GENERATOR RESUME: g.next and for-in on generators suspended with live state - locals only, or inside a list "
               "literal with k+7 pending temporaries so that the saved frame is wider than the recursion's frame stride - created at the "
               "same level or suspended at the top level and passed down the recursion, and a generator body calling a bytecode helper; the helper they call takes 2-7 extra arguments) executed at EVERY level of a recursion deep enough to "
               "pass 70 %% of 256/512 slots (and of the other lattice sizes and their doubles), per ELK_INIT_VALUE_STACK_SIZE in "
               "{1, 6400, 6800, 7200, 9000, 12000, unset} with 0-9 dummy top-level slots shifting the frames; expected output "
               "computed in Python per level" % (ncorpus, sweep_cases),
               samples, dist, mismatches=fails, excluded_limit=excluded, skipped_too_big=skipped, corpus_cases=ncorpus,
               sweep_runs=sweep_cases)
