"""C19 — inspect output is Elk source that evaluates back to an equal value."""
import os
import vlib

GR = None          # bytearray: unicode.IsGraphic dumped from Go


def load_graphic(path):
    global GR
    GR = bytearray(0x110000)
    for l in open(path):
        a, b = l.split()
        for r in range(int(a), int(b) + 1):
            GR[r] = 1


def bucket(r):
    g = "graphic" if 0 <= r < 0x110000 and GR[r] else "nongraphic"
    if r < 0:
        return "negative"
    if r < 0x80:
        return "ascii-" + g
    if r < 0x100:
        return "latin1-" + g
    if 0xD800 <= r <= 0xDFFF:
        return "surrogate"
    if r < 0x10000:
        return "bmp-" + g
    if r <= 0x10FFFF:
        return "astral-" + g
    return "beyond-max"


def steps(b):
    """Go's DecodeRuneInString loop: list of (chunk, rune or None for an invalid byte)"""
    out = []
    i = 0
    while i < len(b):
        c = b[i]
        n = 1 if c < 0x80 else 2 if 0xC2 <= c <= 0xDF else 3 if 0xE0 <= c <= 0xEF else 4 if 0xF0 <= c <= 0xF4 else 0
        ch = b[i:i + n]
        try:
            if n == 0 or len(ch) < n:
                raise ValueError
            r = ord(ch.decode("utf-8"))
            out.append((ch, r))
            i += n
        except (ValueError, UnicodeDecodeError):
            out.append((b[i:i + 1], None))
            i += 1
    return out


def step_class(ch, r):
    return ("invalid-byte-" + bucket(ch[0])) if r is None else ("rune-" + bucket(r))


class Minimiser:
    """class of the first single decoding step on which implementation and model disagree.
    All steps of a failing input are tried in one harness+model run; a step class that was seen
    to differ once is recognised in later inputs without running anything (bounded cost)."""

    def __init__(self, h, m, gfile):
        self.h, self.m, self.gfile, self.cache, self.bad_classes, self.runs = h, m, gfile, {}, set(), 0

    def probe(self, cases):
        todo = [c for c in cases if c not in self.cache]
        if not todo:
            return
        self.runs += 1
        tmp = os.path.join(vlib.BUILD, "work", "C19", "min.txt")
        with open(tmp, "w") as f:
            f.write("".join(c + "\n" for c in todo))
        rc, out = vlib.sh([self.h, "-extra", "insp", "-n", "0", "-input", tmp], env=vlib.elk_env(), timeout=300)
        ids, inputs, obs = vlib.parse_case_lines(out)
        rc2, exp, _ = vlib.run_model(self.m, ids, inputs, args=[self.gfile], timeout=300)
        for c in todo:
            self.cache[c] = True
        for i in ids:
            self.cache[inputs[i]] = obs[i] != exp.get(i)

    def key(self, inp, obs, exp):
        f = inp.split()
        if f[0] == "C":
            return "insp:char:" + bucket(int(f[1]))
        if f[0] == "I":
            return "insp:int"
        b = bytes.fromhex(f[1]) if len(f) > 1 else b""
        st = steps(b)
        for ch, r in st:
            if step_class(ch, r) in self.bad_classes:
                return "insp:string:" + step_class(ch, r)
        if self.runs < 40:
            self.probe(["S " + ch.hex() for ch, r in st])
            for ch, r in st:
                if self.cache.get("S " + ch.hex()):
                    self.bad_classes.add(step_class(ch, r))
                    return "insp:string:" + step_class(ch, r)
            return "insp:string:interaction"
        return "insp:string:unminimised"


def run(ctx):
    ctx.explanation = (
        "Proved (Coq, for every unicode.IsGraphic / IsLetter): every byte string (valid UTF-8 or not) printed by the model of "
        "String.Inspect is read by the model of the lexer's string-literal mode as ONE plain literal with exactly those bytes; every "
        "Unicode scalar value printed by the model of Char.Inspect is read back by Lexer.character+Parser.charLiteral as that char; "
        "every integer printed in decimal is read back by numberLiteral+ParseBigInt(lexeme,0)(+unary minus) as that integer. The "
        "printer models mirror value/string.go and value/char.go AS FIXED by fixes/C19-inspect-escapes.patch; for the unfixed printers "
        "the _refuted theorems exhibit U+0080. Tie: (1) c19.insp compares Inspect() of strings/chars/ints with the extracted model "
        "(IsGraphic dumped from Go at check time) and feeds the implementation's text to the model's reader; (2) c19.rt evaluates "
        "v.inspect end to end in-process (checker+compiler+VM) for strings, chars, Ints, Float/Float32/Float64/BigFloat, fixed-width "
        "ints, symbols, nil/bool and nested lists/tuples/maps/records/sets/ranges/regexes and compares with v by a structural dump. "
        "NOT proved, only tested by c19.rt: floats (shortest round trip is Go strconv), BigFloat, fixed-width ints, symbols, "
        "collections, regexes, and that parser/compiler/VM turn the lexed literal into that value. Int literals in bases 2/4/8/12/16 "
        "and String#to_int are modelled (parse_bigint) but no theorem is stated for them. Chars outside Unicode scalar values "
        "(surrogates produced by Char#++) are outside the theorem's domain.")
    ctx.trusted_base += [
        "unicode.IsGraphic / unicode.IsLetter as Section variables (theorems hold for every instance; table dumped from Go for the extracted run)",
        "strconv.FormatInt / big.Int.String modelled as canonical decimal (validated by c19.insp)",
        "fmt %02x/%04x/%08X modelled as fixed-width hex (validated by c19.insp)",
        "lexer model restricted to a literal that spans the whole input; parser/compiler/VM literal evaluation reached only by c19.rt",
        "the harness's structural dump and in-process evaluation (checker.CheckSourceBytecode + vm.InterpretTopLevel)",
    ]
    ctx.run_proof_gate()
    h = vlib.build_harness("c19")
    m = vlib.build_model("C19")
    gfile = os.path.join(ctx.workdir, "graphic.txt")
    rc, out = vlib.sh([h, "-extra", "graphic"], env=vlib.elk_env(), timeout=300)
    if rc != 0 or not out.strip():
        ctx.broke("c19: cannot dump unicode.IsGraphic from the harness", out[-2000:])
        return
    with open(gfile, "w") as f:
        f.write(out)
    load_graphic(gfile)
    mini = Minimiser(h, m, gfile)

    def nontrivial(inp, obs):
        f = inp.split()
        if f[0] == "S":
            return len(f) > 1 and any(c in f[1] for c in "89abcdef") or (len(f) > 1 and any(x in bytes.fromhex(f[1]) for x in b'"\\$#\n\t\r\x00\x1b'))
        if f[0] == "C":
            return not (32 < int(f[1]) < 127)
        return abs(int(f[1])) > 9

    r = vlib.value_stream(
        ctx, "c19.insp", h, m, ctx.n(6000, 200000), mini.key,
        "seeded byte strings (valid runes from all planes incl. U+0080-U+00FF, control characters, quotes, backslash, $ and # triggers, "
        "raw/invalid/truncated UTF-8), chars, small/boundary/400-bit ints; thorough adds every code point once as a char and once inside "
        "a string; observable = Inspect() bytes; non-trivial = contains a non-ASCII byte or an escaped character / non-printable char / "
        "multi-digit int; distinct by full input",
        corpus=os.path.join(vlib.ROOT, "corpus", "C19.insp.txt"), nontrivial=nontrivial,
        harness_args=("-extra", "insp"), model_args=(gfile,),
        classify=lambda inp, obs: inp.split(" ", 1)[0])
    if r:
        ids, inputs, obs, exp = r
        if any(v.endswith("MODEL-RT-FAIL") for v in exp.values()):
            bad = [inputs[i] for i in ids if exp.get(i, "").endswith("MODEL-RT-FAIL")][:3]
            ctx.broke("c19.insp: the extracted model's own round trip failed (contradicts the theorems)", str(bad))
        # second oracle: the implementation's text read by the model's reader must give the input back
        lids, linp, want = [], {}, {}
        for i in ids:
            k = inputs[i].split(" ", 1)
            if obs[i] == "bad-input" or obs[i].startswith("panic"):
                ctx.fail("insp:" + obs[i].split()[0], "%s: Inspect -> %s" % (inputs[i], obs[i]), stream="c19.insp", case=inputs[i], impl=obs[i])
                continue
            lids.append(i)
            linp[i] = "L" + k[0] + " " + obs[i]
            want[i] = inputs[i].strip() if k[0] != "S" or len(k) > 1 else "S "
        rc3, back, lout = vlib.run_model(m, lids, linp, args=[gfile])
        nback = 0
        for i in lids:
            got = back.get(i, "none")
            if got.strip() != want[i].strip():
                nback += 1
                if exp.get(i) == obs[i]:
                    ctx.fail("lexback:model-agrees", "%s: printed text agrees with the model but reads back as %s" % (inputs[i], got),
                             stream="c19.insp", case=inputs[i], impl=obs[i], model=got, oracle="reader model on implementation output")
                elif nback <= 200:
                    ctx.fail(mini.key(inputs[i], obs[i], exp.get(i)),
                             "%s: Inspect() = %s (hex) which the lexer model reads back as %s" % (inputs[i], obs[i], got),
                             stream="c19.insp", case=inputs[i], impl=obs[i], model=exp.get(i),
                             oracle="inspect output, read by the lexer model, is not the original value")
        ctx.streams["c19.insp"]["lexback_failures"] = nback

    # ---- end to end
    n = ctx.n(1500, 60000)
    corpus = os.path.join(vlib.ROOT, "corpus", "C19.rt.txt")
    cmd = [h, "-seed", str(ctx.sseed("c19.rt")), "-n", str(n), "-tier", ctx.tier, "-extra", "rt"]
    if os.path.exists(corpus):
        cmd += ["-input", corpus]
    rc, out = vlib.sh(cmd, timeout=3000, env=vlib.elk_env())
    ids, inputs, obs = vlib.parse_case_lines(out)
    programs = obs.pop("meta", None)
    ids = [i for i in ids if i != "meta"]
    if rc != 0 or not ids:
        ctx.broke("c19.rt: harness exited %d" % rc, out[-3000:])
        if not ids:
            return
    dist, distinct, skipped, nfail = {}, set(), 0, 0
    for i in ids:
        kind = inputs[i].split(" ", 1)[0]
        dist[kind] = dist.get(kind, 0) + 1
        o = obs[i]
        if o.startswith("skip"):
            skipped += 1
            continue
        if kind != "K":
            distinct.add(inputs[i])
        if o != "eq":
            nfail += 1
            cls = o.split("class=", 1)[1].split(" ", 1)[0] if "class=" in o else "unclassified"
            if nfail <= 500:
                ctx.fail("rt:" + cls, "%s: v.inspect evaluated end to end is not v: %s" % (inputs[i], o[:400]),
                         stream="c19.rt", case=inputs[i], impl=o, model="eq",
                         oracle="evaluating v.inspect gives a value equal to v")
    if skipped * 20 > len(ids):
        ctx.broke("c19.rt: %d of %d cases could not be constructed" % (skipped, len(ids)), "")
    ctx.stream("c19.rt", len(ids) - skipped, len(distinct),
               "values built by Go constructors (strings over all planes/controls/quotes/$/#/invalid UTF-8, chars, ints to 300 bits, float "
               "boundary and random bit patterns, Float32/64, BigFloat, fixed-width ints incl. min/max, symbols, nil/bool) or by evaluating a "
               "generated nested collection/range/regex expression; text = inspect; evaluated in-process in batches; compared by structural "
               "dump; non-trivial = everything except nil/true/false; distinct by input",
               [{"input": inputs[i], "observed": obs[i][:200]} for i in ids[:2] + ids[-2:]], dist,
               failures=nfail, skipped=skipped, programs_evaluated=programs)
