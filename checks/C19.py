"""C19 — inspect output is Elk source that evaluates back to an equal value."""
import os
import vlib

GR = None          # bytearray: unicode.IsGraphic dumped from Go


def load_graphic(path):
    global GR
    GR = bytearray(0x110000)
    for l in open(path):
        a, b = l.split()
        for r in range(int(a), int(b) + 1):
            GR[r] = 1


def bucket(r):
    g = "graphic" if 0 <= r < 0x110000 and GR[r] else "nongraphic"
    if r < 0:
        return "negative"
    if r < 0x80:
        return "ascii-" + g
    if r < 0x100:
        return "latin1-" + g
    if 0xD800 <= r <= 0xDFFF:
        return "surrogate"
    if r < 0x10000:
        return "bmp-" + g
    if r <= 0x10FFFF:
        return "astral-" + g
    return "beyond-max"


def steps(b):
    """Go's DecodeRuneInString loop: list of (chunk, rune or None for an invalid byte)"""
    out = []
    i = 0
    while i < len(b):
        c = b[i]
        n = 1 if c < 0x80 else 2 if 0xC2 <= c <= 0xDF else 3 if 0xE0 <= c <= 0xEF else 4 if 0xF0 <= c <= 0xF4 else 0
        ch = b[i:i + n]
        try:
            if n == 0 or len(ch) < n:
                raise ValueError
            r = ord(ch.decode("utf-8"))
            out.append((ch, r))
            i += n
        except (ValueError, UnicodeDecodeError):
            out.append((b[i:i + 1], None))
            i += 1
    return out


def step_class(ch, r):
    return ("invalid-byte-" + bucket(ch[0])) if r is None else ("rune-" + bucket(r))


class Minimiser:
    """class of the first single decoding step on which implementation and model disagree.
    All steps of a failing input are tried in one harness+model run; a step class that was seen
    to differ once is recognised in later inputs without running anything (bounded cost)."""

    def __init__(self, h, m, gfile):
        self.h, self.m, self.gfile, self.cache, self.bad_classes, self.runs = h, m, gfile, {}, set(), 0

    def probe(self, cases):
        todo = [c for c in cases if c not in self.cache]
        if not todo:
            return
        self.runs += 1
        tmp = os.path.join(vlib.BUILD, "work", "C19", "min.txt")
        with open(tmp, "w") as f:
            f.write("".join(c + "\n" for c in todo))
        rc, out = vlib.sh([self.h, "-extra", "insp", "-n", "0", "-input", tmp], env=vlib.elk_env(), timeout=300)
        ids, inputs, obs = vlib.parse_case_lines(out)
        rc2, exp, _ = vlib.run_model(self.m, ids, inputs, args=[self.gfile], timeout=300)
        for c in todo:
            self.cache[c] = True
        for i in ids:
            self.cache[inputs[i]] = obs[i] != exp.get(i)

    def key(self, inp, obs, exp):
        f = inp.split()
        if f[0] == "C":
            return "insp:char:" + bucket(int(f[1]))
        if f[0] == "I":
            return "insp:int"
        b = bytes.fromhex(f[1]) if len(f) > 1 else b""
        st = steps(b)
        for ch, r in st:
            if step_class(ch, r) in self.bad_classes:
                return "insp:string:" + step_class(ch, r)
        if self.runs < 40:
            self.probe(["S " + ch.hex() for ch, r in st])
            for ch, r in st:
                if self.cache.get("S " + ch.hex()):
                    self.bad_classes.add(step_class(ch, r))
                    return "insp:string:" + step_class(ch, r)
            return "insp:string:interaction"
        return "insp:string:unminimised"


# ---------------------------------------------------------------- literal direction (c19.lit)
# Independent oracle, written from the language description and not from the code: the value a
# numeral denotes is sum(d_i * radix^i); `_` separates digits; 0x 0o 0b 0d 0q (either case) select
# radix 16 8 2 12 4; no prefix means DECIMAL, leading zeros included; iN / uN / u literals must fit.
import re
from fractions import Fraction

DIGS = "0123456789abcdefghijklmnopqrstuvwxyz"
PREFIX = {"x": 16, "o": 8, "b": 2, "d": 12, "q": 4}
RADIX_NAME = {10: "dec", 16: "hex", 8: "oct", 2: "bin", 12: "duo", 4: "quat"}
SUFFIXES = ("i8", "i16", "i32", "i64", "u8", "u16", "u32", "u64", "u")


def numeral_value(digits, radix):
    """value of a digit string with `_` separators; 'error' for an illegal character, None when
    there is no digit at all (underscores only: outside the property, see the note in run())"""
    v, seen = 0, False
    for ch in digits:
        if ch == "_":
            continue
        d = DIGS.find(ch.lower()) if ch.isascii() and ch.isalnum() else -1
        if d < 0 or d >= radix:
            return "error"
        v, seen = v * radix + d, True
    return v if seen else None


def split_literal(text):
    """(sign, radix, digits, suffix) of an integer literal spelling, or None"""
    sign = ""
    if text[:1] in ("+", "-"):
        sign, text = text[0], text[1:]
    radix, body = 10, text
    if len(text) >= 2 and text[0] == "0" and text[1].lower() in PREFIX:
        radix, body = PREFIX[text[1].lower()], text[2:]
    m = re.fullmatch("([%s_]+?)(i8|i16|i32|i64|u8|u16|u32|u64|u)?" % (DIGS[:radix] + DIGS[10:radix].upper()), body)
    if not m:
        return None
    return sign, radix, m.group(1), m.group(2) or ""


def literal_oracle(text):
    p = split_literal(text)
    if p is None:
        return None
    sign, radix, digits, suffix = p
    v = numeral_value(digits, radix)
    if v is None or v == "error":
        return None
    if suffix:
        bits = int(suffix[1:] or 64)
        if v >= (1 << (bits - 1 if suffix[0] == "i" else bits)):
            return "error"          # the literal is range-checked before a unary minus is applied
        if sign and suffix[0] == "u":
            return None
    if sign == "-":
        v = -v
    return ("I" if not suffix else suffix + ":") + str(v)


def toint_oracle(base, bs):
    if base != 0 and not 2 <= base <= 36:
        return "error"
    try:
        s = bs.decode("ascii")
    except UnicodeDecodeError:
        return "error"
    sign = ""
    if s[:1] in ("+", "-"):
        sign, s = s[0], s[1:]
    radix = base or 10
    if base == 0 and len(s) >= 2 and s[0] == "0" and s[1].lower() in PREFIX:
        radix, s = PREFIX[s[1].lower()], s[2:]
    if s == "":
        return "error"
    v = numeral_value(s, radix)
    if v is None:
        return None
    if v == "error":
        return "error"
    return "I" + str(-v if sign == "-" else v)


def round_binary(fr, p, emin):
    """nearest-even rounding of a non-negative Fraction to precision p, minimum exponent emin;
    returns (mantissa, exponent) with value = mantissa * 2**exponent"""
    if fr == 0:
        return 0, 0
    e = fr.numerator.bit_length() - fr.denominator.bit_length()
    if Fraction(2) ** e > fr:
        e -= 1
    q = max(e, emin) - (p - 1)
    m = fr / Fraction(2) ** q
    n = m.numerator // m.denominator
    rem = m - n
    if rem > Fraction(1, 2) or (rem == Fraction(1, 2) and n % 2 == 1):
        n += 1
    return n, q


def float_oracle(text):
    kind, body = "F", text
    for sfx, k in (("f64", "F64:"), ("f32", "F32:")):
        if text.endswith(sfx):
            kind, body = k, text[:-3]
    body = body.replace("_", "")
    if not re.fullmatch(r"[0-9]+(\.[0-9]+)?([eE][+-]?[0-9]+)?", body):
        return None
    fr = Fraction(body)
    p, emin, ebits, emax = (24, -126, 8, 127) if kind == "F32:" else (53, -1022, 11, 1023)
    n, q = round_binary(fr, p, emin)
    if n == 0:
        bits = 0
    else:
        if n >> p:                    # rounding carried into the next binade
            n, q = n >> 1, q + 1
        if n >> (p - 1) == 0:         # subnormal
            bits = n
        else:
            e = q + p - 1
            if e > emax:
                return None           # overflow: outside what the generator means to produce
            bits = ((e - emin + 1) << (p - 1)) | (n & ((1 << (p - 1)) - 1))
    return kind + ("%08x" if kind == "F32:" else "%016x") % bits


def lit_shape(digits):
    ds = digits.replace("_", "")
    if len(ds) > 1 and ds[0] == "0":
        return "leading-zero"
    return "underscore" if "_" in digits else "plain"


def lit_key(inp):
    """canonical class of a failing c19.lit case"""
    f = inp.split(" ")
    if f[0] == "L":
        p = split_literal(f[1]) if len(f) > 1 else None
        if p is None:
            return "lit:unparsed"
        sign, radix, digits, suffix = p
        return "lit:%s:%s:%s" % (suffix or "int", RADIX_NAME[radix], lit_shape(digits))
    if f[0] in ("T", "E"):
        api = "api" if f[0] == "T" else "elk"
        try:
            base = int(f[1])
            bs = (bytes.fromhex(f[2]) if f[0] == "T" else f[2].encode()) if len(f) > 2 else b""
        except (ValueError, IndexError):
            return "toint:unparsed"
        bc = "base0" if base == 0 else "explicit-base" if 2 <= base <= 36 else "invalid-base"
        s = bs.decode("latin-1").lstrip("+-")
        pre = "dec"
        if base == 0 and len(s) >= 2 and s[0] == "0" and s[1].lower() in PREFIX:
            pre, s = RADIX_NAME[PREFIX[s[1].lower()]], s[2:]
        want = toint_oracle(base, bs)
        if want == "error":
            return "toint:%s:%s:%s:invalid" % (api, bc, pre)
        if want is None:
            return "toint:%s:%s:%s:no-digit" % (api, bc, pre)
        return "toint:%s:%s:%s:%s" % (api, bc, pre, lit_shape(s))
    if f[0] == "F":
        t = f[1] if len(f) > 1 else ""
        kind = "f32" if t.endswith("f32") else "f64" if t.endswith("f64") else "float"
        return "floatlit:%s:%s" % (kind, "exponent" if re.search("[eE]", t[:-3] if kind != "float" else t) else "fraction")
    return "lit:unparsed"


def run_lit(ctx, h, m, gfile):
    """c19.lit: literal spellings and String#to_int against the Coq model's literal evaluator
    (eval_literal / to_int) and against the independent written-value oracle above"""
    n = ctx.n(2000, 60000)
    corpus = os.path.join(vlib.ROOT, "corpus", "C19.lit.txt")
    cmd = [h, "-seed", str(ctx.sseed("c19.lit")), "-n", str(n), "-tier", ctx.tier, "-extra", "lit"]
    if os.path.exists(corpus):
        cmd += ["-input", corpus]
    rc, out = vlib.sh(cmd, timeout=3000, env=vlib.elk_env())
    ids, inputs, obs = vlib.parse_case_lines(out)
    programs = obs.pop("meta", None)
    ids = [i for i in ids if i != "meta"]
    if rc != 0 or not ids:
        ctx.broke("c19.lit: harness exited %d" % rc, out[-3000:])
        if not ids:
            return
    rc2, exp, mout = vlib.run_model(m, ids, inputs, args=[gfile])
    if rc2 != 0:
        ctx.broke("c19.lit: model driver exited %d" % rc2, mout[-3000:])
    dist, distinct, nfail, nodigit, unjudged, oracle2 = {}, set(), 0, 0, 0, 0
    for i in ids:
        inp = inputs[i]
        f = inp.split(" ")
        kind = f[0]
        o = obs[i].split(" ", 1)[0]            # "error <detail>" -> "error"
        if o in ("bad-input", "panic") or o.startswith("error-other"):
            ctx.fail("lit:" + o, "%s: %s" % (inp, obs[i][:300]), stream="c19.lit", case=inp, impl=obs[i])
            nfail += 1
            continue
        # oracle 1: the extracted Coq model (not for float literals)
        e = exp.get(i)
        # oracle 2: the written value, computed independently
        try:
            if kind == "L":
                w = literal_oracle(f[1])
            elif kind == "T":
                w = toint_oracle(int(f[1]), bytes.fromhex(f[2]) if len(f) > 2 else b"")
            elif kind == "E":
                w = toint_oracle(int(f[1]), f[2].encode() if len(f) > 2 else b"")
            else:
                w = float_oracle(f[1])
        except (ValueError, IndexError):
            w = None
        cls = kind + ":" + ("error" if o == "error" else "value")
        dist[cls] = dist.get(cls, 0) + 1
        if len(inp) > 3:
            distinct.add(inp)
        bad = None
        if kind != "F":
            if e is None:
                ctx.broke("c19.lit: the model gave no answer for %s" % inp)
            elif e != o:
                bad = ("implementation differs from the proved model (eval_literal / to_int)", e)
        if w is None:
            if kind in ("T", "E") and o != "error":
                nodigit += 1                   # "_", "0x_": accepted as 0; not a numeral, not judged
            else:
                unjudged += 1
        else:
            oracle2 += 1
            if bad is None and w != o:
                bad = ("the literal / string does not denote the written value (independent oracle)", w)
            if kind != "F" and e is not None and e != w:
                ctx.broke("c19.lit: the Coq model and the written-value oracle disagree on %s" % inp, "model %s oracle %s" % (e, w))
        if bad:
            nfail += 1
            if nfail <= 300:
                ctx.fail(lit_key(inp), "%s: evaluates to %s, the written value is %s" % (inp, obs[i][:200], bad[1]),
                         stream="c19.lit", case=inp, impl=obs[i], model=bad[1], oracle=bad[0])
    ctx.stream("c19.lit", len(ids), len(distinct),
               "integer literal spellings (decimal with leading zeros, prefixes 0x 0o 0b 0d 0q in either case, `_` separators, "
               "optional unary sign, suffixes i8..u64/u, digits drawn from sub-alphabets so that numerals also look like a smaller "
               "base, values around 2^7..2^64 and up to 200 bits) evaluated by the real checker+compiler+VM in batched programs; "
               "String#to_int at the Go API (bases 0, 2..36, invalid bases; well-formed and damaged numerals, illegal digits, "
               "non-ASCII bytes) and at the Elk level (with and without the base argument); Float/Float64/Float32 literal "
               "spellings (leading zeros, `_`, exponents). Expected values: extracted eval_literal/to_int (ints) and an independent "
               "exact written-value oracle (ints and floats). non-trivial = more than one character; distinct by input",
               [{"input": inputs[i], "observed": obs[i][:200]} for i in ids[:2] + ids[-2:]], dist,
               failures=nfail, programs_evaluated=programs, judged_by_second_oracle=oracle2,
               no_digit_strings_accepted=nodigit, unjudged_by_second_oracle=unjudged)


def run(ctx):
    ctx.explanation = (
        "Proved (Coq, for every unicode.IsGraphic / IsLetter): every byte string (valid UTF-8 or not) printed by the model of "
        "String.Inspect is read by the model of the lexer's string-literal mode as ONE plain literal with exactly those bytes; every "
        "Unicode scalar value printed by the model of Char.Inspect is read back by Lexer.character+Parser.charLiteral as that char; "
        "every integer printed in decimal is read back by numberLiteral+ParseBigInt(lexeme,0)(+unary minus) as that integer. "
        "LITERAL direction, proved on the models of Lexer.numberLiteral, parseUBigInt/ParseBigIntWithErr and "
        "StrictParseUint/StrictParseInt (uint64 wrap-around and both overflow tests modelled): every integer literal as written - "
        "base 10 without prefix INCLUDING leading zeros, bases 2/4/8/12/16 with prefix in either case, `_` separators, suffixes "
        "i8..u64/u, optional unary sign - is one token that evaluates to sum(d_i*b^i), and is rejected iff the value does not fit "
        "the suffix (C19_literal_value); String#to_int gives the written value for every base 2..36 and for base 0 with and "
        "without prefix (C19_to_int, C19_to_int_base0_prefixed, C19_to_int_base0_decimal) and fails on any string containing a "
        "non-digit of the base (C19_to_int_invalid). The printer models mirror value/string.go and value/char.go AS FIXED by "
        "fixes/C19-inspect-escapes.patch; for the unfixed printers the _refuted theorems exhibit U+0080. Tie: (1) c19.insp compares "
        "Inspect() of strings/chars/ints with the extracted model (IsGraphic dumped from Go at check time) and feeds the "
        "implementation's text to the model's reader; (2) c19.lit generates literal SPELLINGS and to_int strings, evaluates them with "
        "the real checker+compiler+VM / value.String.ToInt / Elk-level to_int and compares with the extracted eval_literal / to_int "
        "and with an independent exact written-value oracle in Python; (3) c19.rt evaluates v.inspect end to end in-process "
        "(checker+compiler+VM) for strings, chars, Ints, Float/Float32/Float64/BigFloat, fixed-width ints, symbols, nil/bool and "
        "nested lists/tuples/maps/records/sets/ranges/regexes and compares with v by a structural dump. NOT proved, only tested: "
        "floats (inspect round trip by c19.rt; Float/Float64/Float32 literal spellings by c19.lit against exact rational rounding "
        "in Python, the implementation delegates to Go strconv), BigFloat, symbols, collections, regexes, and that "
        "parser/compiler/VM turn the lexed token into that value (c19.lit, c19.rt). Not covered: BigFloat literal spellings; "
        "strings without any digit (\"_\", \"0x_\") are accepted as 0 by to_int - they are no numerals, the theorems require at "
        "least one digit and the stream only counts them (no_digit_strings_accepted). Chars outside Unicode scalar values "
        "(surrogates produced by Char#++) are outside the theorem's domain.")
    ctx.trusted_base += [
        "unicode.IsGraphic / unicode.IsLetter as Section variables (theorems hold for every instance; table dumped from Go for the extracted run)",
        "strconv.FormatInt / big.Int.String modelled as canonical decimal (validated by c19.insp)",
        "fmt %02x/%04x/%08X modelled as fixed-width hex (validated by c19.insp)",
        "lexer model restricted to a literal that spans the whole input; parser/compiler/VM literal evaluation reached only by c19.lit / c19.rt",
        "math/big Mul/Add in parseUBigInt modelled as exact Z arithmetic; uint64 arithmetic of StrictParseUint modelled as Z mod 2^64 (validated by c19.lit)",
        "the written-value oracle of c19.lit (checks/C19.py: positional value, exact rational rounding to binary32/64)",
        "the harness's structural dump and in-process evaluation (checker.CheckSourceBytecode + vm.InterpretTopLevel)",
    ]
    ctx.run_proof_gate()
    h = vlib.build_harness("c19")
    m = vlib.build_model("C19")
    gfile = os.path.join(ctx.workdir, "graphic.txt")
    rc, out = vlib.sh([h, "-extra", "graphic"], env=vlib.elk_env(), timeout=300)
    if rc != 0 or not out.strip():
        ctx.broke("c19: cannot dump unicode.IsGraphic from the harness", out[-2000:])
        return
    with open(gfile, "w") as f:
        f.write(out)
    load_graphic(gfile)
    mini = Minimiser(h, m, gfile)

    def nontrivial(inp, obs):
        f = inp.split()
        if f[0] == "S":
            return len(f) > 1 and any(c in f[1] for c in "89abcdef") or (len(f) > 1 and any(x in bytes.fromhex(f[1]) for x in b'"\\$#\n\t\r\x00\x1b'))
        if f[0] == "C":
            return not (32 < int(f[1]) < 127)
        return abs(int(f[1])) > 9

    r = vlib.value_stream(
        ctx, "c19.insp", h, m, ctx.n(6000, 200000), mini.key,
        "seeded byte strings (valid runes from all planes incl. U+0080-U+00FF, control characters, quotes, backslash, $ and # triggers, "
        "raw/invalid/truncated UTF-8), chars, small/boundary/400-bit ints; thorough adds every code point once as a char and once inside "
        "a string; observable = Inspect() bytes; non-trivial = contains a non-ASCII byte or an escaped character / non-printable char / "
        "multi-digit int; distinct by full input",
        corpus=os.path.join(vlib.ROOT, "corpus", "C19.insp.txt"), nontrivial=nontrivial,
        harness_args=("-extra", "insp"), model_args=(gfile,),
        classify=lambda inp, obs: inp.split(" ", 1)[0])
    if r:
        ids, inputs, obs, exp = r
        if any(v.endswith("MODEL-RT-FAIL") for v in exp.values()):
            bad = [inputs[i] for i in ids if exp.get(i, "").endswith("MODEL-RT-FAIL")][:3]
            ctx.broke("c19.insp: the extracted model's own round trip failed (contradicts the theorems)", str(bad))
        # second oracle: the implementation's text read by the model's reader must give the input back
        lids, linp, want = [], {}, {}
        for i in ids:
            k = inputs[i].split(" ", 1)
            if obs[i] == "bad-input" or obs[i].startswith("panic"):
                ctx.fail("insp:" + obs[i].split()[0], "%s: Inspect -> %s" % (inputs[i], obs[i]), stream="c19.insp", case=inputs[i], impl=obs[i])
                continue
            lids.append(i)
            linp[i] = "L" + k[0] + " " + obs[i]
            want[i] = inputs[i].strip() if k[0] != "S" or len(k) > 1 else "S "
        rc3, back, lout = vlib.run_model(m, lids, linp, args=[gfile])
        nback = 0
        for i in lids:
            got = back.get(i, "none")
            if got.strip() != want[i].strip():
                nback += 1
                if exp.get(i) == obs[i]:
                    ctx.fail("lexback:model-agrees", "%s: printed text agrees with the model but reads back as %s" % (inputs[i], got),
                             stream="c19.insp", case=inputs[i], impl=obs[i], model=got, oracle="reader model on implementation output")
                elif nback <= 200:
                    ctx.fail(mini.key(inputs[i], obs[i], exp.get(i)),
                             "%s: Inspect() = %s (hex) which the lexer model reads back as %s" % (inputs[i], obs[i], got),
                             stream="c19.insp", case=inputs[i], impl=obs[i], model=exp.get(i),
                             oracle="inspect output, read by the lexer model, is not the original value")
        ctx.streams["c19.insp"]["lexback_failures"] = nback

    # ---- literal direction
    run_lit(ctx, h, m, gfile)

    # ---- end to end
    n = ctx.n(1500, 60000)
    corpus = os.path.join(vlib.ROOT, "corpus", "C19.rt.txt")
    cmd = [h, "-seed", str(ctx.sseed("c19.rt")), "-n", str(n), "-tier", ctx.tier, "-extra", "rt"]
    if os.path.exists(corpus):
        cmd += ["-input", corpus]
    rc, out = vlib.sh(cmd, timeout=3000, env=vlib.elk_env())
    ids, inputs, obs = vlib.parse_case_lines(out)
    programs = obs.pop("meta", None)
    ids = [i for i in ids if i != "meta"]
    if rc != 0 or not ids:
        ctx.broke("c19.rt: harness exited %d" % rc, out[-3000:])
        if not ids:
            return
    dist, distinct, skipped, nfail = {}, set(), 0, 0
    for i in ids:
        kind = inputs[i].split(" ", 1)[0]
        dist[kind] = dist.get(kind, 0) + 1
        o = obs[i]
        if o.startswith("skip"):
            skipped += 1
            continue
        if kind != "K":
            distinct.add(inputs[i])
        if o != "eq":
            nfail += 1
            cls = o.split("class=", 1)[1].split(" ", 1)[0] if "class=" in o else "unclassified"
            if nfail <= 500:
                ctx.fail("rt:" + cls, "%s: v.inspect evaluated end to end is not v: %s" % (inputs[i], o[:400]),
                         stream="c19.rt", case=inputs[i], impl=o, model="eq",
                         oracle="evaluating v.inspect gives a value equal to v")
    if skipped * 20 > len(ids):
        ctx.broke("c19.rt: %d of %d cases could not be constructed" % (skipped, len(ids)), "")
    ctx.stream("c19.rt", len(ids) - skipped, len(distinct),
               "values built by Go constructors (strings over all planes/controls/quotes/$/#/invalid UTF-8, chars, ints to 300 bits, float "
               "boundary and random bit patterns, Float32/64, BigFloat, fixed-width ints incl. min/max, symbols, nil/bool) or by evaluating a "
               "generated nested collection/range/regex expression; text = inspect; evaluated in-process in batches; compared by structural "
               "dump; non-trivial = everything except nil/true/false; distinct by input",
               [{"input": inputs[i], "observed": obs[i][:200]} for i in ids[:2] + ids[-2:]], dist,
               failures=nfail, skipped=skipped, programs_evaluated=programs)
