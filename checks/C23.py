"""C23 — ranges and iterable operations agree with a list model."""
import os
import re
import subprocess
import vlib

KINDS = {  # model kind -> Elk syntax
    "closed": "(%s)...(%s)", "open": "(%s)<.<(%s)", "lopen": "(%s)<..(%s)", "ropen": "(%s)..<(%s)",
    "eclosed": "(%s)...", "eopen": "(%s)<..", "bclosed": "...(%s)", "bopen": "..<(%s)",
}
FINITE = ("closed", "open", "lopen", "ropen")
ENDLESS = ("eclosed", "eopen")

HEADER = '''class W[V]
  include Iterable::Base[V, never]
  attr iter: Iterator[V, never]
  init(@iter: Iterator[V, never]); end
  def inspect: String
    "W{}"
  end
end
def out(tag: String, v: Inspectable?)
  if v == nil
    println(tag + " nil")
  else
    println(tag + " " + v.inspect)
  end
end
def thr(x: Int, t: Int): Int ! String
  throw "boom" if x == t
  x
end
class FI
  include Iterable::Base[Int, String]
  var @items: List[Int]
  var @i: Int
  init(@items: List[Int])
    @i = 0
  end
  def iter: self
    self
  end
  def next: Int ! String
    throw "boom" if @i >= @items.length
    v := @items[@i]
    @i += 1
    v
  end
  def inspect: String
    "FI{}"
  end
end
def *gen(a: Int, n: Int): Int
  i := 0
  while i < n
    yield a + i
    i += 1
  end
  a + n
end
var empty_list: List[Int] = []
var empty_tuple: Tuple[Int] = %[]
def forit(it: PrimitiveIterable[Int, never], cap: Int): List[Int]
  var l: List[Int] = []
  for i in it
    break if l.length >= cap
    l << i
  end
  l
end
'''

# for-in over a range, with a cap on the number of iterations (a loop that does not stop shows as extra elements)
FORCASE = '''do
  %(pre)svar l_%(id)s: List[Int] = []
  for i in %(expr)s
    break if l_%(id)s.length >= %(cap)d
    l_%(id)s << i
  end
  out("%(id)s", l_%(id)s)
catch e
  println("%(id)s E:other")
end
'''

CASE = '''do
  out("%(id)s", %(expr)s)
catch OutOfRangeError()
  println("%(id)s E:oor")
catch Iterable::NotFoundError()
  println("%(id)s E:nf")
catch String() as s
  println("%(id)s E:s:" + s)
catch e
  println("%(id)s E:other")
end
'''


def lit(z, w=0):
    s = str(z)
    return s + ("i%d" % w if w else "")


def range_expr(kind, a, b, w=0):
    f = KINDS[kind]
    if kind in FINITE:
        return "(" + f % (lit(a, w), lit(b, w)) + ")"
    if kind in ENDLESS:
        return "(" + f % lit(a, w) + ")"
    return "(" + f % lit(b, w) + ")"


class Iterable:
    """an Elk iterable under test: its expression, the model request prefix, the intended contents"""

    def __init__(self, cls, expr, req, elems, finite=True, ordered=True, w=0, lo=0, hi=0):
        self.cls, self.expr, self.req, self.elems = cls, expr, req, elems
        self.finite, self.ordered, self.w, self.lo, self.hi = finite, ordered, w, lo, hi
        self.anchor = None      # "<anchor name>/<variant>" for the boundary-anchored ranges
        self.lite = False       # reduced operation set (quick tier, anchored ranges)
        self.bounded = False    # the bounded probe showed that its iterator does not stop: bounded operations only

    def wrapped(self):
        if self.cls == "failing":
            return self.expr
        if self.cls == "generator":
            return "W(%s)" % self.expr
        return "W(%s.iter)" % self.expr


def csv(l):
    return ",".join(str(x) for x in l) if l else "-"


def relems(kind, a, b):
    if kind == "closed":
        return list(range(a, b + 1))
    if kind == "ropen":
        return list(range(a, b))
    if kind == "lopen":
        return list(range(a + 1, b + 1))
    if kind == "open":
        return list(range(a + 1, b))
    return None


MAXS, MINS = 2 ** 63 - 1, -2 ** 63    # value.MaxSmallInt / value.MinSmallInt: Int changes representation here
ANCHORS = [("maxsmallint", MAXS), ("minsmallint", MINS), ("2^63", MAXS + 1), ("-2^63-1", MINS - 1),
           ("maxsmallint-1", MAXS - 1), ("minsmallint+1", MINS + 1), ("2^64", 2 ** 64), ("-2^64", -2 ** 64),
           ("2^64-1", 2 ** 64 - 1), ("2^63+1", MAXS + 2), ("-2^63-2", MINS - 2)]


def bclass(z):
    """canonical class of a range bound (for failure keys)"""
    for name, v in ANCHORS[:4]:
        if z == v:
            return name
    if -2 ** 31 <= z < 2 ** 31:
        return "small"
    return "smallint" if MINS <= z <= MAXS else "bigint"


def anchored_bounds(kind, z, variant, d):
    """bounds of a range of `kind` whose start / end / first element / last element is exactly z;
    d = distance between the bounds (may be 0: single element or empty, by kind)"""
    if variant == "start":
        return z, z + d
    if variant == "end":
        return z - d, z
    if variant == "first":
        a = z - 1 if kind in ("open", "lopen", "eopen") else z
        return a, a + d
    b = z + 1 if kind in ("open", "ropen") else z      # "last"
    return b - d, b


def mk_range(kind, a, b, anchor=None):
    if kind in FINITE:
        it = Iterable("range:" + kind, range_expr(kind, a, b), "R 0 %s %d %d" % (kind, a, b), relems(kind, a, b), lo=a, hi=b)
    else:
        first = a if kind == "eclosed" else a + 1
        it = Iterable("range:" + kind, range_expr(kind, a, 0), "R 0 %s %d 0" % (kind, a),
                      [first + i for i in range(8)], finite=False, lo=a, hi=a + 6)
    it.anchor = anchor
    return it


def gen_anchored(rng, tier):
    """Boundary-anchored ranges of every iterable kind: start / end / first element / last element exactly on
    Min/MaxSmallInt, their neighbours, +-2^63, +-2^64, x distances 0..4 between the bounds. Quick tier: for every
    kind the four variants on MaxSmallInt (end, last) and MinSmallInt (start, first) with a seeded distance, the
    endless kinds starting just below each of the first four anchors, plus a seeded sample of the rest of the grid;
    thorough tier: a larger sample with the full operation set."""
    out, seen = [], set()

    def add(kind, name, z, variant, d, lite):
        a, b = anchored_bounds(kind, z, variant, d)
        if kind in ENDLESS:
            b = 0
        if (kind, a, b) in seen:
            return
        seen.add((kind, a, b))
        it = mk_range(kind, a, b, anchor="%s/%s" % (name, variant))
        it.lite = lite
        out.append(it)

    quick = tier == "quick"
    for kind in FINITE:
        for name, z in ANCHORS[:2]:
            for variant in (("end", "last") if z > 0 else ("start", "first")):
                add(kind, name, z, variant, rng.range(1, 3), quick)
    for kind in ENDLESS:
        for name, z in ANCHORS[:4]:
            add(kind, name, z - rng.range(0, 3), "start", 0, quick)
    grid = [(k, nm, z, v, d) for k in FINITE for nm, z in ANCHORS for v in ("start", "end", "first", "last")
            for d in (0, 1, 2, 3, 4)]
    grid += [(k, nm, z - j, "start", 0) for k in ENDLESS for nm, z in ANCHORS for j in (0, 1, 5)]
    rng.shuffle(grid)
    for k, nm, z, v, d in grid[:(10 if quick else 160)]:
        add(k, nm, z, v, d, quick)
    return out


def gen_iterables(rng, n, tier):
    its = []
    # systematic small ranges first: every kind x start x length (incl. empty and reversed)
    combos = []
    for kind in FINITE + ENDLESS:
        for a in (-2, 0, 1):
            for d in ((-2, -1, 0, 1, 2, 3, 5) if kind in FINITE else (0,)):
                combos.append((kind, a, a + d))
    rng.shuffle(combos)
    # round-robin over the kinds so that every kind appears in the quick tier
    seen = {}
    ordered = []
    for c in combos:
        seen.setdefault(c[0], []).append(c)
    while any(seen.values()):
        for k in FINITE + ENDLESS:
            if seen[k]:
                ordered.append(seen[k].pop())
    big = [2 ** 63 - 3, -2 ** 63 - 2, 2 ** 64 - 1, 10 ** 30]
    for j, (kind, a, b) in enumerate(ordered):
        if j % 9 == 8:  # shift some ranges across the SmallInt/BigInt boundary
            off = rng.choice(big)
            a, b = a + off, b + off
        if kind in FINITE:
            its.append(Iterable("range:" + kind, range_expr(kind, a, b), "R 0 %s %d %d" % (kind, a, b),
                                relems(kind, a, b), lo=a, hi=b))
        else:
            first = a if kind == "eclosed" else a + 1
            its.append(Iterable("range:" + kind, range_expr(kind, a, 0), "R 0 %s %d 0" % (kind, a),
                                [first + i for i in range(8)], finite=False, lo=a, hi=a + 6))
    # lists, tuples, sets, Int iterators
    ranges, its = its, []
    for j in range(max(8, n // 4)):
        ln = rng.choice([0, 1, 2, 3, 4, 6])
        l = [rng.range(-3, 6) for _ in range(ln)]
        form = j % 6
        lo, hi = (min(l), max(l)) if l else (0, 0)
        if form == 0:
            e = "[%s]" % ", ".join(map(str, l)) if l else "empty_list"
            its.append(Iterable("list", e, "L " + csv(l), l, lo=lo, hi=hi))
        elif form == 1:
            e = "%%[%s]" % ", ".join(map(str, l)) if l else "empty_tuple"
            its.append(Iterable("tuple", e, "L " + csv(l), l, lo=lo, hi=hi))
        elif form == 2:
            s = sorted(set(l)) or [1]
            its.append(Iterable("set", "^[%s]" % ", ".join(map(str, s)), None, s, ordered=False, lo=min(s), hi=max(s)))
        elif form == 4:
            # generator function: yields a .. a+k-1 and finally its return value a+k
            a, k = rng.range(-2, 3), rng.range(0, 4)
            l = list(range(a, a + k + 1))
            its.append(Iterable("generator", "gen(%d, %d)" % (a, k), "L " + csv(l), l, lo=a, hi=a + k))
        elif form == 3:
            # user-defined iterator whose `next` throws "boom" after the list (the err path of vm.Iterate)
            e = "FI([%s])" % ", ".join(map(str, l)) if l else "FI(empty_list)"
            its.append(Iterable("failing", e, "F " + csv(l), l, lo=lo, hi=hi))
        else:
            k = rng.range(0, 5)
            its.append(Iterable("int_iter", "%d" % k, "L " + csv(list(range(k))), list(range(k)), lo=0, hi=k))
    # three ranges, then one collection, and so on
    merged = []
    while ranges or its:
        merged += ranges[:3]
        ranges = ranges[3:]
        merged += its[:1]
        its = its[1:]
    return merged[:n] if tier == "quick" else merged


def fn1_elk(f):
    p = f.split(":")
    x = "x"
    while p[0] == "thr":
        x = "thr(%s, %s)" % (x, p[1])
        p = p[2:]
    return "|x| -> %s %s (%s)" % (x, "+" if p[0] == "add" else "*", p[1])


def pred_elk(f):
    p = f.split(":")
    x = "x"
    thrown = False
    while p[0] == "thr":
        x = "thr(%s, %s)" % (x, p[1])
        p = p[2:]
        thrown = True
    if p[0] == "even":
        return "|x| -> %s %% 2 == 0" % x
    if p[0] in ("true", "false"):
        return "|x| -> %s" % p[0] if not thrown else "|x| -> %s == %s || %s" % (x, x, p[0])
    return "|x| -> %s %s (%s)" % (x, {"gt": ">", "lt": "<", "eq": "=="}[p[0]], p[1])


def fn2_elk(f):
    p = f.split(":")
    x = "x"
    while p[0] == "thr":
        x = "thr(%s, %s)" % (x, p[1])
        p = p[2:]
    if p[0] == "add":
        return "|a, x| -> a + %s" % x
    if p[0] == "sub":
        return "|a, x| -> a - %s" % x
    return "|a, x| -> a * (%s) + %s" % (p[1], x)


PRED_OPS = ("filter", "reject", "count", "any", "every", "find", "try_find", "find_index", "drop_while", "take_while")
NULLARY = ("is_empty", "first", "try_first", "last", "try_last", "to_list", "to_tuple", "to_collection",
           "to_immutable_collection", "length")


def gen_ops(it, rng):
    """all operation requests for one iterable: [(model op string, elk call suffix)]"""
    if it.bounded:
        return gen_ops_bounded(it)
    if it.lite:
        return gen_ops_lite(it)
    ops = []
    n = len(it.elems) if it.finite else 4
    lo, hi = it.lo, it.hi
    mid = it.elems[len(it.elems) // 2] if it.elems else lo
    xs = sorted(set([lo - 1, lo, mid, hi, hi + 1] + it.elems[:1] + it.elems[-1:]))
    for x in xs:
        ops.append(("contains %d" % x, "contains(%d)" % x))
        ops.append(("index_of %d" % x, "index_of(%d)" % x))
    for k in range(-2, n + 3):
        ops.append(("take %d" % k, "take(%d)" % k))
        ops.append(("drop %d" % k, "drop(%d)" % k))
    for o in NULLARY:
        ops.append((o, o))
    t_in = it.elems[min(1, len(it.elems) - 1)] if it.elems else mid
    t_last = it.elems[-1] if it.elems else mid
    for f in ("add:1", "mul:2", "thr:%d:add:1" % t_in, "thr:%d:mul:-1" % (hi + 7)):
        ops.append(("map " + f, "map(%s)" % fn1_elk(f)))
    preds = ["even", "gt:%d" % mid, "lt:%d" % mid, "eq:%d" % t_last, "gt:%d" % (lo - 2), "lt:%d" % (lo - 2),
             "true", "false", "thr:%d:even" % t_in, "thr:%d:gt:%d" % (t_last, mid), "thr:%d:lt:%d" % (hi + 7, mid)]
    for p in preds:
        for o in PRED_OPS:
            ops.append(("%s %s" % (o, p), "%s(%s)" % (o, pred_elk(p))))
    for g in ("add", "sub", "muladd:10", "thr:%d:sub" % t_last, "thr:%d:add" % (it.elems[0] if it.elems else mid)):
        ops.append(("reduce " + g, "reduce(%s)" % fn2_elk(g)))
        for i in (0, -7):
            ops.append(("fold %d %s" % (i, g), "fold(%d, %s)" % (i, fn2_elk(g))))
    return ops


def gen_ops_lite(it):
    """the reduced operation set of the quick tier for boundary-anchored ranges: every operation once or twice"""
    ops = []
    n = len(it.elems) if it.finite else 4
    lo, hi = it.lo, it.hi
    mid = it.elems[len(it.elems) // 2] if it.elems else lo
    t_last = it.elems[-1] if it.elems else mid
    for x in sorted(set([lo - 1, hi + 1] + it.elems[:1] + it.elems[-1:])):
        ops.append(("contains %d" % x, "contains(%d)" % x))
        ops.append(("index_of %d" % x, "index_of(%d)" % x))
    for k in sorted(set([-1, 0, 1, n, n + 1, n + 3])):
        ops.append(("take %d" % k, "take(%d)" % k))
    for k in sorted(set([0, 1, n, n + 1])):
        ops.append(("drop %d" % k, "drop(%d)" % k))
    for o in NULLARY:
        ops.append((o, o))
    for f in ("add:1", "thr:%d:mul:2" % t_last):
        ops.append(("map " + f, "map(%s)" % fn1_elk(f)))
    for p in ("gt:%d" % mid, "eq:%d" % t_last, "lt:%d" % (lo - 2)):
        for o in PRED_OPS:
            ops.append(("%s %s" % (o, p), "%s(%s)" % (o, pred_elk(p))))
    for g, i in (("add", 0), ("muladd:10", -7)):
        ops.append(("reduce " + g, "reduce(%s)" % fn2_elk(g)))
        ops.append(("fold %d %s" % (i, g), "fold(%d, %s)" % (i, fn2_elk(g))))
    return ops


def gen_ops_bounded(it):
    """operations that read only a bounded prefix when the expected elements come first, for a finite range whose
    iterator was seen NOT to stop (so that the defect shows as wrong results of these, never as a hang)"""
    ops = []
    n = len(it.elems)
    for k in range(-1, n + 4):
        ops.append(("take %d" % k, "take(%d)" % k))
    ops += [("is_empty", "is_empty"), ("try_first", "try_first"), ("take_while false", "take_while(%s)" % pred_elk("false"))]
    if it.elems:
        mid, last = it.elems[n // 2], it.elems[-1]
        ops.append(("first", "first"))
        for x in sorted(set([it.elems[0], last])):
            ops.append(("index_of %d" % x, "index_of(%d)" % x))
            ops.append(("contains %d" % x, "contains(%d)" % x))
        for o, p in (("take_while", "lt:%d" % mid), ("take_while", "lt:%d" % last), ("find", "eq:%d" % last),
                     ("try_find", "eq:%d" % last), ("any", "eq:%d" % last), ("find_index", "eq:%d" % last),
                     ("every", "lt:%d" % last)):
            ops.append(("%s %s" % (o, p), "%s(%s)" % (o, pred_elk(p))))
    return ops


CAP_RE = re.compile(r"^(%?\[.*\]):\d+$")
TAG_RE = re.compile(r"^(k\d+[a-z]?\d*) (.*)$")


def canon(s, w=0):
    s = s.strip()
    m = CAP_RE.match(s)
    if m:
        s = m.group(1)
    if w:
        s = re.sub(r"(-?\d+)i%d\b" % w, r"\1", s)
    return s


def oclass(s):
    if s is None:
        return "missing"
    if s.startswith("E:"):
        return ":".join(s.split(":")[:2])
    if s.startswith("%["):
        return "tuple"
    if s.startswith("["):
        return "list"
    if s in ("true", "false"):
        return "bool"
    if s in ("nil", "undefined", "nofuel"):
        return s
    if re.match(r"^-?\d+$", s):
        return "int"
    if s.startswith("panic"):
        return "go_panic"
    return "other"


def argclass(op, it):
    p = op.split()
    if p[0] in ("take", "drop"):
        k = int(p[1])
        n = len(it.elems) if it.finite else None
        return "neg" if k < 0 else "0" if k == 0 else "n" if n is not None and k == n else \
            ">n" if n is not None and k > n else "<n"
    if len(p) > 1 and "thr" in p[-1]:
        return "throwing"
    return "empty" if it.finite and not it.elems else "-"


def model_answers(model, reqs, fuel=None):
    ids = list(reqs)
    rc, exp, out = vlib.run_model(model, ids, reqs, args=(["-fuel", str(fuel)] if fuel else []))
    return rc, exp, out


def run(ctx):
    ctx.explanation = (
        "Proved in Coq (unbounded, any element type, any closures incl. throwing ones): the Go-mirroring loop model of "
        "24 generic operations of vm/iterable.go (contains is_empty first try_first last try_last map filter reject count any "
        "every find try_find index_of find_index drop drop_while take take_while fold reduce to_list(=to_collection, to_tuple, "
        "to_immutable_collection) length) equals the list model on the materialised elements of every finite iterator; "
        "the list model equals the standard list functions for pure closures; first/take/find/try_find/any/take_while read only "
        "a finite prefix of an infinite iterator; all 8 range kinds: contains = bound test, the 4 finite kinds yield exactly "
        "the described integers in order, the 2 endless kinds the infinite progression (Int = Z). reduce on an EMPTY iterable "
        "returns the undefined value (refuted + partial), fixed-width integer ranges wrap at the type maximum (refuted + "
        "partial). Differential-tested only: that the Coq model mirrors the Go code (stream c23.ops runs generated Elk programs "
        "through `elk run` on every range kind/list/tuple/set/Int iterator/generator/throwing user iterator x every operation x argument values; stream "
        "c23.forin iterates ranges through for loops (literal, variable, r.iter, generic parameter, wrapper) and the explicit "
        "native iterator with capped loops; stream c23.api calls vm.*RangeContains / *IteratorNext / *IteratorAll directly). "
        "The model's Int is Z, so it has no SmallInt/BigInt representation boundary; that the implementation has none either "
        "is tested, not proved: all three streams contain boundary-anchored ranges of every kind (start / end / first / last "
        "element exactly on MinSmallInt, MaxSmallInt, their neighbours, +-2^63, +-2^64), each finite range first through a "
        "bounded probe (take(n+3) / capped Next loop) so that an iterator that does not stop is reported as a wrong element "
        "list. Nilable elements: the model is generic in the element type; a second extracted instance (Model/C23_Nil.v, "
        "element type option Z = Elk Int?) is proved equal to the list model (C23_ops_nilable_run) and C23_nil_element_is_not_absence "
        "proves that first/last/find RETURN nil when the selected element is nil and throw NotFoundError only when nothing is "
        "selected; stream c23.nilable ties it to the implementation on lists/tuples/native iterators/generators/a throwing user "
        "iterator of Int? with nil at the first/last/middle/every/no position, zeros and duplicates (through the wrapper, "
        "directly, and through for loops). Not modelled: maps, channels, strings as "
        "iterables; element types other than Int, Int? and Int8 ranges; reduce over Int? elements; the iterator state left "
        "behind by take (it consumes k+1).")
    ctx.trusted_base += [
        "Elk Int Increment/comparison modelled as Z successor/order (C06 covers Int arithmetic); Equal on Ints as Z.eqb",
        "the generated Elk wrapper class (include Iterable::Base + attr iter) reaches vm/iterable.go through vm.Iterate's default branch",
        "Elk `==` / `??` on Int? modelled as equality / default on option Z (closures of c23.nilable)",
        "Python generator/canonicaliser of c23.ops, c23.nilable and c23.forin (strips the ArrayList capacity suffix ':N' and the iN literal suffix)",
        "the Python description of a range's elements (range(a, b+1) etc.) used by the bounded probe and c23.forin; cross-checked against the extracted model on every case",
    ]
    ctx.run_proof_gate()
    model = vlib.build_model("C23")
    elk = vlib.build_elk()
    ops_stream(ctx, model, elk)
    forin_stream(ctx, model, elk)
    direct_stream(ctx, model, elk)
    nilable_stream(ctx, model, elk)
    api_stream(ctx, model)


# ------------------------------------------------------------------ c23.ops

BOUNDED_OPS = ("take", "take_while", "index_of", "contains", "first", "try_first", "is_empty", "find", "try_find", "any",
               "find_index", "every")


def parse_list(o):
    if o.startswith("[") and o.endswith("]"):
        try:
            return [int(x) for x in o[1:-1].split(",") if x.strip()]
        except ValueError:
            return None
    return None


def probe_ranges(ctx, stream, model, elk, its):
    """Bounded materialisation of every finite Int range before anything unbounded is run on it:
    W(r.iter).take(n+3) must return exactly the n elements the bounds describe. A range whose iterator yields
    more is a concrete failing input (never a hang); it is marked `bounded` and only gets prefix operations."""
    todo = [it for it in its if it.finite and it.w == 0 and it.cls.startswith("range:")]
    if not todo:
        return 0
    reqs, srcs, batch = {}, [], []
    for j, it in enumerate(todo):
        k = len(it.elems) + 3
        reqs["k%dq" % j] = it.req + " take %d" % k
        batch.append(CASE % dict(id="k%dq" % j, expr="%s.take(%d)" % (it.wrapped(), k)))
        if len(batch) >= 40 or j == len(todo) - 1:
            srcs.append(("q%d" % len(srcs), HEADER + "".join(batch)))
            batch = []
    rc, exp, mout = model_answers(model, reqs, fuel=600)
    if rc != 0:
        ctx.broke("correspondence %s: model driver (probe) exited %d" % (stream, rc), mout[-2000:])
    res = vlib.run_programs(elk, srcs, os.path.join(ctx.workdir, "probe"), timeout=90)
    got = {}
    for pid, (rc_, out, cls) in res.items():
        for line in out.splitlines():
            m = TAG_RE.match(line)
            if m:
                got[m.group(1)] = m.group(2)
    for j, it in enumerate(todo):
        cid = "k%dq" % j
        want = "[" + ", ".join(map(str, it.elems)) + "]"
        obs = canon(got.get(cid, "missing"))
        e = exp.get(cid)
        if obs == want and e == want:
            continue
        it.bounded = True
        case = "%s.take(%d)" % (it.wrapped(), len(it.elems) + 3)
        _, _, kind, a, b = it.req.split()
        l = parse_list(obs)
        if l is not None and len(l) > len(it.elems) and l[:len(it.elems)] == it.elems:
            key = "iter:range:%s:never-stops:start=%s:end=%s" % (kind, bclass(int(a)), bclass(int(b)))
            what = "%s has %d elements (%s) but its iterator goes on after them: take(%d) = %s" % (
                it.expr, len(it.elems), want, len(it.elems) + 3, obs)
        else:
            key = "iter:range:%s:probe:%s-vs-list:start=%s:end=%s" % (kind, oclass(obs), bclass(int(a)), bclass(int(b)))
            what = "%s = %s, its bounds describe %s (model %s)" % (case, obs, want, e)
        ctx.fail(key, what, stream=stream, case=case, impl=obs, model=want,
                 oracle="iteration yields exactly the elements in order (bounded probe take(n+3))")
    return len(todo)


def ops_stream(ctx, model, elk):
    stream = "c23.ops"
    rng = ctx.rng(stream)
    its = gen_iterables(rng, ctx.n(36, 400), ctx.tier)
    anch = gen_anchored(ctx.rng(stream + ".anchored"), ctx.tier)
    its = its + anch
    corpus = read_corpus(os.path.join(vlib.ROOT, "corpus", "C23.ops.txt"))
    cases = []   # dict(id, it, op, elk, kind)
    cid = 0

    def add(it, op, expr, kind, prog=None):
        nonlocal cid
        cases.append(dict(id="k%d" % cid, it=it, op=op, expr=expr, kind=kind, prog=prog))
        cid += 1

    parsed = [parse_corpus_case(line) for line in corpus]
    parsed = [(it, op) for it, op in parsed if it is not None]
    nprobed = probe_ranges(ctx, stream, model, elk, [it for it, _ in parsed] + its)
    # corpus first: "<w> <kind> <a> <b> | <op>"  or "L <csv> | <op>"
    for it, op in parsed:
        if it.bounded and op.split()[0] not in BOUNDED_OPS:
            continue
        call = dict(gen_ops_all(it, op))
        add(it, op, "%s.%s" % (it.wrapped(), call[op]), "op")
        if it.bounded:
            continue
        if it.finite:
            add(it, "to_list", it.wrapped() + ".to_list", "tolist")
        else:
            add(it, "take 8", it.wrapped() + ".take(8)", "tolist")
    ncorpus = len(cases)
    for it in its:
        if not it.bounded:
            add(it, "to_list" if it.finite else "take 8", it.wrapped() + (".to_list" if it.finite else ".take(8)"), "tolist")
        for op, call in gen_ops(it, rng):
            add(it, op, "%s.%s" % (it.wrapped(), call), "op")
        if it.cls.startswith("range:"):
            for x in range(it.lo - 2, it.hi + 3):
                add(it, "rcontains %d" % x, "%s.contains(%d)" % (it.expr, x), "rcontains")
    # beginless ranges: contains only
    for kind in ("bclosed", "bopen"):
        for b in (-1, 0, 2, 2 ** 63, -2 ** 63 - 1, MAXS, MINS, 2 ** 64, -2 ** 64):
            it = Iterable("range:" + kind, range_expr(kind, 0, b), "R 0 %s 0 %d" % (kind, b), None, finite=False, lo=b, hi=b)
            for x in range(b - 2, b + 3):
                add(it, "rcontains %d" % x, "%s.contains(%d)" % (it.expr, x), "rcontains")

    # ask the model first (oracle 1 expectation); drop cases that do not terminate on an endless range
    reqs = {}
    for c in cases:
        it = c["it"]
        if c["kind"] == "rcontains":
            _, w, kind, a, b = it.req.split()
            reqs[c["id"]] = "C %s %s %s %s" % (kind, a, b, c["op"].split()[1])
        elif it.req is not None:
            reqs[c["id"]] = it.req + " " + c["op"]
    rc, exp, mout = model_answers(model, reqs, fuel=600)
    if rc != 0:
        ctx.broke("correspondence %s: model driver exited %d" % (stream, rc), mout[-2000:])
    live = [c for c in cases if exp.get(c["id"]) != "nofuel"]
    skipped = len(cases) - len(live)

    # programs: batch per iterable, ~120 cases per program
    # (the cases of a range whose iterator does not stop go into programs of their own, one per range)
    progs = []
    batch, bi = [], 0
    for c in live:
        if c["it"].bounded:
            continue
        batch.append(c)
        if len(batch) >= 120:
            progs.append(("p%d" % bi, batch))
            batch, bi = [], bi + 1
    if batch:
        progs.append(("p%d" % bi, batch))
        bi += 1
    byit = {}
    for c in live:
        if c["it"].bounded:
            byit.setdefault(id(c["it"]), []).append(c)
    for b in byit.values():
        progs.append(("p%d" % bi, b))
        bi += 1
    srcs = [(pid, HEADER + "".join(CASE % dict(id=c["id"], expr=c["expr"]) for c in b)) for pid, b in progs]
    res = vlib.run_programs(elk, srcs, os.path.join(ctx.workdir, "ops"), timeout=120)
    got = {}
    for pid, b in progs:
        rc_, out, cls = res[pid]
        for line in out.splitlines():
            m = TAG_RE.match(line)
            if m:
                got[m.group(1)] = m.group(2)
    # cases with no output (program died before reaching them, or compile error): rerun alone
    missing = [c for c in live if c["id"] not in got]
    rerun = missing[:150]
    if rerun:
        srcs = [("s" + c["id"], HEADER + CASE % dict(id=c["id"], expr=c["expr"])) for c in rerun]
        res2 = vlib.run_programs(elk, srcs, os.path.join(ctx.workdir, "ops1"), timeout=60)
        for c in rerun:
            rc_, out, cls = res2["s" + c["id"]]
            for line in out.splitlines():
                m = TAG_RE.match(line)
                if m and m.group(1) == c["id"]:
                    got[c["id"]] = m.group(2)
            if c["id"] not in got:
                first = next((l for l in out.splitlines() if l.strip()), "")
                got[c["id"]] = ("panic " if cls in ("go_panic", "go_fatal") else cls + " ") + first[:160]
    if len(missing) > len(rerun):
        ctx.broke("correspondence %s: %d cases produced no output" % (stream, len(missing) - len(rerun)),
                  "\n".join(c["expr"] for c in missing[150:170]))

    # the implementation's own materialisation per iterable (oracle 2 input)
    own = {}
    for c in live:
        if c["kind"] == "tolist":
            o = canon(got.get(c["id"], ""), c["it"].w)
            if o.startswith("["):
                own[id(c["it"])] = [int(x) for x in o[1:-1].split(",") if x.strip()]
    reqs2 = {}
    for c in live:
        it = c["it"]
        if c["kind"] == "op" and it.finite and id(it) in own:
            reqs2[c["id"]] = "S %s %s" % (csv(own[id(it)]), c["op"])
    rc, exp2, mout = model_answers(model, reqs2)
    if rc != 0:
        ctx.broke("correspondence %s: model driver (list model) exited %d" % (stream, rc), mout[-2000:])

    dist, distinct, mism = {}, set(), 0
    samples = []
    for c in live:
        it, op = c["it"], c["op"]
        obs = canon(got.get(c["id"], "missing"), it.w)
        opname = op.split()[0]
        dist[it.cls + "/" + opname] = dist.get(it.cls + "/" + opname, 0) + 1
        if it.anchor:
            dist["anchored:" + it.anchor] = dist.get("anchored:" + it.anchor, 0) + 1
        if it.elems or not it.finite:
            distinct.add((it.expr, op))
        e1 = exp.get(c["id"])
        case = "%s.%s" % (it.expr, op)
        if len(samples) < 4 and c["kind"] == "op" and len(distinct) % 97 == 1:
            samples.append({"input": case, "observed": obs})
        if c["kind"] == "tolist":
            if it.ordered:
                want = "[" + ", ".join(map(str, it.elems if it.finite else it.elems[:8])) + "]"
                if it.cls == "failing":
                    want = "E:s:boom"
                if it.w == 0 and obs != want:
                    mism += 1
                    ctx.fail("iter:%s:%s-vs-%s" % (it.cls, oclass(obs), oclass(want)),
                             "%s yields %s, its bounds/contents describe %s" % (it.expr, obs, want), stream=stream,
                             case=case, impl=obs, model=want, oracle="iteration yields exactly the elements in order")
            elif sorted(own.get(id(it), [])) != sorted(it.elems):
                mism += 1
                ctx.fail("iter:set:contents", "%s yields %s" % (it.expr, obs), stream=stream, case=case, impl=obs,
                         model=str(it.elems), oracle="iteration yields exactly the elements (any order)")
            if e1 is not None and e1 != obs:
                mism += 1
                ctx.fail("model:%s:%s:%s-vs-%s" % (opname, it.cls, oclass(obs), oclass(e1)),
                         "%s: implementation %s, model %s" % (case, obs, e1), stream=stream, case=case, impl=obs, model=e1,
                         oracle="implementation differs from the proved model")
            # property, directly: every yielded element is contained in the range (fixed-width ranges)
            if it.cls.startswith("range:") and it.w:
                _, w, kind, a, b = it.req.split()
                bad = [x for x in own.get(id(it), []) if not py_contains(kind, int(a), int(b), x)]
                if bad:
                    ctx.fail("range-iter:int%d:%s:end-at-type-max:wraps" % (it.w, kind),
                             "%s yields %s; %s lie outside the range" % (it.expr, obs, bad), stream=stream, case=case,
                             impl=obs, model="only elements with contains(x)", oracle="x in elements <-> contains(x)")
            continue
        if c["kind"] == "rcontains":
            x = int(op.split()[1])
            if e1 != obs:
                mism += 1
                ctx.fail("contains:%s:%s-vs-%s" % (it.cls, obs, e1), "%s.contains(%d) = %s, bounds say %s" % (it.expr, x, obs, e1),
                         stream=stream, case=case, impl=obs, model=e1, oracle="contains agrees with the bounds")
            if it.finite and id(it) in own and (obs == "true") != (x in own[id(it)]):
                mism += 1
                ctx.fail("contains-vs-iter:%s" % it.cls, "%s.contains(%d) = %s but iteration yields %s" % (it.expr, x, obs, own[id(it)]),
                         stream=stream, case=case, impl=obs, model=str(own[id(it)]), oracle="contains x <-> x in elements")
            continue
        # generic operation
        if e1 is not None and e1 != obs:
            mism += 1
            ctx.fail("model:%s:%s:%s:%s-vs-%s" % (opname, it.cls, argclass(op, it), oclass(obs), oclass(e1)),
                     "%s: implementation %s, model %s" % (case, obs, e1), stream=stream, case=case, impl=obs, model=e1,
                     oracle="implementation differs from the proved model")
        e2 = exp2.get(c["id"])
        if e2 is not None and e2 != obs:
            if opname == "reduce" and not own[id(it)] and obs == "undefined":
                key = "reduce:empty:undefined"
                what = "reduce on an empty iterable returns the undefined value instead of an error"
            else:
                key = "list-model:%s:%s:%s:%s-vs-%s" % (opname, it.cls, argclass(op, it), oclass(obs), oclass(e2))
                what = "%s = %s but the same operation on its own to_list %s gives %s" % (case, obs, own[id(it)], e2)
                mism += 1
            ctx.fail(key, what, stream=stream, case=case, impl=obs, model=e2,
                     oracle="operation result = list model applied to the implementation's own to_list")
    ctx.stream(stream, len(live), len(distinct),
               "every range kind (closed/open/left-open/right-open/endless x2; beginless for contains) with starts -2,0,1 and "
               "lengths -2..5 (some shifted across 2^63/2^64) plus boundary-anchored ranges of every iterable kind (start / end / "
               "first element / last element exactly on MinSmallInt, MaxSmallInt, their neighbours, +-2^63, +-2^64, bound distance "
               "0..4; beginless contains at the same anchors; reduced operation set in the quick tier); every finite Int range "
               "is first materialised through the bounded probe take(n+3) so that a non-stopping iterator is a wrong result, "
               "not a hang (such a range then only gets prefix-bounded operations); lists/tuples/sets/Int iterators/generators/a user-defined throwing iterator of 0-6 elements, each x all 24 "
               "operations x arguments (take/drop -2..n+2, contains/index_of around the bounds, 4 map closures, 11 predicates "
               "incl. throwing, 5 reducers incl. throwing, fold inits 0/-7); non-trivial = iterable non-empty; distinct by "
               "(iterable expression, operation+argument)",
               samples, dist, mismatches=mism, corpus_cases=ncorpus, programs=len(progs),
               skipped_nonterminating_on_endless=skipped, iterables=len(its), anchored_ranges=len(anch),
               probed_ranges=nprobed, ranges_whose_iterator_does_not_stop=len([i for i in its if i.bounded]))


def py_contains(kind, a, b, x):
    return {"closed": a <= x <= b, "open": a < x < b, "lopen": a < x <= b, "ropen": a <= x < b,
            "eclosed": a <= x, "eopen": a < x, "bclosed": x <= b, "bopen": x < b}[kind]


def gen_ops_all(it, op):
    """elk call text for a corpus op string"""
    p = op.split()
    o = p[0]
    if o in NULLARY:
        return [(op, o)]
    if o in ("contains", "index_of", "take", "drop"):
        return [(op, "%s(%s)" % (o, p[1]))]
    if o == "map":
        return [(op, "map(%s)" % fn1_elk(p[1]))]
    if o in PRED_OPS:
        return [(op, "%s(%s)" % (o, pred_elk(p[1])))]
    if o == "reduce":
        return [(op, "reduce(%s)" % fn2_elk(p[1]))]
    if o == "fold":
        return [(op, "fold(%s, %s)" % (p[1], fn2_elk(p[2])))]
    raise ValueError(op)


def read_corpus(path):
    if not os.path.exists(path):
        return []
    return [l.strip() for l in open(path) if l.strip() and not l.startswith("#")]


def parse_corpus_case(line):
    try:
        left, op = [x.strip() for x in line.split("|")]
        f = left.split()
        if f[0] == "L":
            l = [int(x) for x in f[1].split(",")] if f[1] != "-" else []
            e = "[%s]" % ", ".join(map(str, l)) if l else "empty_list"
            return Iterable("list", e, "L " + csv(l), l, lo=min(l or [0]), hi=max(l or [0])), op
        w, kind, a, b = int(f[1]), f[2], int(f[3]), int(f[4])
        fin = kind in FINITE
        elems = relems(kind, a, b) if fin else [a + (kind == "eopen") + i for i in range(8)]
        if w:  # fixed-width: do not materialise (may not terminate); only prefix operations
            fin = False
        return Iterable("range:" + kind, range_expr(kind, a, b, w), "R %d %s %d %d" % (w, kind, a, b), elems or [],
                        finite=fin, w=w, lo=a, hi=b), op
    except Exception:
        return None, None


# ------------------------------------------------------------------ c23.forin

FORMS = ("for-literal", "for-variable", "for-iter", "for-generic", "for-wrapped", "iter.take", "iter.take_while", "iter.index_of")


def forin_stream(ctx, model, elk):
    """Iteration of ranges the way programs do it: `for i in <range literal>` and `for i in <range variable>` (both
    compiled to numeric loops), `for i in r.iter`, a for loop over a PrimitiveIterable parameter holding the range or
    a user-defined wrapper (generic GET_ITERATOR/next path), and the explicit native iterator `r.iter` with the
    prefix-bounded operations take / take_while / index_of. Every loop is capped at n+3 iterations."""
    stream = "c23.forin"
    rng = ctx.rng(stream)
    ranges = []
    for kind in FINITE + ENDLESS:
        combos = [(a, d) for a in (-2, 0, 1) for d in ((-1, 0, 1, 2, 4) if kind in FINITE else (0,))]
        rng.shuffle(combos)
        for a, d in combos[:ctx.n(3, 15)]:
            ranges.append(mk_range(kind, a, a + d))
    ranges += gen_anchored(ctx.rng(stream + ".anchored"), ctx.tier)
    cases = []
    for it in ranges:
        n = len(it.elems) if it.finite else 8
        cap = n + 3 if it.finite else 8
        last = it.elems[-1] if it.elems else it.hi
        for form in FORMS:
            c = dict(id="k%d" % len(cases), it=it, form=form, cap=cap, want=it.elems[:cap], pre="")
            if form == "for-literal":
                c["expr"] = it.expr[1:-1]
            elif form == "for-variable":
                c["pre"] = "r_%s := %s\n  " % (c["id"], it.expr)
                c["expr"] = "r_" + c["id"]
            elif form == "for-iter":
                c["expr"] = it.expr + ".iter"
            elif form == "for-generic":
                c["call"] = "forit(%s, %d)" % (it.expr, cap)
            elif form == "for-wrapped":
                c["call"] = "forit(%s, %d)" % (it.wrapped(), cap)
            elif form == "iter.take":
                c["call"] = "%s.iter.take(%d)" % (it.expr, cap)
            elif form == "iter.take_while":
                # (take_while is eager) stops at the first element outside [first, last] of the expected elements,
                # so also on an iterator that wrapped around instead of stopping
                stop = last if it.finite else it.elems[cap - 1]
                c["call"] = "%s.iter.take_while(|x| -> x >= (%d) && x <= (%d)).take(%d)" % (
                    it.expr, it.elems[0] if it.elems else it.lo, stop, cap)
                if it.finite and not it.elems:
                    c["call"] = "%s.iter.take_while(|x| -> false)" % it.expr
            else:
                if not it.elems:
                    continue
                x = it.elems[min(len(it.elems), cap) - 1]
                c["call"] = "%s.iter.index_of(%d)" % (it.expr, x)
                c["want"] = min(len(it.elems), cap) - 1
            cases.append(c)

    def src(c):
        if "call" in c:
            return CASE % dict(id=c["id"], expr=c["call"])
        return FORCASE % c

    reqs = {}
    for c in cases:
        _, w, kind, a, b = c["it"].req.split()
        reqs[c["id"]] = "E 0 %s %s %s %d" % (kind, a, b, c["cap"])
    rc, exp, mout = model_answers(model, reqs, fuel=600)
    if rc != 0:
        ctx.broke("correspondence %s: model driver exited %d" % (stream, rc), mout[-2000:])
    progs = [("f%d" % (j // 50), cases[j:j + 50]) for j in range(0, len(cases), 50)]
    res = vlib.run_programs(elk, [(pid, HEADER + "".join(src(c) for c in b)) for pid, b in progs],
                            os.path.join(ctx.workdir, "forin"), timeout=60)
    got = {}
    for pid, (rc_, out, cls) in res.items():
        for line in out.splitlines():
            m = TAG_RE.match(line)
            if m:
                got[m.group(1)] = m.group(2)
    missing = [c for c in cases if c["id"] not in got]
    if missing:
        res2 = vlib.run_programs(elk, [("s" + c["id"], HEADER + src(c)) for c in missing[:80]],
                                 os.path.join(ctx.workdir, "forin1"), timeout=20)
        for c in missing[:80]:
            rc_, out, cls = res2["s" + c["id"]]
            for line in out.splitlines():
                m = TAG_RE.match(line)
                if m and m.group(1) == c["id"]:
                    got[c["id"]] = m.group(2)
            if c["id"] not in got:
                first = next((l for l in out.splitlines() if l.strip()), "")
                got[c["id"]] = ("panic " if cls in ("go_panic", "go_fatal") else cls + " ") + first[:160]
        if len(missing) > 80:
            ctx.broke("correspondence %s: %d cases produced no output" % (stream, len(missing) - 80),
                      "\n".join(src(c) for c in missing[80:84]))
    dist, distinct, mism, samples = {}, set(), 0, []
    for c in cases:
        it, form = c["it"], c["form"]
        obs = canon(got.get(c["id"], "missing")).lstrip("%")
        want = c["want"]
        wants = str(want) if isinstance(want, int) else "[" + ", ".join(map(str, want)) + "]"
        case = c.get("call") or "for i in %s%s (at most %d iterations)" % (c["pre"].replace("\n  ", "; "), c["expr"], c["cap"])
        dist[form + "/" + it.cls] = dist.get(form + "/" + it.cls, 0) + 1
        if it.anchor:
            dist["anchored:" + it.anchor] = dist.get("anchored:" + it.anchor, 0) + 1
        if want != []:
            distinct.add(case)
        if len(samples) < 4 and len(distinct) % 37 == 1:
            samples.append({"input": case, "observed": obs[:160]})
        e = exp.get(c["id"])
        if form != "iter.index_of" and e is not None and e != wants:
            ctx.broke("correspondence %s: generator and model disagree on %s" % (stream, it.expr), "%s vs %s" % (wants, e))
        if obs == wants:
            continue
        mism += 1
        _, _, kind, a, b = it.req.split()
        bounds = "start=%s" % bclass(int(a)) + (":end=%s" % bclass(int(b)) if it.finite else "")
        l = parse_list(obs)
        if it.finite and isinstance(want, list) and l is not None and len(l) > len(want) and l[:len(want)] == want:
            key = "forin:%s:range:%s:never-stops:%s" % (form, kind, bounds)
            what = "%s: %s has the %d elements %s but the iteration goes on: %s" % (case, it.expr, len(want), wants, obs)
        else:
            key = "forin:%s:range:%s:%s-vs-%s:%s" % (form, kind, oclass(obs), oclass(wants), bounds)
            what = "%s yields %s, the bounds describe %s" % (case, obs[:200], wants)
        ctx.fail(key, what, stream=stream, case=case, impl=obs, model=wants,
                 oracle="iteration yields exactly the elements in order (model: proved range_next progression)")
    ctx.stream(stream, len(cases), len(distinct),
               "every iterable range kind (3 small ranges per kind incl. empty/reversed, plus the boundary-anchored ranges of "
               "c23.ops with an independent seed) x 8 ways of iterating: for over a range literal / a range variable (numeric "
               "loops), for over r.iter, for over a PrimitiveIterable parameter holding the range / a user-defined wrapper, "
               "r.iter.take(n+3), r.iter.take_while(first <= x <= last).take(n+3), r.iter.index_of(last); loops capped at n+3 iterations "
               "(8 for endless ranges); non-trivial = non-empty expected elements; distinct by program text",
               samples, dist, mismatches=mism, ranges=len(ranges), programs=len(progs))


# ------------------------------------------------------------------ c23.nilable

NHEADER = '''def thrn(x: Int?, t: Int?): Int? ! String
  throw "boom" if x == t
  x
end
class NFI
  include Iterable::Base[Int?, String]
  var @items: List[Int?]
  var @i: Int
  init(@items: List[Int?])
    @i = 0
  end
  def iter: self
    self
  end
  def next: Int? ! String
    throw "boom" if @i >= @items.length
    v := @items[@i]
    @i += 1
    v
  end
  def inspect: String
    "NFI{}"
  end
end
def *ngen(l: List[Int?], r: Int?): Int?
  i := 0
  while i < l.length
    yield l[i]
    i += 1
  end
  r
end
'''

NFORCASE = '''do
  var l_%(id)s: List[Int?] = []
  for x in %(expr)s
    break if l_%(id)s.length >= %(cap)d
    l_%(id)s << x
  end
  out("%(id)s", l_%(id)s)
catch String() as s
  println("%(id)s E:s:" + s)
catch e
  println("%(id)s E:other")
end
'''

# element lists with nil at the first / last / middle / every / no position, 0 and duplicates (None = nil)
NIL_LISTS = [[None, 1, 2], [1, 2, None], [1, None, 2], [None], [None, None], [], [1, 2, 3], [0, None, 0], [None, 0],
             [0, 0, None], [2, 2, None, 2], [None, 1, None], [None, None, None], [0], [1, None]]
NWRAPPED = ("list", "tuple", "generator", "failing")
NDIRECT = ("direct-list-iter", "direct-tuple-iter", "direct-list", "direct-tuple")
NFORIN = ("for-list", "for-tuple", "for-list-iter", "for-wrapped", "for-generator", "for-failing")


def nel(e):
    return "nil" if e is None else str(e)


def ncsv(l):
    return ",".join("n" if e is None else str(e) for e in l) if l else "-"


def nshow(l):
    return "[" + ", ".join(nel(e) for e in l) + "]"


def nparse(o):
    """'[nil, 1]' -> [None, 1]"""
    o = o.lstrip("%")
    if not (o.startswith("[") and o.endswith("]")):
        return None
    try:
        return [None if x.strip() == "nil" else int(x) for x in o[1:-1].split(",") if x.strip()]
    except ValueError:
        return None


def npred_elk(f):
    p = f.split(":")
    x = "x"
    while p[0] == "thr":
        x = "thrn(%s, %s)" % (x, "nil" if p[1] == "n" else p[1])
        p = p[2:]
    if p[0] in ("true", "false"):
        return "|x| -> %s" % p[0]
    if p[0] == "isnil":
        return "|x| -> %s == nil" % x
    if p[0] == "notnil":
        return "|x| -> %s != nil" % x
    return "|x| -> %s %s (%s)" % (x, "==" if p[0] == "eq" else "!=", p[1])


def nop_elk(op):
    p = op.split()
    o = p[0]
    if o in NULLARY:
        return o
    if o in ("contains", "index_of"):
        return "%s(%s)" % (o, "nil" if p[1] == "n" else p[1])
    if o in ("take", "drop"):
        return "%s(%s)" % (o, p[1])
    if o == "mapor":
        return "map(|x| -> x ?? (%s))" % p[1]
    if o == "fold":
        return "fold(%s, |a, x| -> a * (%s) + (x ?? (%s)))" % (p[1], p[2], p[3])
    if o in PRED_OPS:
        return "%s(%s)" % (o, npred_elk(p[1]))
    raise ValueError(op)


def ngen_ops(l, full, quick=True):
    n = len(l)
    ops = []
    if full:
        for e in ("n", "0", "1", "7"):
            ops += ["contains " + e, "index_of " + e]
        for k in range(-1, n + 2):
            ops += ["take %d" % k, "drop %d" % k]
        ops += list(NULLARY) + ["mapor 7", "fold 0 10 7"]
        preds = ("isnil", "notnil", "eq:0", "thr:n:eq:1", "false") if quick else \
            ("isnil", "notnil", "eq:0", "ne:1", "false", "true", "thr:n:eq:1", "thr:1:isnil")
        for pr in preds:
            ops += ["%s %s" % (o, pr) for o in PRED_OPS]
    else:
        ops += ["contains n", "index_of n", "index_of 0", "take 1", "drop 1", "first", "try_first", "last", "try_last",
                "is_empty", "length", "to_list", "mapor 7"]
        for pr in ("isnil", "notnil"):
            ops += ["%s %s" % (o, pr) for o in ("find", "try_find", "any", "find_index", "filter", "take_while")]
    return ops


def nreceiver(form, var):
    """Elk receiver expression for a form, given the names of the typed list / tuple variables"""
    lv, tv, gl, gr = var
    return {"list": "W(%s.iter)" % lv, "tuple": "W(%s.iter)" % tv, "generator": "W(ngen(%s, %s))" % (gl, gr),
            "failing": "NFI(%s)" % lv, "direct-list-iter": "%s.iter" % lv, "direct-tuple-iter": "%s.iter" % tv,
            "direct-list": lv, "direct-tuple": tv, "for-list": lv, "for-tuple": tv, "for-list-iter": "%s.iter" % lv,
            "for-wrapped": "W(%s.iter)" % tv, "for-generator": "ngen(%s, %s)" % (gl, gr), "for-failing": "NFI(%s)" % lv}[form]


def nilable_stream(ctx, model, elk):
    """Iterables whose ELEMENT TYPE is Int? (nil is an element): lists, tuples, their iterators, generators and a
    user-defined throwing iterator, through the W wrapper (vm/iterable.go), called directly, and through for loops.
    Model: the extracted instance C23_Nil (element type option Z), where a selected nil element (`nil`) and
    no selected element (E:nf) are different outcomes."""
    stream = "c23.nilable"
    rng = ctx.rng(stream)
    lists = [list(l) for l in NIL_LISTS]
    for _ in range(ctx.n(2, 60)):
        lists.append([None if rng.range(0, 2) == 0 else rng.choice([-1, 0, 1, 2]) for _ in range(rng.range(0, 5))])
    corpus = read_corpus(os.path.join(vlib.ROOT, "corpus", "C23.nilable.txt"))
    groups = []   # one per element list: (decls, cases)
    cases = []

    def group(j, l, wanted):
        """wanted: [(form, ops or None for a for-loop)]"""
        lv, tv, gl = "nl_%d" % j, "nt_%d" % j, "ng_%d" % j
        decl = "var %s: List[Int?] = %s\nvar %s: Tuple[Int?] = %%%s\n" % (lv, nshow(l), tv, nshow(l))
        decl += "var %s: List[Int?] = %s\n" % (gl, nshow(l[:-1]))
        g = []
        for form, ops in wanted:
            if "generator" in form and not l:
                form = form.replace("generator", "list")
            recv = nreceiver(form, (lv, tv, gl, nel(l[-1]) if l else "nil"))
            failing = form.endswith("failing")
            req = ("NF " if failing else "NL ") + ncsv(l)
            if ops is None:
                c = dict(id="k%d" % len(cases), l=l, form=form, op="to_list", req=req + " to_list", kind="forin",
                         src=None, expr="for x in " + recv, failing=failing)
                c["src"] = NFORCASE % dict(id=c["id"], expr=recv, cap=len(l) + 3)
                cases.append(c)
                g.append(c)
                continue
            for op in ops:
                c = dict(id="k%d" % len(cases), l=l, form=form, op=op, req=req + " " + op, kind="op",
                         expr="%s.%s" % (recv, nop_elk(op)), failing=failing, recv=recv)
                c["src"] = CASE % dict(id=c["id"], expr=c["expr"])
                cases.append(c)
                g.append(c)
        groups.append((decl, g))

    ncorpus = 0
    for line in corpus:      # "<form> <csv|-> | <op>"
        try:
            left, op = [x.strip() for x in line.split("|")]
            form, cs = left.split()
            l = [] if cs == "-" else [None if x == "n" else int(x) for x in cs.split(",")]
            nop_elk(op)
            assert form in NWRAPPED + NDIRECT
        except Exception:
            ctx.broke("correspondence %s: bad corpus line" % stream, line)
            continue
        group(len(groups), l, [(form, [op, "to_list"] if op != "to_list" else [op])])
        ncorpus += 1
    for j, l in enumerate(lists):
        wanted = [(NWRAPPED[j % 4], ngen_ops(l, True, ctx.quick()))]
        wanted += [(NDIRECT[(j + d) % 4], ngen_ops(l, False)) for d in ((0,) if ctx.quick() else (0, 2))]
        wanted += [(NFORIN[(j + d) % 6], None) for d in (0, 3)]
        group(len(groups), l, wanted)

    reqs = {c["id"]: c["req"] for c in cases}
    rc, exp, mout = model_answers(model, reqs, fuel=600)
    if rc != 0:
        ctx.broke("correspondence %s: model driver exited %d" % (stream, rc), mout[-2000:])
    # programs: whole groups, ~120 cases per program
    progs, cur, cnt = [], "", 0
    for decl, g in groups:
        cur += decl + "".join(c["src"] for c in g)
        cnt += len(g)
        if cnt >= 120:
            progs.append(("n%d" % len(progs), cur))
            cur, cnt = "", 0
    if cur:
        progs.append(("n%d" % len(progs), cur))
    res = vlib.run_programs(elk, [(pid, HEADER + NHEADER + src) for pid, src in progs], os.path.join(ctx.workdir, "nilable"),
                            timeout=120)
    got = {}
    for pid, (rc_, out, cls) in res.items():
        for line in out.splitlines():
            m = TAG_RE.match(line)
            if m:
                got[m.group(1)] = m.group(2)
    missing = [c for c in cases if c["id"] not in got]
    if missing:
        # rerun alone (with the declarations of its group)
        decl_of = {}
        for decl, g in groups:
            for c in g:
                decl_of[c["id"]] = decl
        rer = missing[:60]
        res2 = vlib.run_programs(elk, [("s" + c["id"], HEADER + NHEADER + decl_of[c["id"]] + c["src"]) for c in rer],
                                 os.path.join(ctx.workdir, "nilable1"), timeout=60)
        for c in rer:
            rc_, out, cls = res2["s" + c["id"]]
            for line in out.splitlines():
                m = TAG_RE.match(line)
                if m and m.group(1) == c["id"]:
                    got[c["id"]] = m.group(2)
            if c["id"] not in got:
                first = next((x for x in out.splitlines() if x.strip()), "")
                got[c["id"]] = ("panic " if cls in ("go_panic", "go_fatal") else cls + " ") + first[:160]
        if len(missing) > len(rer):
            ctx.broke("correspondence %s: %d cases produced no output" % (stream, len(missing) - len(rer)),
                      "\n".join(c["expr"] for c in missing[60:70]))
    # oracle 2: the list model on the implementation's own to_list of the same receiver
    own = {}
    for c in cases:
        if c["kind"] == "op" and c["op"] == "to_list" and not c["failing"]:
            o = nparse(canon(got.get(c["id"], "")))
            if o is not None:
                own[(id(c["l"]), c["form"])] = o
    reqs2 = {c["id"]: "NS %s %s" % (ncsv(own[(id(c["l"]), c["form"])]), c["op"]) for c in cases
             if c["kind"] == "op" and (id(c["l"]), c["form"]) in own}
    rc, exp2, mout = model_answers(model, reqs2)
    if rc != 0:
        ctx.broke("correspondence %s: model driver (list model) exited %d" % (stream, rc), mout[-2000:])
    dist, distinct, mism, samples, nilsel = {}, set(), 0, [], 0
    for c in cases:
        obs = canon(got.get(c["id"], "missing"))
        e1 = exp.get(c["id"])
        opname = c["op"].split()[0]
        direct = c["form"].startswith("direct") or c["kind"] == "forin"
        o1, x1 = (obs.lstrip("%"), (e1 or "").lstrip("%")) if direct else (obs, e1)   # collection type of a direct result is not property-level
        case = "%s  with elements %s" % (c["expr"], nshow(c["l"]))
        dist[c["form"] + "/" + opname] = dist.get(c["form"] + "/" + opname, 0) + 1
        if None in c["l"]:
            distinct.add((c["form"], tuple(c["l"]), c["op"]))
        if e1 == "nil" and opname in ("first", "last", "find") and c["l"]:
            nilsel += 1
        if len(samples) < 4 and len(distinct) % 101 == 1:
            samples.append({"input": case, "observed": obs[:120]})
        if c["kind"] == "forin":
            if o1 != x1:
                mism += 1
                ctx.fail("nilable:forin:%s:%s-vs-%s" % (c["form"], oclass(obs), oclass(e1)),
                         "%s yields %s, the elements are %s" % (case, obs[:160], e1), stream=stream, case=case, impl=obs,
                         model=e1, oracle="iteration yields exactly the elements in order (nil elements included)")
            continue
        if e1 is not None and o1 != x1:
            mism += 1
            ctx.fail("nilable:model:%s:%s:%s-vs-%s" % (opname, c["form"], oclass(obs), oclass(e1)),
                     "%s: implementation %s, model %s" % (case, obs[:160], e1), stream=stream, case=case, impl=obs, model=e1,
                     oracle="implementation differs from the proved model instance with nilable elements (a nil ELEMENT is a "
                            "value, only absence is NotFoundError)")
        e2 = exp2.get(c["id"])
        if e2 is not None and o1 != (e2.lstrip("%") if direct else e2):
            mism += 1
            ctx.fail("nilable:list-model:%s:%s:%s-vs-%s" % (opname, c["form"], oclass(obs), oclass(e2)),
                     "%s = %s but the same operation on its own to_list %s gives %s" % (
                         case, obs[:160], nshow(own[(id(c["l"]), c["form"])]), e2), stream=stream, case=case, impl=obs,
                     model=e2, oracle="operation result = list model applied to the implementation's own to_list")
    ctx.stream(stream, len(cases), len(distinct),
               "iterables with element type Int? (nil is an element): %d systematic element lists with nil at the first / last / "
               "middle / every / no position, zeros and duplicates, plus seeded random ones (length 0-5, each element nil with "
               "probability 1/3); each as List / Tuple through the W wrapper, as generator and as user-defined throwing iterator "
               "(round robin) x 24 operations (contains/index_of nil, 0, 1, 7; take/drop -1..n+1; map |x| -> x ?? 7; fold; 8 "
               "predicates (5 in the quick tier) incl. x == nil, x != nil and closures throwing on nil), one (thorough: two) direct "
               "receiver (list / tuple value or native iterator) x 25 operations, two for-loop forms; expected = extracted model instance C23_Nil (nil element "
               "prints nil, absence E:nf) and the list model on the implementation's own to_list; non-trivial = the list contains "
               "nil; distinct by (form, elements, operation)" % len(NIL_LISTS),
               samples, dist, mismatches=mism, corpus_cases=ncorpus, programs=len(progs), element_lists=len(lists),
               cases_where_first_last_find_select_a_nil_element=nilsel)


# ------------------------------------------------------------------ c23.direct

def direct_stream(ctx, model, elk):
    """The same operations called the way the headers advertise them: directly on native
    iterators (`x.iter.map(...)`, declared `include Iterator::Base` -> `Iterable::Base`) and on
    collections. One program per case (an invalid-method panic kills the program)."""
    stream = "c23.direct"
    recv = []   # (class, elk expr, elements or None, ordered)
    for kind, a, b in (("closed", 1, 4), ("open", 0, 4), ("lopen", -1, 2), ("ropen", 2, 5), ("eclosed", 1, 0), ("eopen", 1, 0)):
        el = relems(kind, a, b)
        recv.append(("range-iterator", range_expr(kind, a, b) + ".iter", el, True,
                     "R 0 %s %d %d" % (kind, a, b)))
    recv += [("list-iterator", "[3, 1, 2].iter", [3, 1, 2], True, "L 3,1,2"),
             ("tuple-iterator", "%[3, 1, 2].iter", [3, 1, 2], True, "L 3,1,2"),
             ("set-iterator", "^[3, 1, 2].iter", [3, 1, 2], False, None),
             ("int-iterator", "3.iter", [0, 1, 2], True, "L 0,1,2"),
             ("list", "[3, 1, 2]", [3, 1, 2], True, "L 3,1,2"),
             ("tuple", "%[3, 1, 2]", [3, 1, 2], True, "L 3,1,2"),
             ("set", "^[3, 1, 2]", [3, 1, 2], False, None),
             ("map", "{1 => 2}", None, False, None)]
    ops_quick = [("to_list", "to_list"), ("map add:1", "map(|x| -> x + 1)"), ("take 2", "take(2)"),
                 ("reduce sub", "reduce(|a, x| -> a - x)"), ("first", "first"), ("length", "length"),
                 ("filter even", "filter(|x| -> x % 2 == 0)")]
    ops_more = [("contains 2", "contains(2)"), ("is_empty", "is_empty"), ("try_first", "try_first"), ("last", "last"),
                ("try_last", "try_last"), ("reject even", "reject(|x| -> x % 2 == 0)"), ("count even", "count(|x| -> x % 2 == 0)"),
                ("any gt:1", "any(|x| -> x > 1)"), ("every gt:1", "every(|x| -> x > 1)"), ("find gt:1", "find(|x| -> x > 1)"),
                ("try_find gt:9", "try_find(|x| -> x > 9)"), ("index_of 2", "index_of(2)"),
                ("find_index gt:1", "find_index(|x| -> x > 1)"), ("drop 1", "drop(1)"),
                ("drop_while lt:2", "drop_while(|x| -> x < 2)"), ("take_while lt:3", "take_while(|x| -> x < 3)"),
                ("fold 0 muladd:10", "fold(0, |a, x| -> a * 10 + x)"), ("to_tuple", "to_tuple")]
    ops = ops_quick + (ops_more if not ctx.quick() else [])
    map_ops = [("to_list", "to_list"), ("take 1", "take(1)"), ("length", "length"), ("first", "first")]
    cases = []
    for cls, expr, el, ordered, req in recv:
        for op, call in (map_ops if cls == "map" else ops):
            cases.append(dict(id="k%d" % len(cases), cls=cls, recv=expr, expr="%s.%s" % (expr, call), op=op, el=el,
                              ordered=ordered, req=req))
    reqs = {c["id"]: c["req"] + " " + c["op"] for c in cases if c["req"]}
    rc, exp, mout = model_answers(model, reqs, fuel=600)
    live = [c for c in cases if exp.get(c["id"]) != "nofuel"]
    reqs2 = {c["id"]: "S %s %s" % (csv(c["el"]), c["op"]) for c in live if c["el"] is not None and c["ordered"] and c["req"] and
             c["req"].startswith("L")}
    rc, exp2, mout = model_answers(model, reqs2)
    # one program per receiver first; every case without output (an invalid-method panic kills the whole
    # program) is then rerun in a program of its own
    groups = {}
    for c in live:
        groups.setdefault(c["recv"], []).append(c)
    gsrcs = [("g%d" % j, HEADER + "".join(CASE % dict(id=c["id"], expr=c["expr"]) for c in g))
             for j, g in enumerate(groups.values())]
    gres = vlib.run_programs(elk, gsrcs, os.path.join(ctx.workdir, "directg"), timeout=60)
    res = {}
    for j, g in enumerate(groups.values()):
        rc_, out, cls_ = gres["g%d" % j]
        tagged = {}
        for line in out.splitlines():
            m = TAG_RE.match(line)
            if m:
                tagged[m.group(1)] = line
        for c in g:
            if c["id"] in tagged:
                res[c["id"]] = (0, tagged[c["id"]], "ok")
    alone = [c for c in live if c["id"] not in res]
    res.update(vlib.run_programs(elk, [(c["id"], HEADER + CASE % dict(id=c["id"], expr=c["expr"])) for c in alone],
                                 os.path.join(ctx.workdir, "direct"), timeout=60))
    dist, distinct, mism, samples = {}, set(), 0, []
    for c in live:
        rc_, out, cls_ = res[c["id"]]
        obs = None
        for line in out.splitlines():
            m = TAG_RE.match(line)
            if m and m.group(1) == c["id"]:
                obs = canon(m.group(2))
        first = next((l for l in out.splitlines() if l.strip()), "")
        opname = c["op"].split()[0]
        if obs is None:
            obs = ("panic " if cls_ in ("go_panic", "go_fatal") else cls_ + " ") + first[:150]
        dist[c["cls"] + "/" + oclass(obs)] = dist.get(c["cls"] + "/" + oclass(obs), 0) + 1
        distinct.add(c["expr"])
        if len(samples) < 4 and len(distinct) % 23 == 1:
            samples.append({"input": c["expr"], "observed": obs[:120]})
        if obs.startswith("panic") and "invalid method" in obs:
            mism += 1
            ctx.fail("direct:%s:invalid-method-panic" % c["cls"],
                     "%s is accepted by the type checker and crashes the VM: %s" % (c["expr"], obs[:140]), stream=stream,
                     case=c["expr"], impl=obs, model=exp.get(c["id"]) or exp2.get(c["id"]) or "a value",
                     oracle="the operation returns what the list model returns (it must at least exist at run time)")
            continue
        if obs.startswith(("panic", "timeout", "elk_error", "signal")):
            mism += 1
            ctx.fail("direct:%s:%s:%s" % (c["cls"], opname, oclass(obs)), "%s: %s" % (c["expr"], obs[:200]), stream=stream,
                     case=c["expr"], impl=obs, model=exp.get(c["id"]), oracle="the operation returns a value")
            continue
        e = exp.get(c["id"])
        if e is None or not c["ordered"]:
            continue
        # collection type of the result (list vs tuple) is not property-level
        o1, e1 = obs.lstrip("%"), e.lstrip("%")
        if o1 != e1 and not (opname == "reduce" and e == "undefined"):
            mism += 1
            ctx.fail("direct:%s:%s:%s-vs-%s" % (c["cls"], opname, oclass(obs), oclass(e)),
                     "%s = %s, list model %s" % (c["expr"], obs, e), stream=stream, case=c["expr"], impl=obs, model=e,
                     oracle="operation result = list model on the elements")
    ctx.stream(stream, len(live), len(distinct),
               "the operations called directly on native iterators (6 range iterator kinds, list/tuple/set/Int iterators) and on "
               "list/tuple/set/map values, one program per receiver (cases without output rerun alone); %d operations per "
               "receiver in this tier; non-trivial = all; distinct by expression" % len(ops), samples, dist, mismatches=mism,
               rerun_alone=len(alone))


# ------------------------------------------------------------------ c23.api

def api_keyfn(inp, obs, exp):
    f = inp.split()
    kind = f[1] if f[0] == "C" else (f[2] if len(f) > 2 else "-")
    if f[0] in ("E", "A") and (obs.endswith("!nostop") or obs == "nofuel" or obs.startswith("hang")):
        # the iterator of a finite range yields more elements than the bounds allow
        try:
            return "api:%s:%s:never-stops:start=%s:end=%s" % (f[0], kind, bclass(int(f[3])), bclass(int(f[4])))
        except ValueError:
            pass
    return "api:%s:%s:%s-vs-%s" % (f[0], kind, oclass(obs), oclass(exp))


def api_stream(ctx, model):
    h = vlib.build_harness("c23")
    vlib.value_stream(
        ctx, "c23.api", h, model, ctx.n(6000, 200000), api_keyfn,
        "Go API: vm.<Kind>RangeContains on all 8 kinds (C requests), <Kind>RangeIteratorNext driven to the end / for a "
        "prefix (E requests) and <Kind>RangeIteratorAll (A requests). Half of the budget: the systematic grid of every "
        "iterable kind x 20 anchors (Min/MaxSmallInt and +-1/+-2, +-2^63, +-2^64, +-(2^64-1), +-2^32, +-2^31, 0) x range "
        "STARTING / ENDING exactly on the anchor x bound distance 0..3 (E, A and contains at the anchor +-1); the rest "
        "random: SmallInt and BigInt bounds around 0, +-2^63, +-2^64 and random 1-100 bit values, lengths -3..12, one third "
        "anchored (start / end / first element / last element on an anchor, distance -2..8). A finite range that yields "
        "more than (end-start)+4 elements is cut off and reported as a wrong list ending in !nostop; 60 s watchdog per "
        "case; non-trivial = non-empty range or contains = true; distinct by full input",
        corpus=os.path.join(vlib.ROOT, "corpus", "C23.api.txt"),
        nontrivial=lambda i, o: o not in ("[]", "false"))
