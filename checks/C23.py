"""C23 — ranges and iterable operations agree with a list model."""
import os
import re
import subprocess
import vlib

KINDS = {  # model kind -> Elk syntax
    "closed": "(%s)...(%s)", "open": "(%s)<.<(%s)", "lopen": "(%s)<..(%s)", "ropen": "(%s)..<(%s)",
    "eclosed": "(%s)...", "eopen": "(%s)<..", "bclosed": "...(%s)", "bopen": "..<(%s)",
}
FINITE = ("closed", "open", "lopen", "ropen")
ENDLESS = ("eclosed", "eopen")

HEADER = '''class W[V]
  include Iterable::Base[V, never]
  attr iter: Iterator[V, never]
  init(@iter: Iterator[V, never]); end
  def inspect: String
    "W{}"
  end
end
def out(tag: String, v: Inspectable?)
  if v == nil
    println(tag + " nil")
  else
    println(tag + " " + v.inspect)
  end
end
def thr(x: Int, t: Int): Int ! String
  throw "boom" if x == t
  x
end
class FI
  include Iterable::Base[Int, String]
  var @items: List[Int]
  var @i: Int
  init(@items: List[Int])
    @i = 0
  end
  def iter: self
    self
  end
  def next: Int ! String
    throw "boom" if @i >= @items.length
    v := @items[@i]
    @i += 1
    v
  end
  def inspect: String
    "FI{}"
  end
end
def *gen(a: Int, n: Int): Int
  i := 0
  while i < n
    yield a + i
    i += 1
  end
  a + n
end
var empty_list: List[Int] = []
var empty_tuple: Tuple[Int] = %[]
'''

CASE = '''do
  out("%(id)s", %(expr)s)
catch OutOfRangeError()
  println("%(id)s E:oor")
catch Iterable::NotFoundError()
  println("%(id)s E:nf")
catch String() as s
  println("%(id)s E:s:" + s)
catch e
  println("%(id)s E:other")
end
'''


def lit(z, w=0):
    s = str(z)
    return s + ("i%d" % w if w else "")


def range_expr(kind, a, b, w=0):
    f = KINDS[kind]
    if kind in FINITE:
        return "(" + f % (lit(a, w), lit(b, w)) + ")"
    if kind in ENDLESS:
        return "(" + f % lit(a, w) + ")"
    return "(" + f % lit(b, w) + ")"


class Iterable:
    """an Elk iterable under test: its expression, the model request prefix, the intended contents"""

    def __init__(self, cls, expr, req, elems, finite=True, ordered=True, w=0, lo=0, hi=0):
        self.cls, self.expr, self.req, self.elems = cls, expr, req, elems
        self.finite, self.ordered, self.w, self.lo, self.hi = finite, ordered, w, lo, hi

    def wrapped(self):
        if self.cls == "failing":
            return self.expr
        if self.cls == "generator":
            return "W(%s)" % self.expr
        return "W(%s.iter)" % self.expr


def csv(l):
    return ",".join(str(x) for x in l) if l else "-"


def relems(kind, a, b):
    if kind == "closed":
        return list(range(a, b + 1))
    if kind == "ropen":
        return list(range(a, b))
    if kind == "lopen":
        return list(range(a + 1, b + 1))
    if kind == "open":
        return list(range(a + 1, b))
    return None


def gen_iterables(rng, n, tier):
    its = []
    # systematic small ranges first: every kind x start x length (incl. empty and reversed)
    combos = []
    for kind in FINITE + ENDLESS:
        for a in (-2, 0, 1):
            for d in ((-2, -1, 0, 1, 2, 3, 5) if kind in FINITE else (0,)):
                combos.append((kind, a, a + d))
    rng.shuffle(combos)
    # round-robin over the kinds so that every kind appears in the quick tier
    seen = {}
    ordered = []
    for c in combos:
        seen.setdefault(c[0], []).append(c)
    while any(seen.values()):
        for k in FINITE + ENDLESS:
            if seen[k]:
                ordered.append(seen[k].pop())
    big = [2 ** 63 - 3, -2 ** 63 - 2, 2 ** 64 - 1, 10 ** 30]
    for j, (kind, a, b) in enumerate(ordered):
        if j % 9 == 8:  # shift some ranges across the SmallInt/BigInt boundary
            off = rng.choice(big)
            a, b = a + off, b + off
        if kind in FINITE:
            its.append(Iterable("range:" + kind, range_expr(kind, a, b), "R 0 %s %d %d" % (kind, a, b),
                                relems(kind, a, b), lo=a, hi=b))
        else:
            first = a if kind == "eclosed" else a + 1
            its.append(Iterable("range:" + kind, range_expr(kind, a, 0), "R 0 %s %d 0" % (kind, a),
                                [first + i for i in range(8)], finite=False, lo=a, hi=a + 6))
    # lists, tuples, sets, Int iterators
    ranges, its = its, []
    for j in range(max(8, n // 4)):
        ln = rng.choice([0, 1, 2, 3, 4, 6])
        l = [rng.range(-3, 6) for _ in range(ln)]
        form = j % 6
        lo, hi = (min(l), max(l)) if l else (0, 0)
        if form == 0:
            e = "[%s]" % ", ".join(map(str, l)) if l else "empty_list"
            its.append(Iterable("list", e, "L " + csv(l), l, lo=lo, hi=hi))
        elif form == 1:
            e = "%%[%s]" % ", ".join(map(str, l)) if l else "empty_tuple"
            its.append(Iterable("tuple", e, "L " + csv(l), l, lo=lo, hi=hi))
        elif form == 2:
            s = sorted(set(l)) or [1]
            its.append(Iterable("set", "^[%s]" % ", ".join(map(str, s)), None, s, ordered=False, lo=min(s), hi=max(s)))
        elif form == 4:
            # generator function: yields a .. a+k-1 and finally its return value a+k
            a, k = rng.range(-2, 3), rng.range(0, 4)
            l = list(range(a, a + k + 1))
            its.append(Iterable("generator", "gen(%d, %d)" % (a, k), "L " + csv(l), l, lo=a, hi=a + k))
        elif form == 3:
            # user-defined iterator whose `next` throws "boom" after the list (the err path of vm.Iterate)
            e = "FI([%s])" % ", ".join(map(str, l)) if l else "FI(empty_list)"
            its.append(Iterable("failing", e, "F " + csv(l), l, lo=lo, hi=hi))
        else:
            k = rng.range(0, 5)
            its.append(Iterable("int_iter", "%d" % k, "L " + csv(list(range(k))), list(range(k)), lo=0, hi=k))
    # three ranges, then one collection, and so on
    merged = []
    while ranges or its:
        merged += ranges[:3]
        ranges = ranges[3:]
        merged += its[:1]
        its = its[1:]
    return merged[:n] if tier == "quick" else merged


def fn1_elk(f):
    p = f.split(":")
    x = "x"
    while p[0] == "thr":
        x = "thr(%s, %s)" % (x, p[1])
        p = p[2:]
    return "|x| -> %s %s (%s)" % (x, "+" if p[0] == "add" else "*", p[1])


def pred_elk(f):
    p = f.split(":")
    x = "x"
    thrown = False
    while p[0] == "thr":
        x = "thr(%s, %s)" % (x, p[1])
        p = p[2:]
        thrown = True
    if p[0] == "even":
        return "|x| -> %s %% 2 == 0" % x
    if p[0] in ("true", "false"):
        return "|x| -> %s" % p[0] if not thrown else "|x| -> %s == %s || %s" % (x, x, p[0])
    return "|x| -> %s %s (%s)" % (x, {"gt": ">", "lt": "<", "eq": "=="}[p[0]], p[1])


def fn2_elk(f):
    p = f.split(":")
    x = "x"
    while p[0] == "thr":
        x = "thr(%s, %s)" % (x, p[1])
        p = p[2:]
    if p[0] == "add":
        return "|a, x| -> a + %s" % x
    if p[0] == "sub":
        return "|a, x| -> a - %s" % x
    return "|a, x| -> a * (%s) + %s" % (p[1], x)


PRED_OPS = ("filter", "reject", "count", "any", "every", "find", "try_find", "find_index", "drop_while", "take_while")
NULLARY = ("is_empty", "first", "try_first", "last", "try_last", "to_list", "to_tuple", "to_collection",
           "to_immutable_collection", "length")


def gen_ops(it, rng):
    """all operation requests for one iterable: [(model op string, elk call suffix)]"""
    ops = []
    n = len(it.elems) if it.finite else 4
    lo, hi = it.lo, it.hi
    mid = it.elems[len(it.elems) // 2] if it.elems else lo
    xs = sorted(set([lo - 1, lo, mid, hi, hi + 1] + it.elems[:1] + it.elems[-1:]))
    for x in xs:
        ops.append(("contains %d" % x, "contains(%d)" % x))
        ops.append(("index_of %d" % x, "index_of(%d)" % x))
    for k in range(-2, n + 3):
        ops.append(("take %d" % k, "take(%d)" % k))
        ops.append(("drop %d" % k, "drop(%d)" % k))
    for o in NULLARY:
        ops.append((o, o))
    t_in = it.elems[min(1, len(it.elems) - 1)] if it.elems else mid
    t_last = it.elems[-1] if it.elems else mid
    for f in ("add:1", "mul:2", "thr:%d:add:1" % t_in, "thr:%d:mul:-1" % (hi + 7)):
        ops.append(("map " + f, "map(%s)" % fn1_elk(f)))
    preds = ["even", "gt:%d" % mid, "lt:%d" % mid, "eq:%d" % t_last, "gt:%d" % (lo - 2), "lt:%d" % (lo - 2),
             "true", "false", "thr:%d:even" % t_in, "thr:%d:gt:%d" % (t_last, mid), "thr:%d:lt:%d" % (hi + 7, mid)]
    for p in preds:
        for o in PRED_OPS:
            ops.append(("%s %s" % (o, p), "%s(%s)" % (o, pred_elk(p))))
    for g in ("add", "sub", "muladd:10", "thr:%d:sub" % t_last, "thr:%d:add" % (it.elems[0] if it.elems else mid)):
        ops.append(("reduce " + g, "reduce(%s)" % fn2_elk(g)))
        for i in (0, -7):
            ops.append(("fold %d %s" % (i, g), "fold(%d, %s)" % (i, fn2_elk(g))))
    return ops


CAP_RE = re.compile(r"^(%?\[.*\]):\d+$")
TAG_RE = re.compile(r"^(k\d+[a-z]?\d*) (.*)$")


def canon(s, w=0):
    s = s.strip()
    m = CAP_RE.match(s)
    if m:
        s = m.group(1)
    if w:
        s = re.sub(r"(-?\d+)i%d\b" % w, r"\1", s)
    return s


def oclass(s):
    if s is None:
        return "missing"
    if s.startswith("E:"):
        return ":".join(s.split(":")[:2])
    if s.startswith("%["):
        return "tuple"
    if s.startswith("["):
        return "list"
    if s in ("true", "false"):
        return "bool"
    if s in ("nil", "undefined", "nofuel"):
        return s
    if re.match(r"^-?\d+$", s):
        return "int"
    if s.startswith("panic"):
        return "go_panic"
    return "other"


def argclass(op, it):
    p = op.split()
    if p[0] in ("take", "drop"):
        k = int(p[1])
        n = len(it.elems) if it.finite else None
        return "neg" if k < 0 else "0" if k == 0 else "n" if n is not None and k == n else \
            ">n" if n is not None and k > n else "<n"
    if len(p) > 1 and "thr" in p[-1]:
        return "throwing"
    return "empty" if it.finite and not it.elems else "-"


def model_answers(model, reqs, fuel=None):
    ids = list(reqs)
    rc, exp, out = vlib.run_model(model, ids, reqs, args=(["-fuel", str(fuel)] if fuel else []))
    return rc, exp, out


def run(ctx):
    ctx.explanation = (
        "Proved in Coq (unbounded, any element type, any closures incl. throwing ones): the Go-mirroring loop model of "
        "24 generic operations of vm/iterable.go (contains is_empty first try_first last try_last map filter reject count any "
        "every find try_find index_of find_index drop drop_while take take_while fold reduce to_list(=to_collection, to_tuple, "
        "to_immutable_collection) length) equals the list model on the materialised elements of every finite iterator; "
        "the list model equals the standard list functions for pure closures; first/take/find/try_find/any/take_while read only "
        "a finite prefix of an infinite iterator; all 8 range kinds: contains = bound test, the 4 finite kinds yield exactly "
        "the described integers in order, the 2 endless kinds the infinite progression (Int = Z). reduce on an EMPTY iterable "
        "returns the undefined value (refuted + partial), fixed-width integer ranges wrap at the type maximum (refuted + "
        "partial). Differential-tested only: that the Coq model mirrors the Go code (stream c23.ops runs generated Elk programs "
        "through `elk run` on every range kind/list/tuple/set/Int iterator/generator/throwing user iterator x every operation x argument values; stream "
        "c23.api calls vm.*RangeContains / *IteratorNext directly). Not modelled: maps, channels, strings as "
        "iterables; non-Int element types other than Int8 ranges; the iterator state left behind by take (it consumes k+1).")
    ctx.trusted_base += [
        "Elk Int Increment/comparison modelled as Z successor/order (C06 covers Int arithmetic); Equal on Ints as Z.eqb",
        "the generated Elk wrapper class (include Iterable::Base + attr iter) reaches vm/iterable.go through vm.Iterate's default branch",
        "Python generator/canonicaliser of c23.ops (strips the ArrayList capacity suffix ':N' and the iN literal suffix)",
    ]
    ctx.run_proof_gate()
    model = vlib.build_model("C23")
    elk = vlib.build_elk()
    ops_stream(ctx, model, elk)
    direct_stream(ctx, model, elk)
    api_stream(ctx, model)


# ------------------------------------------------------------------ c23.ops

def ops_stream(ctx, model, elk):
    stream = "c23.ops"
    rng = ctx.rng(stream)
    its = gen_iterables(rng, ctx.n(36, 400), ctx.tier)
    corpus = read_corpus(os.path.join(vlib.ROOT, "corpus", "C23.ops.txt"))
    cases = []   # dict(id, it, op, elk, kind)
    cid = 0

    def add(it, op, expr, kind, prog=None):
        nonlocal cid
        cases.append(dict(id="k%d" % cid, it=it, op=op, expr=expr, kind=kind, prog=prog))
        cid += 1

    # corpus first: "<w> <kind> <a> <b> | <op>"  or "L <csv> | <op>"
    for line in corpus:
        it, op = parse_corpus_case(line)
        if it is None:
            continue
        call = dict(gen_ops_all(it, op))
        add(it, op, "%s.%s" % (it.wrapped(), call[op]), "op")
        if it.finite:
            add(it, "to_list", it.wrapped() + ".to_list", "tolist")
        else:
            add(it, "take 8", it.wrapped() + ".take(8)", "tolist")
    ncorpus = len(cases)
    for it in its:
        add(it, "to_list" if it.finite else "take 8", it.wrapped() + (".to_list" if it.finite else ".take(8)"), "tolist")
        for op, call in gen_ops(it, rng):
            add(it, op, "%s.%s" % (it.wrapped(), call), "op")
        if it.cls.startswith("range:"):
            for x in range(it.lo - 2, it.hi + 3):
                add(it, "rcontains %d" % x, "%s.contains(%d)" % (it.expr, x), "rcontains")
    # beginless ranges: contains only
    for kind in ("bclosed", "bopen"):
        for b in (-1, 0, 2, 2 ** 63, -2 ** 63 - 1):
            it = Iterable("range:" + kind, range_expr(kind, 0, b), "R 0 %s 0 %d" % (kind, b), None, finite=False, lo=b, hi=b)
            for x in range(b - 2, b + 3):
                add(it, "rcontains %d" % x, "%s.contains(%d)" % (it.expr, x), "rcontains")

    # ask the model first (oracle 1 expectation); drop cases that do not terminate on an endless range
    reqs = {}
    for c in cases:
        it = c["it"]
        if c["kind"] == "rcontains":
            _, w, kind, a, b = it.req.split()
            reqs[c["id"]] = "C %s %s %s %s" % (kind, a, b, c["op"].split()[1])
        elif it.req is not None:
            reqs[c["id"]] = it.req + " " + c["op"]
    rc, exp, mout = model_answers(model, reqs, fuel=600)
    if rc != 0:
        ctx.broke("correspondence %s: model driver exited %d" % (stream, rc), mout[-2000:])
    live = [c for c in cases if exp.get(c["id"]) != "nofuel"]
    skipped = len(cases) - len(live)

    # programs: batch per iterable, ~120 cases per program
    progs = []
    batch, bi = [], 0
    for c in live:
        batch.append(c)
        if len(batch) >= 120:
            progs.append(("p%d" % bi, batch))
            batch, bi = [], bi + 1
    if batch:
        progs.append(("p%d" % bi, batch))
    srcs = [(pid, HEADER + "".join(CASE % dict(id=c["id"], expr=c["expr"]) for c in b)) for pid, b in progs]
    res = vlib.run_programs(elk, srcs, os.path.join(ctx.workdir, "ops"), timeout=120)
    got = {}
    for pid, b in progs:
        rc_, out, cls = res[pid]
        for line in out.splitlines():
            m = TAG_RE.match(line)
            if m:
                got[m.group(1)] = m.group(2)
    # cases with no output (program died before reaching them, or compile error): rerun alone
    missing = [c for c in live if c["id"] not in got]
    rerun = missing[:150]
    if rerun:
        srcs = [("s" + c["id"], HEADER + CASE % dict(id=c["id"], expr=c["expr"])) for c in rerun]
        res2 = vlib.run_programs(elk, srcs, os.path.join(ctx.workdir, "ops1"), timeout=60)
        for c in rerun:
            rc_, out, cls = res2["s" + c["id"]]
            for line in out.splitlines():
                m = TAG_RE.match(line)
                if m and m.group(1) == c["id"]:
                    got[c["id"]] = m.group(2)
            if c["id"] not in got:
                first = next((l for l in out.splitlines() if l.strip()), "")
                got[c["id"]] = ("panic " if cls in ("go_panic", "go_fatal") else cls + " ") + first[:160]
    if len(missing) > len(rerun):
        ctx.broke("correspondence %s: %d cases produced no output" % (stream, len(missing) - len(rerun)),
                  "\n".join(c["expr"] for c in missing[150:170]))

    # the implementation's own materialisation per iterable (oracle 2 input)
    own = {}
    for c in live:
        if c["kind"] == "tolist":
            o = canon(got.get(c["id"], ""), c["it"].w)
            if o.startswith("["):
                own[id(c["it"])] = [int(x) for x in o[1:-1].split(",") if x.strip()]
    reqs2 = {}
    for c in live:
        it = c["it"]
        if c["kind"] == "op" and it.finite and id(it) in own:
            reqs2[c["id"]] = "S %s %s" % (csv(own[id(it)]), c["op"])
    rc, exp2, mout = model_answers(model, reqs2)
    if rc != 0:
        ctx.broke("correspondence %s: model driver (list model) exited %d" % (stream, rc), mout[-2000:])

    dist, distinct, mism = {}, set(), 0
    samples = []
    for c in live:
        it, op = c["it"], c["op"]
        obs = canon(got.get(c["id"], "missing"), it.w)
        opname = op.split()[0]
        dist[it.cls + "/" + opname] = dist.get(it.cls + "/" + opname, 0) + 1
        if it.elems or not it.finite:
            distinct.add((it.expr, op))
        e1 = exp.get(c["id"])
        case = "%s.%s" % (it.expr, op)
        if len(samples) < 4 and c["kind"] == "op" and len(distinct) % 97 == 1:
            samples.append({"input": case, "observed": obs})
        if c["kind"] == "tolist":
            if it.ordered:
                want = "[" + ", ".join(map(str, it.elems if it.finite else it.elems[:8])) + "]"
                if it.cls == "failing":
                    want = "E:s:boom"
                if it.w == 0 and obs != want:
                    mism += 1
                    ctx.fail("iter:%s:%s-vs-%s" % (it.cls, oclass(obs), oclass(want)),
                             "%s yields %s, its bounds/contents describe %s" % (it.expr, obs, want), stream=stream,
                             case=case, impl=obs, model=want, oracle="iteration yields exactly the elements in order")
            elif sorted(own.get(id(it), [])) != sorted(it.elems):
                mism += 1
                ctx.fail("iter:set:contents", "%s yields %s" % (it.expr, obs), stream=stream, case=case, impl=obs,
                         model=str(it.elems), oracle="iteration yields exactly the elements (any order)")
            if e1 is not None and e1 != obs:
                mism += 1
                ctx.fail("model:%s:%s:%s-vs-%s" % (opname, it.cls, oclass(obs), oclass(e1)),
                         "%s: implementation %s, model %s" % (case, obs, e1), stream=stream, case=case, impl=obs, model=e1,
                         oracle="implementation differs from the proved model")
            # property, directly: every yielded element is contained in the range (fixed-width ranges)
            if it.cls.startswith("range:") and it.w:
                _, w, kind, a, b = it.req.split()
                bad = [x for x in own.get(id(it), []) if not py_contains(kind, int(a), int(b), x)]
                if bad:
                    ctx.fail("range-iter:int%d:%s:end-at-type-max:wraps" % (it.w, kind),
                             "%s yields %s; %s lie outside the range" % (it.expr, obs, bad), stream=stream, case=case,
                             impl=obs, model="only elements with contains(x)", oracle="x in elements <-> contains(x)")
            continue
        if c["kind"] == "rcontains":
            x = int(op.split()[1])
            if e1 != obs:
                mism += 1
                ctx.fail("contains:%s:%s-vs-%s" % (it.cls, obs, e1), "%s.contains(%d) = %s, bounds say %s" % (it.expr, x, obs, e1),
                         stream=stream, case=case, impl=obs, model=e1, oracle="contains agrees with the bounds")
            if it.finite and id(it) in own and (obs == "true") != (x in own[id(it)]):
                mism += 1
                ctx.fail("contains-vs-iter:%s" % it.cls, "%s.contains(%d) = %s but iteration yields %s" % (it.expr, x, obs, own[id(it)]),
                         stream=stream, case=case, impl=obs, model=str(own[id(it)]), oracle="contains x <-> x in elements")
            continue
        # generic operation
        if e1 is not None and e1 != obs:
            mism += 1
            ctx.fail("model:%s:%s:%s:%s-vs-%s" % (opname, it.cls, argclass(op, it), oclass(obs), oclass(e1)),
                     "%s: implementation %s, model %s" % (case, obs, e1), stream=stream, case=case, impl=obs, model=e1,
                     oracle="implementation differs from the proved model")
        e2 = exp2.get(c["id"])
        if e2 is not None and e2 != obs:
            if opname == "reduce" and not own[id(it)] and obs == "undefined":
                key = "reduce:empty:undefined"
                what = "reduce on an empty iterable returns the undefined value instead of an error"
            else:
                key = "list-model:%s:%s:%s:%s-vs-%s" % (opname, it.cls, argclass(op, it), oclass(obs), oclass(e2))
                what = "%s = %s but the same operation on its own to_list %s gives %s" % (case, obs, own[id(it)], e2)
                mism += 1
            ctx.fail(key, what, stream=stream, case=case, impl=obs, model=e2,
                     oracle="operation result = list model applied to the implementation's own to_list")
    ctx.stream(stream, len(live), len(distinct),
               "every range kind (closed/open/left-open/right-open/endless x2; beginless for contains) with starts -2,0,1 and "
               "lengths -2..5 (some shifted across 2^63/2^64), lists/tuples/sets/Int iterators/generators/a user-defined throwing iterator of 0-6 elements, each x all 24 "
               "operations x arguments (take/drop -2..n+2, contains/index_of around the bounds, 4 map closures, 11 predicates "
               "incl. throwing, 5 reducers incl. throwing, fold inits 0/-7); non-trivial = iterable non-empty; distinct by "
               "(iterable expression, operation+argument)",
               samples, dist, mismatches=mism, corpus_cases=ncorpus, programs=len(progs),
               skipped_nonterminating_on_endless=skipped, iterables=len(its))


def py_contains(kind, a, b, x):
    return {"closed": a <= x <= b, "open": a < x < b, "lopen": a < x <= b, "ropen": a <= x < b,
            "eclosed": a <= x, "eopen": a < x, "bclosed": x <= b, "bopen": x < b}[kind]


def gen_ops_all(it, op):
    """elk call text for a corpus op string"""
    p = op.split()
    o = p[0]
    if o in NULLARY:
        return [(op, o)]
    if o in ("contains", "index_of", "take", "drop"):
        return [(op, "%s(%s)" % (o, p[1]))]
    if o == "map":
        return [(op, "map(%s)" % fn1_elk(p[1]))]
    if o in PRED_OPS:
        return [(op, "%s(%s)" % (o, pred_elk(p[1])))]
    if o == "reduce":
        return [(op, "reduce(%s)" % fn2_elk(p[1]))]
    if o == "fold":
        return [(op, "fold(%s, %s)" % (p[1], fn2_elk(p[2])))]
    raise ValueError(op)


def read_corpus(path):
    if not os.path.exists(path):
        return []
    return [l.strip() for l in open(path) if l.strip() and not l.startswith("#")]


def parse_corpus_case(line):
    try:
        left, op = [x.strip() for x in line.split("|")]
        f = left.split()
        if f[0] == "L":
            l = [int(x) for x in f[1].split(",")] if f[1] != "-" else []
            e = "[%s]" % ", ".join(map(str, l)) if l else "empty_list"
            return Iterable("list", e, "L " + csv(l), l, lo=min(l or [0]), hi=max(l or [0])), op
        w, kind, a, b = int(f[1]), f[2], int(f[3]), int(f[4])
        fin = kind in FINITE
        elems = relems(kind, a, b) if fin else [a + (kind == "eopen") + i for i in range(8)]
        if w:  # fixed-width: do not materialise (may not terminate); only prefix operations
            fin = False
        return Iterable("range:" + kind, range_expr(kind, a, b, w), "R %d %s %d %d" % (w, kind, a, b), elems or [],
                        finite=fin, w=w, lo=a, hi=b), op
    except Exception:
        return None, None


# ------------------------------------------------------------------ c23.direct

def direct_stream(ctx, model, elk):
    """The same operations called the way the headers advertise them: directly on native
    iterators (`x.iter.map(...)`, declared `include Iterator::Base` -> `Iterable::Base`) and on
    collections. One program per case (an invalid-method panic kills the program)."""
    stream = "c23.direct"
    recv = []   # (class, elk expr, elements or None, ordered)
    for kind, a, b in (("closed", 1, 4), ("open", 0, 4), ("lopen", -1, 2), ("ropen", 2, 5), ("eclosed", 1, 0), ("eopen", 1, 0)):
        el = relems(kind, a, b)
        recv.append(("range-iterator", range_expr(kind, a, b) + ".iter", el, True,
                     "R 0 %s %d %d" % (kind, a, b)))
    recv += [("list-iterator", "[3, 1, 2].iter", [3, 1, 2], True, "L 3,1,2"),
             ("tuple-iterator", "%[3, 1, 2].iter", [3, 1, 2], True, "L 3,1,2"),
             ("set-iterator", "^[3, 1, 2].iter", [3, 1, 2], False, None),
             ("int-iterator", "3.iter", [0, 1, 2], True, "L 0,1,2"),
             ("list", "[3, 1, 2]", [3, 1, 2], True, "L 3,1,2"),
             ("tuple", "%[3, 1, 2]", [3, 1, 2], True, "L 3,1,2"),
             ("set", "^[3, 1, 2]", [3, 1, 2], False, None),
             ("map", "{1 => 2}", None, False, None)]
    ops_quick = [("to_list", "to_list"), ("map add:1", "map(|x| -> x + 1)"), ("take 2", "take(2)"),
                 ("reduce sub", "reduce(|a, x| -> a - x)"), ("first", "first"), ("length", "length"),
                 ("filter even", "filter(|x| -> x % 2 == 0)")]
    ops_more = [("contains 2", "contains(2)"), ("is_empty", "is_empty"), ("try_first", "try_first"), ("last", "last"),
                ("try_last", "try_last"), ("reject even", "reject(|x| -> x % 2 == 0)"), ("count even", "count(|x| -> x % 2 == 0)"),
                ("any gt:1", "any(|x| -> x > 1)"), ("every gt:1", "every(|x| -> x > 1)"), ("find gt:1", "find(|x| -> x > 1)"),
                ("try_find gt:9", "try_find(|x| -> x > 9)"), ("index_of 2", "index_of(2)"),
                ("find_index gt:1", "find_index(|x| -> x > 1)"), ("drop 1", "drop(1)"),
                ("drop_while lt:2", "drop_while(|x| -> x < 2)"), ("take_while lt:3", "take_while(|x| -> x < 3)"),
                ("fold 0 muladd:10", "fold(0, |a, x| -> a * 10 + x)"), ("to_tuple", "to_tuple")]
    ops = ops_quick + (ops_more if not ctx.quick() else [])
    map_ops = [("to_list", "to_list"), ("take 1", "take(1)"), ("length", "length"), ("first", "first")]
    cases = []
    for cls, expr, el, ordered, req in recv:
        for op, call in (map_ops if cls == "map" else ops):
            cases.append(dict(id="k%d" % len(cases), cls=cls, expr="%s.%s" % (expr, call), op=op, el=el, ordered=ordered, req=req))
    reqs = {c["id"]: c["req"] + " " + c["op"] for c in cases if c["req"]}
    rc, exp, mout = model_answers(model, reqs, fuel=600)
    live = [c for c in cases if exp.get(c["id"]) != "nofuel"]
    reqs2 = {c["id"]: "S %s %s" % (csv(c["el"]), c["op"]) for c in live if c["el"] is not None and c["ordered"] and c["req"] and
             c["req"].startswith("L")}
    rc, exp2, mout = model_answers(model, reqs2)
    srcs = [(c["id"], HEADER + CASE % dict(id=c["id"], expr=c["expr"])) for c in live]
    res = vlib.run_programs(elk, srcs, os.path.join(ctx.workdir, "direct"), timeout=60)
    dist, distinct, mism, samples = {}, set(), 0, []
    for c in live:
        rc_, out, cls_ = res[c["id"]]
        obs = None
        for line in out.splitlines():
            m = TAG_RE.match(line)
            if m and m.group(1) == c["id"]:
                obs = canon(m.group(2))
        first = next((l for l in out.splitlines() if l.strip()), "")
        opname = c["op"].split()[0]
        if obs is None:
            obs = ("panic " if cls_ in ("go_panic", "go_fatal") else cls_ + " ") + first[:150]
        dist[c["cls"] + "/" + oclass(obs)] = dist.get(c["cls"] + "/" + oclass(obs), 0) + 1
        distinct.add(c["expr"])
        if len(samples) < 4 and len(distinct) % 23 == 1:
            samples.append({"input": c["expr"], "observed": obs[:120]})
        if obs.startswith("panic") and "invalid method" in obs:
            mism += 1
            ctx.fail("direct:%s:invalid-method-panic" % c["cls"],
                     "%s is accepted by the type checker and crashes the VM: %s" % (c["expr"], obs[:140]), stream=stream,
                     case=c["expr"], impl=obs, model=exp.get(c["id"]) or exp2.get(c["id"]) or "a value",
                     oracle="the operation returns what the list model returns (it must at least exist at run time)")
            continue
        if obs.startswith(("panic", "timeout", "elk_error", "signal")):
            mism += 1
            ctx.fail("direct:%s:%s:%s" % (c["cls"], opname, oclass(obs)), "%s: %s" % (c["expr"], obs[:200]), stream=stream,
                     case=c["expr"], impl=obs, model=exp.get(c["id"]), oracle="the operation returns a value")
            continue
        e = exp.get(c["id"])
        if e is None or not c["ordered"]:
            continue
        # collection type of the result (list vs tuple) is not property-level
        o1, e1 = obs.lstrip("%"), e.lstrip("%")
        if o1 != e1 and not (opname == "reduce" and e == "undefined"):
            mism += 1
            ctx.fail("direct:%s:%s:%s-vs-%s" % (c["cls"], opname, oclass(obs), oclass(e)),
                     "%s = %s, list model %s" % (c["expr"], obs, e), stream=stream, case=c["expr"], impl=obs, model=e,
                     oracle="operation result = list model on the elements")
    ctx.stream(stream, len(live), len(distinct),
               "the operations called directly on native iterators (6 range iterator kinds, list/tuple/set/Int iterators) and on "
               "list/tuple/set/map values, one program per case; %d operations per receiver in this tier; non-trivial = all; "
               "distinct by expression" % len(ops), samples, dist, mismatches=mism)


# ------------------------------------------------------------------ c23.api

def api_keyfn(inp, obs, exp):
    f = inp.split()
    kind = f[1] if f[0] == "C" else (f[2] if len(f) > 2 else "-")
    return "api:%s:%s:%s-vs-%s" % (f[0], kind, oclass(obs), oclass(exp))


def api_stream(ctx, model):
    h = vlib.build_harness("c23")
    vlib.value_stream(
        ctx, "c23.api", h, model, ctx.n(4000, 200000), api_keyfn,
        "Go API: vm.<Kind>RangeContains on all 8 kinds (C requests) and <Kind>RangeIteratorNext driven to the end / for a "
        "prefix (E requests) with SmallInt and BigInt bounds around 0, +-2^63, +-2^64 and random 1-100 bit values, lengths "
        "-3..12; non-trivial = non-empty range or contains = true; distinct by full input",
        corpus=os.path.join(vlib.ROOT, "corpus", "C23.api.txt"),
        nontrivial=lambda i, o: o not in ("[]", "false"))
