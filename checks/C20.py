"""C20 - String operations agree with code-point, byte and grapheme models."""
import os
import vlib

RE = 0xFFFD


# ---------------------------------------------------------------- independent reference (oracle 2)
# A second, independent reading of the property, evaluated on the implementation's own outputs:
# Go's UTF-8 decoding rules re-implemented here (not Python's codec, which merges truncated
# sequences differently), and the property clauses checked field against field.

def decode_steps(b):
    """[(rune, size, first_byte)] as repeated utf8.DecodeRune sees the bytes"""
    out = []
    i = 0
    n = len(b)
    while i < n:
        b0 = b[i]
        r, sz = RE, 1
        if b0 < 0x80:
            r, sz = b0, 1
        elif 0xC2 <= b0 <= 0xDF:
            if i + 1 < n and 0x80 <= b[i + 1] <= 0xBF:
                r, sz = ((b0 & 0x1F) << 6) | (b[i + 1] & 0x3F), 2
        elif 0xE0 <= b0 <= 0xEF:
            lo = 0xA0 if b0 == 0xE0 else 0x80
            hi = 0x9F if b0 == 0xED else 0xBF
            if i + 2 < n and lo <= b[i + 1] <= hi and 0x80 <= b[i + 2] <= 0xBF:
                r, sz = ((b0 & 0x0F) << 12) | ((b[i + 1] & 0x3F) << 6) | (b[i + 2] & 0x3F), 3
        elif 0xF0 <= b0 <= 0xF4:
            lo = 0x90 if b0 == 0xF0 else 0x80
            hi = 0x8F if b0 == 0xF4 else 0xBF
            if i + 3 < n and lo <= b[i + 1] <= hi and 0x80 <= b[i + 2] <= 0xBF and 0x80 <= b[i + 3] <= 0xBF:
                r, sz = ((b0 & 0x07) << 18) | ((b[i + 1] & 0x3F) << 12) | ((b[i + 2] & 0x3F) << 6) | (b[i + 3] & 0x3F), 4
        out.append((r, sz, b0))
        i += sz
    return out


def elk_chars(b):
    return [(b0 if (r == RE and sz == 1) else r) for (r, sz, b0) in decode_steps(b)]


def is_valid(b):
    return all(not (r == RE and sz == 1) for (r, sz, _) in decode_steps(b))


def enc(c):
    if c < 0 or c > 0x10FFFF or 0xD800 <= c <= 0xDFFF:
        c = RE
    return chr(c).encode("utf-8")


def parse_input(inp):
    base, _, orc = inp.partition("|")
    kv = dict(f.split("=", 1) for f in base.split() if "=" in f)
    okv = dict(f.split("=", 1) for f in orc.split() if "=" in f)
    return kv, okv


def parse_obs(obs):
    return dict(f.split("=", 1) for f in obs.split(";") if "=" in f)


def ints(s):
    return [int(x) for x in s.split(",") if x != ""]


def at(lst, i):
    """reference for indexed access: element or None (= out of range)"""
    n = len(lst)
    if -n <= i < n:
        return lst[i]
    return None


def sgn(x):
    return (x > 0) - (x < 0)


def property_violations(kv, okv, o):
    """clauses of the property evaluated directly on the implementation's outputs.
    returns list of (field, text)"""
    bad = []
    s = bytes.fromhex(kv["s"])
    t = bytes.fromhex(kv["t"])
    u = bytes.fromhex(kv["u"])
    c = int(kv["c"])
    w = int(kv["w"])
    k = int(kv["k"])
    seg = [bytes.fromhex(x) for x in okv.get("seg", "").split(",") if x]

    def need(field, cond, text):
        if not cond:
            bad.append((field, text))

    # oracle laws the theorems assume about uniseg: clusters are non-empty and concatenate to s
    need("seglaw", b"".join(seg) == s and all(len(x) > 0 for x in seg), "uniseg segmentation does not partition the string")
    # counts = iterator element counts
    citer = ints(o["citer"]) if not o["citer"].startswith(("err", "panic", "non")) else None
    need("citer", citer is not None and citer == elk_chars(s), "char iterator elements differ from the characters of the string")
    need("cseq", o["cseq"] == o["citer"], "String.Iterate differs from the char iterator")
    need("len", citer is not None and int(o["len"]) == len(citer), "length != number of char iterator elements")
    need("len", int(o["len"]) == len(decode_steps(s)), "length != RuneCountInString reference")
    need("blen", int(o["blen"]) == len(s) and ints(o["biter"]) == list(s), "byte_count / byte iterator differ from the bytes")
    giter = [bytes.fromhex(x) for x in o["giter"].split(",") if x]
    need("glen", int(o["glen"]) == len(giter) == len(seg) and giter == seg, "grapheme_count / grapheme iterator differ from uniseg's clusters")

    # indexed access = nth element (negative from the end) or IndexError
    def idx(field, lst, key, show):
        i = int(kv[key])
        want = at(lst, i)
        got = o[field]
        if want is None:
            need(field, got == "err:index", "index %d outside [-%d,%d) must raise IndexError, got %s" % (i, len(lst), len(lst), got))
        else:
            need(field, got == "ok:" + show(want), "index %d: expected element %s, got %s" % (i, show(want), got))
    if citer is not None:
        idx("cat", citer, "ic", str)
    idx("bat", list(s), "ib", str)
    idx("gat", giter, "ig", lambda x: x.hex())
    # the same with the index given as a UInt64 (char_at takes AnyInt): >= 2^63 is out of range
    if "iu" in kv and "catu" in o:
        if citer is not None:
            idx("catu", citer, "iu", str)
        idx("batu", list(s), "iu", str)
        idx("gatu", giter, "iu", lambda x: x.hex())

    # justification in CHARACTERS
    n = len(decode_steps(s))
    pad = enc(c) * max(0, w - n)
    rj = bytes.fromhex(o["rjust"])
    lj = bytes.fromhex(o["ljust"])
    need("rjust", rj == pad + s, "rjust(%d) is not padding^(%d-%d) ++ s" % (w, w, n))
    need("ljust", lj == s + pad, "ljust(%d) is not s ++ padding^(%d-%d)" % (w, w, n))
    need("rjust", len(decode_steps(rj)) == max(w, n), "length(rjust) = %d, expected max(%d,%d)" % (len(decode_steps(rj)), w, n))
    need("ljust", len(decode_steps(lj)) == max(w, n), "length(ljust) = %d, expected max(%d,%d)" % (len(decode_steps(lj)), w, n))

    # + - *
    need("cc", o["cc"] == "ok:" + (s + t).hex(), "s + t is not the concatenation")
    need("ccc", o["ccc"] == "ok:" + (s + enc(c)).hex(), "s + char is not s ++ encoding of the char")
    if k < 0 or not (-2 ** 63 <= k < 2 ** 63):
        need("rep", o["rep"] == "err:range", "negative / huge repeat count must raise OutOfRangeError, got " + o["rep"][:40])
    elif k >= 2 and len(s) * k > 2 ** 63 - 1:
        pass   # result cannot exist; what happens is compared with the model only
    else:
        need("rep", o["rep"] == "ok:" + (s * k).hex(), "s * %d is not s repeated" % k)
    need("rm", o["rm"] == "ok:" + (s[:len(s) - len(t)] if s.endswith(t) else s).hex(), "s - t is not suffix removal")
    e = enc(c)
    need("rmc", o["rmc"] == "ok:" + (s[:len(s) - len(e)] if s.endswith(e) else s).hex(), "s - char is not removal of the char's encoding")

    # comparison: bytewise lexicographic, total order
    def cm(a, b):
        return (a > b) - (a < b)

    def cmp_ok(field, a, b):
        r = cm(a, b)
        need(field, o[field] == "%d:%d%d%d%d" % (r, r < 0, r <= 0, r > 0, r >= 0), "comparison differs from bytewise order")
    cmp_ok("cmp", s, t)
    cmp_ok("cmpr", t, s)
    cmp_ok("cmptu", t, u)
    cmp_ok("cmpsu", s, u)
    cmp_ok("cmpc", s, e)
    try:
        st, ts, tu, su = (int(o[f].split(":")[0]) for f in ("cmp", "cmpr", "cmptu", "cmpsu"))
        need("cmp", st == -ts, "cmp(s,t) != -cmp(t,s)")
        need("cmp", not (st <= 0 and tu <= 0) or su <= 0, "comparison is not transitive")
        need("cmp", (st == 0) == (s == t), "cmp = 0 does not coincide with equality")
    except ValueError:
        need("cmp", False, "comparison raised")

    # case mapping: character count preserved, every character mapped by the unicode tables
    for field, key in (("up", "up"), ("low", "lo")):
        tbl = dict((int(a), int(b)) for a, b in (e2.split(":") for e2 in okv.get(key, "").split(",") if e2))
        res = bytes.fromhex(o[field])
        got = [r for (r, _, _) in decode_steps(res)]
        want = [tbl.get(r, r) for (r, _, _) in decode_steps(s)]
        want = [(x if (0 <= x <= 0x10FFFF and not 0xD800 <= x <= 0xDFFF) else RE) for x in want]
        need(field, got == want, "case mapping is not the per-character unicode mapping")
    return bad


# ---------------------------------------------------------------- classification / keys

def str_class(b):
    if all(x < 0x80 for x in b):
        return "ascii"
    return "valid-multibyte" if is_valid(b) else "invalid-utf8"


def char_class(c):
    if c < 0 or c > 0x10FFFF or 0xD800 <= c <= 0xDFFF:
        return "nonscalar"
    if c == RE:
        return "fffd"
    return "ascii" if c < 0x80 else "multibyte"


def key_for(field, kv):
    s = bytes.fromhex(kv["s"])
    if field in ("catu", "batu", "gatu") and int(kv.get("iu", "0")) >= 2 ** 63:
        return field + ":uint64-ge-2^63"
    k = field + ":" + str_class(s)
    if field in ("ccc", "rmc", "cmpc"):
        k += ":pad-" + char_class(int(kv["c"]))
    if field == "rep":
        kk = int(kv["k"])
        k += ":neg" if kk < 0 else (":huge" if kk >= 2 ** 31 else ":small")
    return k


def size_of(kv):
    return len(kv["s"]) + len(kv["t"]) + len(kv["u"])


# ---------------------------------------------------------------- c20.elk: the method-level path
# Real Elk programs call the String methods through the VM (vm/string.go glue, compiler, iterator
# protocol of `for`); results are printed byte-exactly and compared with the extracted model.

ELK_PRELUDE = """def show(name: String, r: String)
  print(name)
  print("=")
  for b in r.byte_iter
    print(b.inspect)
    print(",")
  end
  println("")
end
"""


def elk_str(b):
    return '"' + "".join("\\x%02x" % x for x in b) + '"'


def elk_program(kv):
    s = bytes.fromhex(kv["s"])
    t = bytes.fromhex(kv["t"])
    c = int(kv["c"])
    L = [ELK_PRELUDE, "var s = %s" % elk_str(s), "var t = %s" % elk_str(t), "var c = `\\U%08X`" % c,
         "var w = %d" % int(kv["w"]), "var k = %d" % int(kv["k"]),
         "var ic = %d" % int(kv["ic"]), "var ib = %d" % int(kv["ib"]), "var ig = %d" % int(kv["ig"]),
         'println("len=" + s.length.inspect)', 'println("blen=" + s.byte_count.inspect)',
         'println("glen=" + s.grapheme_count.inspect)',
         'print("citer=")', "for ch in s", '  show("", ch.to_string)', "end", 'println("")',
         'print("giter=")', "for g in s.grapheme_iter", '  show("", g)', "end", 'println("")',
         'show("biter", s)']

    def guarded(lines, err="Std::IndexError", tag="err:index", name=""):
        return ["do"] + ["  " + x for x in lines] + ["catch %s() as e" % err, '  println("%s=%s")' % (name, tag), "end"]
    L += guarded(['show("cat", s.char_at(ic).to_string)'], name="cat")
    L += guarded(['println("bat=" + s.byte_at(ib).inspect)'], name="bat")
    L += guarded(['show("gat", s.grapheme_at(ig))'], name="gat")
    L += ['show("rjust", s.rjust(w, c))', 'show("ljust", s.ljust(w, c))', 'show("cc", s + t)', 'show("ccc", s + c)']
    L += guarded(['show("rep", s * k)'], err="Std::OutOfRangeError", tag="err:range", name="rep")
    L += ['show("rm", s - t)', 'show("rmc", s - c)',
          'println("cmp=" + (s <=> t).inspect + ":" + (s < t).inspect + (s <= t).inspect + (s > t).inspect + (s >= t).inspect)',
          'show("up", s.uppercase)', 'show("low", s.lowercase)']
    return "\n".join(L) + "\n"


def elk_expected(kv, em):
    """translate the model's fields (harness vocabulary) into what the Elk program prints"""
    def bl(b):
        return "".join("%du8," % x for x in b)

    def okhex(v, f=bl):
        return f(bytes.fromhex(v[3:])) if v.startswith("ok:") else v
    s = bytes.fromhex(kv["s"])
    exp = {"len": em["len"], "blen": em["blen"], "glen": em["glen"], "biter": bl(s)}
    exp["citer"] = "".join("=" + bl(enc(int(x))) for x in em["citer"].split(",") if x)
    exp["giter"] = "".join("=" + bl(bytes.fromhex(x)) for x in em["giter"].split(",") if x)
    exp["cat"] = bl(enc(int(em["cat"][3:]))) if em["cat"].startswith("ok:") else em["cat"]
    exp["bat"] = em["bat"][3:] + "u8" if em["bat"].startswith("ok:") else em["bat"]
    exp["gat"] = okhex(em["gat"])
    for f in ("rjust", "ljust", "up", "low"):
        exp[f] = bl(bytes.fromhex(em[f]))
    for f in ("cc", "ccc", "rep", "rm", "rmc"):
        exp[f] = okhex(em[f])
    r, flags = em["cmp"].split(":")
    exp["cmp"] = r + ":" + "".join("true" if x == "1" else "false" for x in flags)
    return exp


def elk_parse(out):
    """program output -> fields; citer/giter lines are 'citer==1u8,=2u8,' (one '=..' per element)"""
    got = {}
    last = None
    for line in out.splitlines():
        if line.startswith("=") and last is not None:
            got[last] += line          # next element of the running citer/giter list
        elif "=" in line:
            last, v = line.split("=", 1)
            got[last] = v
    return got


def valid_for_elk(kv):
    c = int(kv["c"])
    i64 = lambda x: -2 ** 63 <= int(x) < 2 ** 63
    return (0 <= c <= 0x10FFFF and not 0xD800 <= c <= 0xDFFF and -3 <= int(kv["k"]) <= 4
            and i64(kv["ic"]) and i64(kv["ib"]) and i64(kv["ig"]))


def elk_stream(ctx, m, cases):
    """cases: list of (input, model_fields). Runs one Elk program per case."""
    stream = "c20.elk"
    elk = vlib.build_elk()
    progs, meta = [], {}
    for n, (inp, em) in enumerate(cases):
        kv, _ = parse_input(inp)
        pid = "c20_%d" % n
        progs.append((pid, elk_program(kv)))
        meta[pid] = (kv, em, inp.split("|")[0].strip())
    res = vlib.run_programs(elk, progs, os.path.join(ctx.workdir, "elk"), timeout=60)
    mism = 0
    dist = {}
    distinct = set()
    fails = []
    for pid, (rc, out, cls) in res.items():
        kv, em, base = meta[pid]
        sc = str_class(bytes.fromhex(kv["s"]))
        dist[cls] = dist.get(cls, 0) + 1
        if sc != "ascii":
            distinct.add(base)
        if cls != "ok":
            mism += 1
            fails.append((size_of(kv), "elk:%s:%s" % (cls, sc), "program for %s ended with %s: %s" % (base, cls, out[-300:].replace("\n", " | ")),
                          base, out[-600:], None, "the Elk program must run to completion"))
            continue
        got = elk_parse(out)
        for f, v in elk_expected(kv, em).items():
            if got.get(f) != v:
                mism += 1
                fails.append((size_of(kv), "elk:" + key_for(f, kv), "%s on %s via Elk: printed %s, model %s" % (f, base, str(got.get(f))[:120], v[:120]),
                              base, f + "=" + str(got.get(f))[:300], f + "=" + v[:300], "Elk program output differs from the proved model"))
    fails.sort(key=lambda x: (x[0], x[1]))
    seen = {}
    for sz, key, what, case, impl, model, oracle in fails:
        seen[key] = seen.get(key, 0) + 1
        if seen[key] <= 2:
            ctx.fail(key, what, stream=stream, case=case, impl=impl, model=model, oracle=oracle)
    ctx.stream(stream, len(res), len(distinct),
               "bundles of c20.ops (corpus first) with scalar pad char, small repeat count and int64 indices, each turned into an Elk "
               "program calling the String methods and `for` loops through the VM; 19 printed fields compared byte-exactly with the model; "
               "non-trivial = s not ASCII",
               [{"input": meta[p][2], "observed": res[p][1][:300]} for p in sorted(res)[:2]], dist,
               mismatches=mism, failing_keys=sorted(seen))


# ---------------------------------------------------------------- c20.iter / c20.iterelk: iterator PROTOCOL histories
# A case is a string and a history of operations on a pool of iterator objects over it (create
# char/byte/grapheme iterator, next, reset, copy, `for`). Model: Model/C20_Iter.v (C20_iter_history).

KIND = {"c": "char", "b": "byte", "g": "grapheme"}


def parse_iter_input(inp):
    base = inp.split("|")[0]
    kv = dict(f.split("=", 1) for f in base.split() if "=" in f)
    return bytes.fromhex(kv.get("s", "")), [x for x in kv.get("h", "").split(",") if x]


def parse_iter_obs(obs):
    return dict(f.split("=", 1) for f in obs.split("|") if "=" in f)


def iter_lineage(h):
    """per op: (target index or None, kind, flags of the target BEFORE the op) where flags =
    (was reset, is/descends from a copy); ill-formed indices give kind None"""
    pool = []      # [kind, reset?, copy?]
    out = []
    for op in h:
        if op in KIND:
            out.append((len(pool), KIND[op], (False, False)))
            pool.append([KIND[op], False, False])
            continue
        i = int(op[1:])
        if i >= len(pool):
            out.append((None, None, (False, False)))
            continue
        k, rs, cp = pool[i]
        out.append((i, k, (rs, cp)))
        if op[0] == "r":
            pool[i][1] = True
        elif op[0] == "y":
            pool.append([k, rs, True])
    return out


def iter_key(h, j):
    """canonical class of a failing operation j of history h"""
    i, k, (rs, cp) = iter_lineage(h)[j]
    if k is None:
        return "iter:no-such-iterator"
    opn = {"n": "next", "d": "for", "r": "reset", "y": "copy"}.get(h[j][0], "new")
    return "iter:%s:%s%s:%s" % (k, "after-reset" if rs else "fresh", ":copy" if cp else "", opn)


def iter_reference(h, lists):
    """the property evaluated on the implementation's OWN *_at lists and counts: an iterator is a
    position in the list of its kind; returns the expected per-op outputs"""
    pool = []      # [kind, pos]
    out = []
    for op in h:
        if op in KIND:
            pool.append([KIND[op], 0])
            out.append("-")
            continue
        i = int(op[1:])
        if i >= len(pool):
            out.append("bad")
            continue
        k, p = pool[i]
        L = lists[k]
        if op[0] == "n":
            if p < len(L):
                out.append(L[p])
                pool[i][1] = p + 1
            else:
                out.append("stop")
        elif op[0] == "r":
            pool[i][1] = 0
            out.append("-")
        elif op[0] == "y":
            pool.append([k, p])
            out.append("-")
        elif op[0] == "d":
            out.append(",".join(L[p:] + ["stop"]))
            pool[i][1] = len(L)
    return out


def first_diff(a, b):
    for j in range(max(len(a), len(b))):
        if j >= len(a) or j >= len(b) or a[j] != b[j]:
            return j
    return None


ITER_RULE = ("(s, history): s STARTS (7/8) with a cluster whose end depends on the class of its first code point - CR LF, 1-4 regional "
             "indicators, emoji ZWJ / modifier / tag sequences, decomposed Hangul jamo L+V(+T), Prepend, leading Extend/ZWJ/VS, keycap, "
             "SpacingMark, invalid bytes before such a rule - followed by 0-3 pieces of the c20.ops grammar; history over a pool of "
             "iterator objects (value.NewString{Char,Byte,Grapheme}Iterator, half of them grapheme): create, NextValue, Reset, Copy, "
             "for (NextValue until :stop_iteration) - templates (partially consumed then reset; exhausted then reset, by for and by next "
             "past the end; reset of a fresh iterator, twice; two iterators interleaved with resets; copy mid-way then original/copy "
             "reset) and random walks incl. indices of iterators that do not exist; every op's output compared with the extracted "
             "pool machine (C20_iter_history) and with positions in the implementation's own char_at/byte_at/grapheme_at lists and "
             "counts; non-trivial = history contains a reset or copy and s is not ASCII; distinct by (s, history)")


def iter_stream(ctx, h, m):
    stream = "c20.iter"
    corpus = os.path.join(vlib.ROOT, "corpus", "C20.iter.txt")
    cmd = [h, "-extra", "iter", "-seed", str(ctx.sseed(stream)), "-n", str(ctx.n(6000, 400000)), "-tier", ctx.tier]
    if os.path.exists(corpus):
        cmd += ["-input", corpus]
    rc, out = vlib.sh(cmd, timeout=3000, env=vlib.elk_env())
    ids, inputs, obs = vlib.parse_case_lines(out)
    if rc != 0 or not ids:
        ctx.broke("correspondence %s: harness exited %d" % (stream, rc), out[-3000:])
        if not ids:
            return []
    rc2, exp, mout = vlib.run_model(m, ids, inputs, timeout=3000)
    if rc2 != 0:
        ctx.broke("correspondence %s: model driver exited %d" % (stream, rc2), mout[-3000:])
    fails, distinct, dist, mism, nops = [], set(), {}, 0, 0
    cases = []
    for i in ids:
        inp = inputs[i]
        base = inp.split("|")[0].strip()
        s, hist = parse_iter_input(inp)
        o = parse_iter_obs(obs[i])
        e = exp.get(i)
        size = len(s) + len(hist)
        nops += len(hist)
        lin = iter_lineage(hist)
        for (_, k, _), op in zip(lin, hist):
            if k is not None and op[0] in "nd":
                dist[k] = dist.get(k, 0) + 1
        if any(op[0] in "ry" for op in hist) and str_class(s) != "ascii":
            distinct.add(hash(base))
        if e is None or e.startswith("driver-error"):
            ctx.broke("correspondence %s: model gave no answer for %s (%s)" % (stream, base[:200], e))
            continue
        em = parse_iter_obs(e)
        cases.append((inp, em))
        io, mo = o.get("out", "").split(";"), em.get("out", "").split(";")
        j = first_diff(io, mo)
        if j is not None and hist:
            j = min(j, len(hist) - 1)
            mism += 1
            fails.append((size, iter_key(hist, j), "op %d (%s) of %s: implementation yields %s, model %s" % (j, hist[j], base, ";".join(io[j:j + 1])[:120], ";".join(mo[j:j + 1])[:120]),
                          base, "out=" + o.get("out", "")[:400], "out=" + em.get("out", "")[:400], "implementation differs from the proved model"))
        for f in ("len", "blen", "glen", "cats", "bats", "gats"):
            if o.get(f) != em.get(f):
                mism += 1
                fails.append((size, "iter:" + f + ":" + str_class(s), "%s of %s: implementation %s, model %s" % (f, base, str(o.get(f))[:120], str(em.get(f))[:120]),
                              base, f + "=" + str(o.get(f))[:300], f + "=" + str(em.get(f))[:300], "implementation differs from the proved model"))
        # oracle 2: positions in the implementation's own *_at lists / counts
        try:
            lists = {"char": [x for x in o["cats"].split(",") if x], "byte": [x for x in o["bats"].split(",") if x],
                     "grapheme": [x for x in o["gats"].split(",") if x]}
            cnt_ok = (len(lists["char"]) == int(o["len"]) and len(lists["byte"]) == int(o["blen"]) and len(lists["grapheme"]) == int(o["glen"]))
            ref = iter_reference(hist, lists)
        except (KeyError, ValueError) as ex:
            mism += 1
            fails.append((size, "iter:malformed", "cannot evaluate the property on %s: %r" % (obs[i][:200], ex), base, obs[i][:300], None, "malformed observable"))
            continue
        if not cnt_ok:
            mism += 1
            fails.append((size, "iter:counts:" + str_class(s), "*_at lists of %s do not have *_count elements" % base, base, obs[i][:300], None,
                          "length/byte_count/grapheme_count equal the number of elements"))
        j = first_diff(io, ref)
        if j is not None and hist:
            j = min(j, len(hist) - 1)
            mism += 1
            fails.append((size, iter_key(hist, j), "op %d (%s) of %s yields %s but the elements from the iterator's position per char_at/byte_at/grapheme_at are %s"
                          % (j, hist[j], base, ";".join(io[j:j + 1])[:120], ";".join(ref[j:j + 1])[:120]),
                          base, "out=" + o.get("out", "")[:400], None,
                          "after any history of next/reset/copy an iterator yields the elements *_at gives from its position on, *_count in total after a reset"))
    fails.sort(key=lambda x: (x[0], x[1]))
    seen = {}
    for sz, key, what, case, impl, model, oracle in fails:
        seen[key] = seen.get(key, 0) + 1
        if seen[key] <= 2:
            ctx.fail(key, what, stream=stream, case=case, impl=impl, model=model, oracle=oracle)
    ctx.stream(stream, len(ids), len(distinct), ITER_RULE,
               [{"input": inputs[i][:400], "observed": obs[i][:400]} for i in ids[:2] + ids[-2:]], dist,
               mismatches=mism, operations=nops, failing_keys=sorted(seen))
    return cases


ITER_PRELUDE = """def showb(r: String)
  for b in r.byte_iter
    print(b.inspect)
    print(",")
  end
end
"""


def iter_elk_case(tag, s, hist):
    """Elk statements performing the history; every next/for prints one line '@tag:j=...'"""
    L = ["var %s_s = %s" % (tag, elk_str(s))]
    pool = []
    for j, op in enumerate(hist):
        if op in KIND:
            v = "%s_%d" % (tag, len(pool))
            meth = {"c": "iter", "b": "byte_iter", "g": "grapheme_iter"}[op]
            if op == "c" and j % 2:
                meth = "char_iter"
            L.append("var %s = %s_s.%s" % (v, tag, meth))
            pool.append(KIND[op])
            continue
        i = int(op[1:])
        v, k = "%s_%d" % (tag, i), pool[i]
        one = {"char": "showb(%s.to_string)", "byte": "print(%s.inspect)", "grapheme": "showb(%s)"}[k]
        if op[0] == "r":
            L.append("%s.reset" % v)
        elif op[0] == "n":
            L += ['print("@%s:%d=")' % (tag, j), "do", "  " + one % (v + ".next"), '  println("/")', "catch :stop_iteration", '  println("stop")', "end"]
        elif op[0] == "d":
            L += ['print("@%s:%d=")' % (tag, j), "for x in %s" % v, "  " + one % "x", '  print("/")', "end", 'println("stop")']
    return L


def iter_elk_expected(tag, hist, out):
    def bl(b):
        return "".join("%du8," % x for x in b)
    lin = iter_lineage(hist)
    exp = {}
    for j, (op, o) in enumerate(zip(hist, out)):
        if op[0] not in "nd":
            continue
        k = lin[j][1]
        parts = []
        for el in o.split(","):
            if el == "stop":
                parts.append("stop")
            elif k == "char":
                parts.append(bl(enc(int(el))) + "/")
            elif k == "byte":
                parts.append(el + "u8/")
            else:
                parts.append(bl(bytes.fromhex(el)) + "/")
        exp["@%s:%d" % (tag, j)] = "".join(parts)
    return exp


def iter_elk_stream(ctx, cases):
    """the same histories (without Copy, which Elk does not expose, and without ill-formed indices)
    as Elk programs: s.iter/char_iter/byte_iter/grapheme_iter, it.next in do/catch :stop_iteration,
    it.reset, `for x in it`; four histories per program"""
    stream = "c20.iterelk"
    want = ctx.n(64, 1200)
    per = 4
    sel = []
    for inp, em in cases:
        s, hist = parse_iter_input(inp)
        if not hist or any(op[0] == "y" for op in hist) or any(k is None for (_, k, _) in iter_lineage(hist)):
            continue
        if not any(op[0] == "r" for op in hist):
            continue
        sel.append((inp.split("|")[0].strip(), s, hist, em.get("out", "").split(";")))
        if len(sel) >= want:
            break
    elk = vlib.build_elk()
    progs, meta = [], {}
    for g in range(0, len(sel), per):
        pid = "c20it_%d" % (g // per)
        L = [ITER_PRELUDE]
        exp = {}
        for n, (base, s, hist, out) in enumerate(sel[g:g + per]):
            tag = "k%d" % n
            L += iter_elk_case(tag, s, hist)
            for k, v in iter_elk_expected(tag, hist, out).items():
                exp[k] = (v, base, hist)
        progs.append((pid, "\n".join(L) + "\n"))
        meta[pid] = exp
    res = vlib.run_programs(elk, progs, os.path.join(ctx.workdir, "elkiter"), timeout=60)
    rerun = [p for p in progs if res[p[0]][2] != "ok"]
    if rerun:   # crashes/timeouts under machine load: once more, alone
        res.update(vlib.run_programs(elk, rerun, os.path.join(ctx.workdir, "elkiter"), workers=2, timeout=120))
    fails, dist, mism, evals, distinct = [], {}, 0, 0, set()
    for pid, (rc, out, cls) in res.items():
        exp = meta[pid]
        dist[cls] = dist.get(cls, 0) + 1
        if cls != "ok":
            mism += 1
            fails.append((0, "iterelk:%s" % cls, "iterator program %s ended with %s: %s" % (pid, cls, out[-300:].replace("\n", " | ")),
                          "; ".join(sorted(set(b for (_, b, _) in exp.values())))[:600], out[-600:], None, "the Elk program must run to completion"))
            continue
        got = {}
        for line in out.splitlines():
            if line.startswith("@") and "=" in line:
                k, v = line.split("=", 1)
                got[k] = v
        for k, (v, base, hist) in sorted(exp.items()):
            evals += 1
            distinct.add(base)
            if got.get(k) != v:
                j = int(k.split(":")[1])
                mism += 1
                fails.append((len(base), "elk:" + iter_key(hist, j), "op %d (%s) of %s via Elk: printed %s, model %s" % (j, hist[j], base, str(got.get(k))[:120], v[:120]),
                              base, k + "=" + str(got.get(k))[:300], k + "=" + v[:300], "Elk program output differs from the proved model"))
    fails.sort(key=lambda x: (x[0], x[1]))
    seen = {}
    for sz, key, what, case, impl, model, oracle in fails:
        seen[key] = seen.get(key, 0) + 1
        if seen[key] <= 2:
            ctx.fail(key, what, stream=stream, case=case, impl=impl, model=model, oracle=oracle)
    ctx.stream(stream, evals, len(distinct),
               "histories of c20.iter (corpus first) that contain a reset and no Copy / ill-formed index, four per Elk program: "
               "s.iter / char_iter / byte_iter / grapheme_iter, it.next inside do/catch :stop_iteration, it.reset, `for x in it`; every "
               "next / for output printed byte-exactly and compared with the model's; evaluations = printed outputs; distinct by (s, history)",
               [{"input": meta_k, "observed": res[p][1][:300]} for p in sorted(res)[:2] for meta_k in [";".join(sorted(set(b for (_, b, _) in meta[p].values())))[:300]]],
               dist, mismatches=mism, programs=len(progs), failing_keys=sorted(seen))


RULE = ("bundles (s,t,u,indices,width,char,count): s from a grammar of ASCII, 2-4 byte runes, combining marks, ZWJ "
        "sequences, regional indicators, Hangul jamo, overlong/surrogate/out-of-range/truncated/stray bytes, random bytes; "
        "t,u related to s (byte/char suffix, prefix, one byte flipped, equal) or fresh; indices in [-n-2,n+2] per unit "
        "(chars, bytes, graphemes) plus 2^31..2^70 outliers, and a UInt64 index (1/6 of them >= 2^63); width in [-2,bytes+3]; 27 operations per bundle; "
        "non-trivial = s has a multi-byte or invalid sequence; distinct by (s,t,args)")


def run(ctx):
    ctx.explanation = (
        "Proved in Coq (for all byte strings, all indices/widths/chars, every grapheme oracle satisfying the stated laws): "
        "counts equal iterator element counts, indexed access = nth element or IndexError, rjust/ljust pad to max(n,length) "
        "in characters, + - * laws, bytewise comparison is a total order, case mapping is per-character - all on a Gallina model "
        "of value/string.go over a model of Go's unicode/utf8. Differentially tested only (not proved about the Go code): that "
        "value.String behaves like the model (stream c20.ops, every field of every bundle compared; stream c20.elk, the same methods "
        "called from real Elk programs through the VM), and that uniseg / "
        "unicode.ToUpper/ToLower - which enter the model as oracles instantiated per case from the live packages - satisfy the "
        "assumed laws (checked per case: clusters non-empty and concatenating to s). "
        "Iterator PROTOCOL (Model/C20_Iter.v): the three iterator objects are modelled as the Go structs' state machines (ByteOffset; "
        "(Rest, State) with uniseg.FirstGraphemeClusterInString as a step oracle gstep and the initial sentinel State = -1), the clusters "
        "are DEFINED as the steps from (s, -1) (as GraphemeClusterCount / GraphemeAtInt compute them), and C20_iter_history proves, for "
        "every step oracle with the progress law and EVERY history of create/next/reset/copy/for operations on a pool of iterators in "
        "any interleaving, that each operation yields what a position in the char/byte/cluster list yields (reset = position 0; "
        "C20_iter_reiterate: reset + for yields the whole list, *_count elements). Tied to the code by stream c20.iter (histories on the "
        "Go API incl. Copy, strings that START with state-dependent clusters; model comparison plus positions in the implementation's own "
        "*_at lists) and c20.iterelk (the same histories as Elk programs: iter/char_iter/byte_iter/grapheme_iter, next, reset, for). "
        "Elk exposes no copy of an iterator, so Copy is exercised through the Go API only.")
    ctx.trusted_base += [
        "Go unicode/utf8 (DecodeRuneInString, RuneCountInString, EncodeRune/WriteRune) modelled by Base/Utf8.v - validated by the stream, not proved",
        "uniseg grapheme segmentation: section oracle gseg with laws concat(gseg s)=s and clusters non-empty; GraphemeClusterCount, "
        "FirstGraphemeClusterInString and the iterator are assumed to enumerate the same clusters (compared per case)",
        "unicode.ToUpper/ToLower: section oracles (per-case tables dumped from the live package); strings.Map/ToUpper/ToLower, "
        "strings.Compare/CutSuffix/Repeat modelled from their documentation and source",
        "second oracle: Python re-implementation of Go's UTF-8 decoding in checks/C20.py",
        "uniseg.FirstGraphemeClusterInString as step oracle gstep of Model/C20_Iter.v (law: a non-empty prefix is split off); the driver "
        "instantiates it per case with the table of steps the harness records on the fresh run from (s, -1); that "
        "GraphemeClusterCount/GraphemeAtInt iterate exactly these steps is read off the source and compared per case (glen, gats)",
    ]
    ctx.run_proof_gate()
    h = vlib.build_harness("c20")
    m = vlib.build_model("C20")
    stream = "c20.ops"
    corpus = os.path.join(vlib.ROOT, "corpus", "C20.ops.txt")
    # quick: one batch; thorough: 20 batches (bounded memory), each with its own derived seed
    batches = [(ctx.sseed(stream), ctx.n(4000, 20000), True)]
    if not ctx.quick():
        batches += [(ctx.sseed("%s:%d" % (stream, b)), 20000, False) for b in range(1, 20)]

    fails = []       # (size, key, what, case, impl, model, oracle)
    distinct = set()
    dist = {}
    ops = 0
    mism = 0
    total = 0
    samples = []
    elk_cases = []
    elk_n = ctx.n(80, 1500)
    for bi, (seed, n, with_corpus) in enumerate(batches):
        cmd = [h, "-seed", str(seed), "-n", str(n), "-tier", ctx.tier]
        if with_corpus and os.path.exists(corpus):
            cmd += ["-input", corpus]
        rc, out = vlib.sh(cmd, timeout=3000, env=vlib.elk_env())
        ids, inputs, obs = vlib.parse_case_lines(out)
        if rc != 0 or not ids:
            ctx.broke("correspondence %s: harness exited %d" % (stream, rc), out[-3000:])
            if not ids:
                break
        rc2, exp, mout = vlib.run_model(m, ids, inputs, timeout=3000)
        if rc2 != 0:
            ctx.broke("correspondence %s: model driver exited %d" % (stream, rc2), mout[-3000:])
        total += len(ids)
        if bi == 0:
            samples = [{"input": inputs[i][:400], "observed": obs[i][:400]} for i in ids[:2] + ids[-2:]]
        for i in ids:
            inp = inputs[i]
            kv, okv = parse_input(inp)
            o = parse_obs(obs[i])
            s = bytes.fromhex(kv["s"])
            cls = str_class(s)
            dist[cls] = dist.get(cls, 0) + 1
            base = inp.split("|")[0].strip()
            if cls != "ascii":
                distinct.add(hash(base))
            ops += len(o)
            e = exp.get(i)
            if e is None or e.startswith("driver-error"):
                ctx.broke("correspondence %s: model gave no answer for %s (%s)" % (stream, inp[:200], e))
                continue
            em = parse_obs(e)
            if bi == 0 and len(elk_cases) < elk_n and valid_for_elk(kv):
                elk_cases.append((inp, em))
            for f, v in o.items():
                if em.get(f) != v:
                    mism += 1
                    fails.append((size_of(kv), key_for(f, kv), "%s on %s: implementation %s, model %s" % (f, base, v[:120], str(em.get(f))[:120]),
                                  base, f + "=" + v[:300], f + "=" + str(em.get(f))[:300], "implementation differs from the proved model"))
            try:
                pv = property_violations(kv, okv, o)
            except Exception as ex:  # malformed observable (panic text etc.)
                pv = [("malformed", "cannot evaluate the property on the output: %r" % (ex,))]
            for f, text in pv:
                mism += 1
                fails.append((size_of(kv), key_for(f, kv), "%s on %s: %s" % (f, base, text), base, f + "=" + o.get(f, "")[:200], None,
                              "property clause evaluated on the implementation's outputs: " + text))
        if len(fails) > 20000:
            fails.sort(key=lambda x: (x[0], x[1]))
            keep, cnt = [], {}
            for x in fails:
                cnt[x[1]] = cnt.get(x[1], 0) + 1
                if cnt[x[1]] <= 3:
                    keep.append(x)
            fails = keep
    fails.sort(key=lambda x: (x[0], x[1]))
    seen = {}
    for sz, key, what, case, impl, model, oracle in fails:
        seen[key] = seen.get(key, 0) + 1
        if seen[key] <= 3:
            ctx.fail(key, what, stream=stream, case=case, impl=impl, model=model, oracle=oracle)
    ctx.stream(stream, total, len(distinct), RULE, samples, dist,
               mismatches=mism, operations=ops, failing_keys=sorted(seen), batches=len(batches))
    elk_stream(ctx, m, elk_cases)
    iter_cases = iter_stream(ctx, h, m)
    iter_elk_stream(ctx, iter_cases)
