"""C21 - Regex translation preserves Elk regex semantics."""
import os
import re
import vlib

GOFLAGS = "imsU"

# ---------------------------------------------------------------- parsing of case lines


def parse_input(inp):
    return dict(f.split("=", 1) for f in inp.split(" ") if "=" in f)


def parse_obs(obs):
    return dict(f.split("=", 1) for f in obs.split(";") if "=" in f)


def unhex(h):
    try:
        return bytes.fromhex(h).decode("utf-8", "replace")
    except ValueError:
        return "<" + h + ">"


def show(h):
    """readable form of a hex field (ERR / - stay as they are)"""
    if h in ("ERR", "-", None):
        return str(h)
    return repr(unhex(h))


# ---------------------------------------------------------------- feature tags (failure keys)

ATOM_ESC = re.compile(r"^(m\d+|s[aftnr]|x[\d.\-]+|o[\d.\-]+|k\d+)$")
ATOM_PRE = re.compile(r"^p[01][wdshv]$")
WS = {9, 10, 11, 12, 13, 32, 133, 160, 5760, 8232, 8233, 8239, 8287, 12288} | set(range(8192, 8203))


def feature_tags(kv):
    ast = kv.get("ast", "")
    tags = set()
    if "C(0;" in ast:
        tags.add("class")
    if "C(1;" in ast:
        tags.add("negclass")
    if "r(" in ast:
        tags.add("range")
    if "G(cap" in ast or "G(non" in ast or "G(nam" in ast:
        tags.add("group")
    if "G(fl:" in ast:
        tags.add("flaggroup")
    if "q(" in ast:
        tags.add("quant")
    if "alt(" in ast:
        tags.add("alt")
    if "Q(" in ast:
        tags.add("quoted")
    for tok in re.split(r"[(),;]", ast):
        if tok in ("bol", "eol", "absbeg", "absend", "wordb", "nwordb"):
            tags.add("anchor")
        elif ATOM_PRE.match(tok):
            tags.add("predef")
        elif tok[:3] in ("u0:", "u1:"):
            tags.add("uni")
        elif tok[:3] in ("n0:", "n1:"):
            tags.add("posix")
        elif ATOM_ESC.match(tok):
            tags.add("escape")
    if uses_x(kv):
        tags.add("x")
    if "a" in kv.get("f", "") or re.search(r"fl:[a-zA-Z]*a", ast):
        tags.add("a")
    return ",".join(sorted(tags)) or "literal"


def uses_x(kv):
    """extended mode can be active somewhere in the pattern (globally or set by a flag group)"""
    return "x" in kv.get("f", "").replace("-", "") or re.search(r"fl:[a-zA-Z]*x", kv.get("ast", "")) is not None


def class_items(ast):
    """[(negated, [item, ...])] for every class node of the compact tree"""
    out = []
    for m in re.finditer(r"C\(([01]);", ast):
        i = m.end()
        depth, cur, items = 0, "", []
        while i < len(ast):
            ch = ast[i]
            if ch == "(":
                depth += 1
            elif ch == ")":
                if depth == 0:
                    break
                depth -= 1
            if ch == "," and depth == 0:
                items.append(cur)
                cur = ""
            else:
                cur += ch
            i += 1
        if cur:
            items.append(cur)
        out.append((m.group(1) == "1", items))
    return out


def reparse_key(kv):
    """emitted text that Go's parser reads as a different tree than the one the transpiler walked
    (implementation defects with their own keys; the model is the tree, Go sees the text)"""
    ast = kv.get("ast", "")
    ascii_ = "a" in kv.get("f", "") or re.search(r"fl:[a-zA-Z]*a", ast) is not None
    if "C(0;)" in ast or "C(1;)" in ast:
        return "match:reparse:empty-class"
    if re.search(r"r\([^,()]*,c93\)", ast):
        return "match:reparse:bracket-range-end"
    if re.search(r"r\(p0[hv],|r\([^,()]*,p0[hv]\)", ast):
        return "match:reparse:range-to-class"
    if re.search(r"q\(n:48\.\d|q\(nm:48\.\d|q\(nm:[^:;]*:48\.\d", ast):
        return "match:reparse:repeat-leading-zero"
    if re.search(r"q\([^;]*;[01];Q\(", ast):
        return "match:reparse:quantified-quoted-text"
    if re.search(r"q\([^;]*;[01];G\(fl:[^;]*;\)\)", ast):
        return "match:reparse:quantified-flag-group"
    for neg, items in class_items(ast):
        if neg:
            continue
        split = [it for it in items if it in ("a(p1h)", "a(p1v)") or (it in ("a(p1w)", "a(p1s)") and not ascii_) or
                 (it in ("a(p1w)", "a(p1s)") and "fl:" in ast)]
        inside = [it for it in items if it not in split]
        if split and inside and inside[0] == "a(c94)":
            return "match:reparse:caret-first-after-split"
    return None


def x_quantified_whitespace(kv):
    """under x a quantifier whose operand is a dropped whitespace CharNode is written after the PREVIOUS
    element (`a *` -> `a*`): that is what removing the whitespace first means, but the model's term keeps an
    empty operand, so the m-comparison is meaningless for these patterns"""
    if not uses_x(kv):
        return False
    return any(int(mm.group(1)) in WS for mm in re.finditer(r"q\([^;]*;[01];A\(c(\d+)\)\)", kv.get("ast", "")))


def go_prefix(flags):
    g = "".join(c for c in GOFLAGS if c in flags)
    return ("(?" + g + ")").encode().hex() if g else ""


# ---------------------------------------------------------------- the comparison of one case

X_KEYS = {
    "pipe": "extended:comment-contains-pipe", "paren": "extended:comment-contains-paren",
    "bracket": "extended:comment-contains-bracket", "quantifier": "extended:comment-contains-quantifier",
    "hashq": "extended:hash-quantified", "lonehash": "extended:lone-hash", "nlq": "extended:quantified-newline-after-comment",
    "wsq": "extended:quantified-whitespace", "backslash": "extended:comment-contains-backslash", "other": "extended:other",
    # inline flag groups: `#` / whitespace standing where the text has switched x OFF (after `(?-x)`, inside `(?-x:..)`,
    # before `(?x)`) must be literal characters
    "hashoff": "extended:literal-hash-where-x-is-off", "wsoff": "extended:literal-whitespace-where-x-is-off",
}


class Tally:
    def __init__(self):
        self.cases = 0
        self.text_dist = {}
        self.match_dist = {}
        self.text_nontrivial = set()
        self.match_nontrivial = set()
        self.match_evals = 0
        self.match_cases = 0
        self.text_mism = 0
        self.match_mism = 0
        self.fails = []     # (size, key, what, stream, case, impl, model, oracle)

    def bump(self, d, k, n=1):
        d[k] = d.get(k, 0) + n

    def fail(self, size, key, what, stream, case, impl, model, oracle):
        self.fails.append((size, key, what, stream, case, impl, model, oracle))
        if len(self.fails) > 30000:
            self.trim()

    def trim(self):
        self.fails.sort(key=lambda x: (x[0], x[1]))
        keep, cnt = [], {}
        for x in self.fails:
            cnt[x[1]] = cnt.get(x[1], 0) + 1
            if cnt[x[1]] <= 3:
                keep.append(x)
        self.fails = keep


def check_case(t, cid, inp, obs, exp, broke):
    kv = parse_input(inp)
    flags = kv.get("f", "-").replace("-", "")
    src_h = kv.get("src", "")
    src = unhex(src_h)
    ast = kv.get("ast", "")
    base = "f=%s src=%s" % (kv.get("f", "-"), src_h)
    size = len(src_h)
    label = "flags=%s pattern=%r" % (flags or "-", src)
    t.cases += 1
    t.bump(t.text_dist, "gen:" + cid[:1])
    if ast == "HANG":
        t.bump(t.text_dist, "skipped:unterminated-comment-group(C03)")
        return
    if obs.startswith("panic"):
        t.text_mism += 1
        t.fail(size, "panic:" + ("parse" if ast == "ERR" else "transpile"), "%s: the implementation panicked: %s" % (label, obs[:200]),
               "c21.text", base, obs[:300], exp, "regex.Transpile / parser.Parse must not panic")
        return
    o = parse_obs(obs)
    itext = o.get("text")
    xref = o.get("xref", "-")

    # ---- direct oracle for extended mode (global x and / or inline (?x) (?-x) (?x:..) (?-x:..) groups): the source is
    # stripped where ITS OWN flag groups say x is on (harness xStrip, source level), then transpiled without the global x
    if xref != "-":
        if itext == "ERR":
            t.bump(t.text_dist, "x-oracle:impl-rejects" + ("" if xref == "ERR" else "-but-stripped-source-is-valid"))
        elif itext == xref:
            t.bump(t.text_dist, "x-oracle:agree")
        elif o.get("go") != "ok":
            t.bump(t.text_dist, "x-oracle:differ-but-go-rejects-the-text")
        elif o.get("xcause") == "wsq" and o.get("xm") and o.get("xm") == o.get("m"):
            # `( ?)` -> `(?)` vs `` and the like: different text, same matcher on every subject
            t.bump(t.text_dist, "x-oracle:differ-in-text-only(quantified whitespace, same matches)")
        else:
            cause = o.get("xcause", "other")
            key = X_KEYS.get(cause[6:] if cause.startswith("multi-") else cause, "extended:other")
            if cause == "other" and reparse_key(kv) == "match:reparse:bracket-range-end":
                # `[k-]..]`: the Elk parser reads `-]` as a range end and goes on to the NEXT `]`; the oracle's scanner
                # (like Go) ends the class at the first `]`, so they strip different stretches of text
                key = "match:reparse:bracket-range-end"
            if cause == "wsq" and reparse_key(kv) == "match:reparse:repeat-leading-zero":
                # `x{00} +` -> `x{00}+`: Go accepts the stacked quantifier only because it reads `{00}` as literal text
                key = "match:reparse:repeat-leading-zero"
            t.bump(t.text_dist, "x-oracle:differ")
            t.text_mism += 1
            t.fail(size, key, "%s: Transpile gives %s but removing comments/whitespace first gives %s (cause: %s)" % (label, show(itext), show(xref), cause),
                   "c21.text", base, "text=" + show(itext), None,
                   "direct oracle: Transpile(src, f) must equal Transpile(xstrip(src, x in f), f - x) where xstrip removes comments and whitespace "
                   "exactly where the literal's x flag / the (?x) (?-x) groups of the text switch extended mode on; got %s vs %s" % (show(itext), show(xref)))

    if ast == "ERR":
        t.bump(t.text_dist, "parse-error")
        if exp != "parse-error":
            broke("model driver answered %r for a parse-error case" % (exp,))
        if itext != "ERR":
            t.text_mism += 1
            t.fail(size, "text:parse-error-ignored", "%s: the parser reports diagnostics but Transpile returned %s" % (label, show(itext)),
                   "c21.text", base, obs[:300], exp, "Transpile must fail when the parser fails")
        return
    if exp is None or exp.startswith("driver-error") or "text=" not in exp:
        broke("model gave no answer for %s (%s)" % (base, exp))
        return
    em = parse_obs(exp)
    mtext = em.get("text")

    # ---- c21.text: exact text; the two fixed defects are recognised exactly (model text = impl text up to the
    # missing leading (?flags) / the `[]|` of an emptied class) so that they never mask another difference
    agree = itext == mtext
    if not agree:
        pre = go_prefix(flags)
        split_bug, split_ok = "(?:[]|".encode().hex(), "(?:".encode().hex()
        both_text = itext not in ("ERR", None) and mtext not in ("ERR", None)
        m1 = mtext[len(pre):] if both_text and pre and mtext.startswith(pre) else None
        i1 = itext.replace(split_bug, split_ok) if both_text and split_bug in itext else None
        keys = None
        if m1 is not None and m1 == itext:
            keys = ["text:global-flags-dropped"]
        elif i1 is not None and i1 == mtext:
            keys = ["text:empty-split-class"]
        elif m1 is not None and i1 is not None and m1 == i1:
            keys = ["text:global-flags-dropped", "text:empty-split-class"]
        elif o.get("xcause") in ("hashoff", "wsoff"):
            # the direct oracle has named the class (a `#` / whitespace where the text switched x off): one canonical key
            # for both oracles instead of one per feature combination
            keys = [X_KEYS[o.get("xcause")]]
        else:
            keys = ["text:" + feature_tags(kv)]
        for key in keys:
            t.text_mism += 1
            if key == "text:global-flags-dropped":
                what = "%s: Transpile returns %s without the leading (?%s) - the literal's flags never reach Go's regexp" % (
                    label, show(itext), "".join(c for c in GOFLAGS if c in flags))
            elif key == "text:empty-split-class":
                what = "%s: Transpile returns %s - `[]|[^...` is ONE bracket expression for Go" % (label, show(itext))
            else:
                what = "%s: Transpile returns %s, model %s" % (label, show(itext), show(mtext))
            t.fail(size, key, what, "c21.text", base, "text=" + show(itext), "text=" + show(mtext),
                   "implementation text differs from the proved model")
    if itext == "ERR":
        t.bump(t.text_dist, "transpile-error")
    else:
        t.text_nontrivial.add((flags, src_h))
        t.bump(t.text_dist, "transpiled:go-" + o.get("go", "?"))

    # ---- c21.match
    if o.get("go") != "ok" or not agree or itext == "ERR":
        return
    im, mm, me = o.get("m", "-"), em.get("m", "-"), em.get("e", "-")
    subj = kv.get("subj", "").split(",")
    if im == "-" or len(im) != len(subj):
        broke("malformed match bits for %s: %s" % (base, obs[:200]))
        return
    t.match_cases += 1
    x = uses_x(kv)
    if x_quantified_whitespace(kv):
        t.bump(t.match_dist, "x-pattern with quantified whitespace (not compared)")
        return
    t.bump(t.match_dist, "x-pattern (m only)" if x else "plain (m and e)")
    t.match_evals += len(im)
    if "0" in im and "1" in im:
        t.match_nontrivial.add((flags, src_h))
    for which, bits in (("m", mm), ("e", me)):
        if which == "e" and x:
            continue       # the theorem (and the denotation `e`) covers patterns without x; x is checked on the text
        if bits == im:
            continue
        if len(bits) != len(im):
            broke("model printed %d %s-bits for %d subjects: %s" % (len(bits), which, len(im), base))
            continue
        k = [i for i in range(len(im)) if im[i] != bits[i]][0]
        t.match_mism += 1
        rk = reparse_key(kv)
        key = rk if rk else "match:%s:%s" % (which, feature_tags(kv))
        what = "%s subject=%r: compiled Go matcher says %s, %s says %s (emitted text %s)" % (
            label, unhex(subj[k]) if subj[k] != "e" else "", im[k],
            "the model of Go's semantics on the emitted term" if which == "m" else "the Elk denotation", bits[k], show(itext))
        t.fail(size + len(subj[k]), key, what, "c21.match", base + " subj=" + subj[k], "m=" + im, which + "=" + bits,
               "Regex#matches must accept exactly the strings the Elk pattern denotes" if which == "e"
               else "Go's regexp on the emitted text vs the model of the emitted term (trusted-spec validation / reparse ambiguity)")


RULE_TEXT = ("grammar-directed Elk regex sources (<= 12 nodes: literals incl. case-fold and whitespace specials, all escape forms, . anchors, "
             "\\d\\w\\s\\h\\v and negations at top level / in classes / in negated classes, \\p, POSIX classes, ranges, groups (capturing, "
             "non-capturing, 3 named forms), flag groups - bare `(?..)` in concatenations and alternatives and scoped `(?..:..)`, each SETTING and/or "
             "UNSETTING any subset of i m s U x a (x weighted up; `(?-x)`, `(?x-x)`, `(?i-x:..)` ...), 1/6 of the patterns flag-group-heavy - all "
             "quantifier forms and lazy variants) x all 64 flag sets (weighted to few flags), 1/3 with x on the literal. The generator tracks the x "
             "state the text prescribes: where x is on it sprinkles whitespace / # comments (some containing | ( * #); where x has been switched OFF "
             "(after `(?-x)`, inside `(?-x:..)`, before a later `(?x)`) it writes the same text, which is then literal; after every flag group, at the "
             "start of a scoped group's body and after its end it writes `#`, whitespace, `#..\\n` probes whatever the state is. Every 4th case is a "
             "char-level mutation (delete/insert/duplicate) of such a source; corpus first. Go's own parser output is walked into the model's tree; "
             "compared: emitted text exactly (model transpile_text vs regex.Transpile), and for every pattern with x on the literal or in a flag "
             "group the direct oracle Transpile(src,f) = Transpile(xstrip(src), f-x), xstrip = a source-level scanner that follows the x state through "
             "bare and scoped flag groups and removes comments and whitespace only where x is on; non-trivial = parsed and transpiled without error, "
             "distinct by (flags, source)")
RULE_MATCH = ("cases of c21.text whose emitted text Go compiles and equals the model's: 6-10 subjects (<= 6 runes: the empty string, samples "
              "drawn by walking the tree - class members, range ends and neighbours, case-fold orbit members - their mutations, random picks from the "
              "special alphabet incl. \\n); regexp.MatchString vs matches_re2 on the emitted term (validates the Go-semantics assumption) and vs "
              "matches_elk on the tree (the property; patterns without x); evaluations = subject evaluations; non-trivial = patterns that accept "
              "some subject and reject another")


def run(ctx):
    # EXPLANATION: filled in by b-c21-c03
    ctx.explanation = (
        "PROVED in Coq (Props/C21.v), for every syntax tree, every flag set WITHOUT extended mode, every subject and every choice of "
        "the Unicode oracles: when the transpiler model reports no failure, the emitted Go (RE2) term denotes the same position-set "
        "transformer as the Elk tree, hence accepts exactly the same subjects (C21_denotation, C21_transpile_sound; all node kinds, the "
        "three class modes, flags i m s U a with scoping); flags set in a group never leak (C21_flag_scoping, C21_flag_groups); "
        "+ and * on regexes denote composition and iteration (C21_concat, C21_repeat). C21_extended_refuted: with flag x the faithful "
        "model turns `a # x|y\\nb` into `a|yb`. Extended mode, what holds: C21_extended_partial (global x, no flag group mentioning x, no `#`) and, "
        "second pass, C21_extended_flags_partial / C21_extended_flags_sound: for EVERY tree and flag set, with x switched on and off by the "
        "literal and by bare `(?x)` `(?-x)` and scoped `(?x:..)` `(?-x:..)` groups in any nesting, if no `#` character node stands where x is on "
        "(a `#` where the text switched x off is a literal and allowed: `a(?-x)#b`), Transpile emits exactly the text of the tree with the "
        "whitespace of the x-on stretches removed and x erased from all flag groups, transpiled without x - and that tree is in the scope of "
        "C21_transpile_sound. Comments themselves (a `#` where x is on) are still covered by no theorem. NOT PROVED, TESTED ONLY: (a) that the Go "
        "transpiler IS the model - stream c21.text compares the emitted text exactly, on trees returned by Go's own regex parser, including "
        "generated bare/scoped flag groups that set and unset every flag followed by `#`, whitespace and comments; (b) that Go's regexp reads the "
        "printed text as the structured term and implements the assumed semantics m2, and that the compiled matcher accepts what the Elk tree "
        "denotes - stream c21.match; (c) comments and the source-level reading of extended mode: text comparison plus the direct oracle "
        "Transpile(src, f) == Transpile(xstrip(src), f - x) on the implementation's own outputs, where xstrip (harness, independent of lexer, parser "
        "and transpiler) follows the x state through the flag groups of the source text. Unicode tables, fold orbits and POSIX "
        "tables are oracles instantiated per case from the live Go packages. The model mirrors the code AFTER fixes/C21-global-flags.patch "
        "and fixes/C21-empty-split-class.patch; on a tree without them the check reports those two defects.")
    ctx.trusted_base += [
        "Go regexp/syntax + regexp engine: trusted specification of the emitted RE2 subset (m2 in Model/C21_RegexSem.v), validated per case by stream c21.match",
        "unicode tables (Categories/Scripts), POSIX class tables and unicode.SimpleFold orbits: section oracles, dumped per case from the live Go packages for "
        "the runes of the subjects and their orbit members",
        "harness AST walker (harness/cmd/c21): the tree the model sees is the one regex/parser returned, serialised node by node; regex/lexer and regex/parser "
        "themselves are NOT modelled",
        "second oracle for extended mode: xScan/xStrip in harness/cmd/c21 (follows x through bare and scoped flag groups of the source text; where x is on, "
        "comments and unescaped whitespace outside classes, escapes, \\Q..\\E and (?#..) are removed; its reading of where a class ends is Go's, not the Elk parser's)",
    ]
    ctx.run_proof_gate()
    h = vlib.build_harness("c21")
    m = vlib.build_model_exact("C21")
    corpus = os.path.join(vlib.ROOT, "corpus", "C21.text.txt")
    per = ctx.n(6000, 10000)
    batches = [(ctx.sseed("c21.text"), per, True)]
    if not ctx.quick():
        batches += [(ctx.sseed("c21.text:%d" % b), per, False) for b in range(1, 10)]

    t = Tally()
    samples = []
    broken = []

    def one(batch):
        seed, n, with_corpus = batch
        cmd = [h, "-seed", str(seed), "-n", str(n), "-tier", ctx.tier]
        if with_corpus and os.path.exists(corpus):
            cmd += ["-input", corpus]
        rc, out = vlib.sh(cmd, timeout=3000, env=vlib.elk_env())
        ids, inputs, obs = vlib.parse_case_lines(out)
        if rc != 0 or not ids:
            return batch, rc, out[-3000:], None
        rc2, exp, mout = vlib.run_model(m, ids, inputs, timeout=3000)
        return batch, rc, "", (ids, inputs, obs, rc2, exp, mout[-2000:])

    for batch, rc, log, res in vlib.parallel_map(one, batches, workers=ctx.n(1, 3)):
        if res is None:
            ctx.broke("correspondence c21.text: harness exited %d" % rc, log)
            continue
        ids, inputs, obs, rc2, exp, mlog = res
        if rc2 != 0:
            ctx.broke("correspondence c21.text: model driver exited %d" % rc2, mlog)
        if batch[2]:
            pick = [i for i in ids if "go=ok" in obs[i]]
            samples = [{"input": inputs[i][:500], "observed": obs[i][:300]} for i in (ids[:1] + pick[:2] + pick[-1:])]
        for i in ids:
            check_case(t, i, inputs[i], obs[i], exp.get(i), lambda w: broken.append(w))
    for w in broken[:5]:
        ctx.broke("correspondence c21: " + w)

    t.trim()
    t.fails.sort(key=lambda x: (x[0], x[1]))
    seen = {"c21.text": {}, "c21.match": {}}
    for size, key, what, stream, case, impl, model, oracle in t.fails:
        d = seen[stream]
        d[key] = d.get(key, 0) + 1
        if d[key] <= 3:
            ctx.fail(key, what, stream=stream, case=case, impl=impl, model=model, oracle=oracle)
    ctx.stream("c21.text", t.cases, len(t.text_nontrivial), RULE_TEXT, samples, t.text_dist,
               mismatches=t.text_mism, failing_keys=sorted(seen["c21.text"]), batches=len(batches))
    ctx.stream("c21.match", t.match_evals, len(t.match_nontrivial), RULE_MATCH,
               [s for s in samples if "go=ok" in s["observed"]][:3], t.match_dist,
               mismatches=t.match_mism, failing_keys=sorted(seen["c21.match"]), patterns=t.match_cases)
