"""C21 - Regex translation preserves Elk regex semantics."""
import os
import re
import vlib

GOFLAGS = "imsU"

# ---------------------------------------------------------------- parsing of case lines


def parse_input(inp):
    return dict(f.split("=", 1) for f in inp.split(" ") if "=" in f)


def parse_obs(obs):
    return dict(f.split("=", 1) for f in obs.split(";") if "=" in f)


def unhex(h):
    try:
        return bytes.fromhex(h).decode("utf-8", "replace")
    except ValueError:
        return "<" + h + ">"


def show(h):
    """readable form of a hex field (ERR / - stay as they are)"""
    if h in ("ERR", "-", None):
        return str(h)
    return repr(unhex(h))


# ---------------------------------------------------------------- feature tags (failure keys)

ATOM_ESC = re.compile(r"^(m\d+|s[aftnr]|x[\d.\-]+|o[\d.\-]+|k\d+)$")
ATOM_PRE = re.compile(r"^p[01][wdshv]$")
WS = {9, 10, 11, 12, 13, 32, 133, 160, 5760, 8232, 8233, 8239, 8287, 12288} | set(range(8192, 8203))


def feature_tags(kv):
    ast = kv.get("ast", "")
    tags = set()
    if "C(0;" in ast:
        tags.add("class")
    if "C(1;" in ast:
        tags.add("negclass")
    if "r(" in ast:
        tags.add("range")
    if "G(cap" in ast or "G(non" in ast or "G(nam" in ast:
        tags.add("group")
    if "G(fl:" in ast:
        tags.add("flaggroup")
    if "q(" in ast:
        tags.add("quant")
    if "alt(" in ast:
        tags.add("alt")
    if "Q(" in ast:
        tags.add("quoted")
    for tok in re.split(r"[(),;]", ast):
        if tok in ("bol", "eol", "absbeg", "absend", "wordb", "nwordb"):
            tags.add("anchor")
        elif ATOM_PRE.match(tok):
            tags.add("predef")
        elif tok[:3] in ("u0:", "u1:"):
            tags.add("uni")
        elif tok[:3] in ("n0:", "n1:"):
            tags.add("posix")
        elif ATOM_ESC.match(tok):
            tags.add("escape")
    if uses_x(kv):
        tags.add("x")
    if "a" in kv.get("f", "") or re.search(r"fl:[a-zA-Z]*a", ast):
        tags.add("a")
    return ",".join(sorted(tags)) or "literal"


def uses_x(kv):
    """extended mode can be active somewhere in the pattern (globally or set by a flag group)"""
    return "x" in kv.get("f", "").replace("-", "") or re.search(r"fl:[a-zA-Z]*x", kv.get("ast", "")) is not None


def class_items(ast):
    """[(negated, [item, ...])] for every class node of the compact tree"""
    out = []
    for m in re.finditer(r"C\(([01]);", ast):
        i = m.end()
        depth, cur, items = 0, "", []
        while i < len(ast):
            ch = ast[i]
            if ch == "(":
                depth += 1
            elif ch == ")":
                if depth == 0:
                    break
                depth -= 1
            if ch == "," and depth == 0:
                items.append(cur)
                cur = ""
            else:
                cur += ch
            i += 1
        if cur:
            items.append(cur)
        out.append((m.group(1) == "1", items))
    return out


def reparse_key(kv):
    """emitted text that Go's parser reads as a different tree than the one the transpiler walked
    (implementation defects with their own keys; the model is the tree, Go sees the text)"""
    ast = kv.get("ast", "")
    ascii_ = "a" in kv.get("f", "") or re.search(r"fl:[a-zA-Z]*a", ast) is not None
    if "C(0;)" in ast or "C(1;)" in ast:
        return "match:reparse:empty-class"
    if re.search(r"r\([^,()]*,c93\)", ast):
        return "match:reparse:bracket-range-end"
    if re.search(r"r\(p0[hv],|r\([^,()]*,p0[hv]\)", ast):
        return "match:reparse:range-to-class"
    if re.search(r"q\(n:48\.\d|q\(nm:48\.\d|q\(nm:[^:;]*:48\.\d", ast):
        return "match:reparse:repeat-leading-zero"
    if re.search(r"q\([^;]*;[01];Q\(", ast):
        return "match:reparse:quantified-quoted-text"
    if re.search(r"q\([^;]*;[01];G\(fl:[^;]*;\)\)", ast):
        return "match:reparse:quantified-flag-group"
    for neg, items in class_items(ast):
        if neg:
            continue
        split = [it for it in items if it in ("a(p1h)", "a(p1v)") or (it in ("a(p1w)", "a(p1s)") and not ascii_) or
                 (it in ("a(p1w)", "a(p1s)") and "fl:" in ast)]
        inside = [it for it in items if it not in split]
        if split and inside and inside[0] == "a(c94)":
            return "match:reparse:caret-first-after-split"
    return None


def x_quantified_whitespace(kv):
    """under x a quantifier whose operand is a dropped whitespace CharNode is written after the PREVIOUS
    element (`a *` -> `a*`): that is what removing the whitespace first means, but the model's term keeps an
    empty operand, so the m-comparison is meaningless for these patterns"""
    if not uses_x(kv):
        return False
    return any(int(mm.group(1)) in WS for mm in re.finditer(r"q\([^;]*;[01];A\(c(\d+)\)\)", kv.get("ast", "")))


def go_prefix(flags):
    g = "".join(c for c in GOFLAGS if c in flags)
    return ("(?" + g + ")").encode().hex() if g else ""


# ---------------------------------------------------------------- the comparison of one case

X_KEYS = {
    "pipe": "extended:comment-contains-pipe", "paren": "extended:comment-contains-paren",
    "bracket": "extended:comment-contains-bracket", "quantifier": "extended:comment-contains-quantifier",
    "hashq": "extended:hash-quantified", "lonehash": "extended:lone-hash", "nlq": "extended:quantified-newline-after-comment",
    "wsq": "extended:quantified-whitespace", "backslash": "extended:comment-contains-backslash", "other": "extended:other",
    "anchor": "extended:comment-contains-anchor",
    # inline flag groups: `#` / whitespace standing where the text has switched x OFF (after `(?-x)`, inside `(?-x:..)`,
    # before `(?x)`) must be literal characters
    "hashoff": "extended:literal-hash-where-x-is-off", "wsoff": "extended:literal-whitespace-where-x-is-off",
}


# Go's regexp against itself (harness guardText / guardOracle): the emitted text and the same text with `(?:)` guards that block
# the parser's alternation factoring give different verdicts.  gc names the cause the harness found in the unfactored tree.
GO_KEYS = {
    "foldmix": "match:go-regexp:alternation-factoring-ignores-case-flag",
    "other": "match:go-regexp:alternation-factoring:other",
}


def go_deviation_key(o, expected_bits):
    """the canonical key when the verdicts of the GUARDED text are exactly the expected ones: the whole disagreement is Go's
    regexp disagreeing with itself (a defect of the trusted reference, not of the transpiler)"""
    gd = o.get("gd")
    if gd is None or gd != expected_bits:
        return None
    return GO_KEYS.get(o.get("gc", "other"), GO_KEYS["other"])


class Tally:
    def __init__(self):
        self.cases = 0
        self.text_dist = {}
        self.match_dist = {}
        self.text_nontrivial = set()
        self.match_nontrivial = set()
        self.match_evals = 0
        self.match_cases = 0
        self.text_mism = 0
        self.match_mism = 0
        self.fails = []     # (size, key, what, stream, case, impl, model, oracle)

    def bump(self, d, k, n=1):
        d[k] = d.get(k, 0) + n

    def fail(self, size, key, what, stream, case, impl, model, oracle):
        self.fails.append((size, key, what, stream, case, impl, model, oracle))
        if len(self.fails) > 30000:
            self.trim()

    def trim(self):
        self.fails.sort(key=lambda x: (x[0], x[1]))
        keep, cnt = [], {}
        for x in self.fails:
            cnt[x[1]] = cnt.get(x[1], 0) + 1
            if cnt[x[1]] <= 3:
                keep.append(x)
        self.fails = keep


def check_case(t, cid, inp, obs, exp, broke):
    kv = parse_input(inp)
    flags = kv.get("f", "-").replace("-", "")
    src_h = kv.get("src", "")
    src = unhex(src_h)
    ast = kv.get("ast", "")
    base = "f=%s src=%s" % (kv.get("f", "-"), src_h)
    size = len(src_h)
    label = "flags=%s pattern=%r" % (flags or "-", src)
    t.cases += 1
    t.bump(t.text_dist, "gen:" + cid[:1])
    if ast == "HANG":
        t.bump(t.text_dist, "skipped:unterminated-comment-group(C03)")
        return
    if obs.startswith("panic"):
        t.text_mism += 1
        t.fail(size, "panic:" + ("parse" if ast == "ERR" else "transpile"), "%s: the implementation panicked: %s" % (label, obs[:200]),
               "c21.text", base, obs[:300], exp, "regex.Transpile / parser.Parse must not panic")
        return
    o = parse_obs(obs)
    itext = o.get("text")
    xref = o.get("xref", "-")

    # ---- direct oracle for extended mode (global x and / or inline (?x) (?-x) (?x:..) (?-x:..) groups): the source is
    # stripped where ITS OWN flag groups say x is on (harness xStrip, source level), then transpiled without the global x
    if xref != "-":
        if itext == "ERR":
            t.bump(t.text_dist, "x-oracle:impl-rejects" + ("" if xref == "ERR" else "-but-stripped-source-is-valid"))
        elif itext == xref:
            t.bump(t.text_dist, "x-oracle:agree")
        elif o.get("go") != "ok":
            t.bump(t.text_dist, "x-oracle:differ-but-go-rejects-the-text")
        elif o.get("xcause") == "wsq" and o.get("xm") and o.get("xm") == o.get("m"):
            # `( ?)` -> `(?)` vs `` and the like: different text, same matcher on every subject
            t.bump(t.text_dist, "x-oracle:differ-in-text-only(quantified whitespace, same matches)")
        else:
            cause = o.get("xcause", "other")
            # "multi-a+b": an irredundant SET of causes (harness xCause) - the case is reported under the class key of each
            causes = cause[6:].split("+") if cause.startswith("multi-") else [cause]
            keys = [X_KEYS.get(c, "extended:other") for c in causes]
            if cause == "other" and reparse_key(kv) == "match:reparse:bracket-range-end":
                # `[k-]..]`: the Elk parser reads `-]` as a range end and goes on to the NEXT `]`; the oracle's scanner
                # (like Go) ends the class at the first `]`, so they strip different stretches of text
                keys = ["match:reparse:bracket-range-end"]
            if cause == "wsq" and reparse_key(kv) == "match:reparse:repeat-leading-zero":
                # `x{00} +` -> `x{00}+`: Go accepts the stacked quantifier only because it reads `{00}` as literal text
                keys = ["match:reparse:repeat-leading-zero"]
            t.bump(t.text_dist, "x-oracle:differ")
            if len(causes) > 1:
                t.bump(t.text_dist, "x-oracle:differ:several causes at once (reported under each class key)")
            for key in keys:
                t.text_mism += 1
                t.fail(size, key, "%s: Transpile gives %s but removing comments/whitespace first gives %s (cause: %s)" % (label, show(itext), show(xref), cause),
                       "c21.text", base, "text=" + show(itext), None,
                       "direct oracle: Transpile(src, f) must equal Transpile(xstrip(src, x in f), f - x) where xstrip removes comments and whitespace "
                       "exactly where the literal's x flag / the (?x) (?-x) groups of the text switch extended mode on; got %s vs %s" % (show(itext), show(xref)))

    if ast == "ERR":
        t.bump(t.text_dist, "parse-error")
        if exp != "parse-error":
            broke("model driver answered %r for a parse-error case" % (exp,))
        if itext != "ERR":
            t.text_mism += 1
            t.fail(size, "text:parse-error-ignored", "%s: the parser reports diagnostics but Transpile returned %s" % (label, show(itext)),
                   "c21.text", base, obs[:300], exp, "Transpile must fail when the parser fails")
        return
    if exp is None or exp.startswith("driver-error") or "text=" not in exp:
        broke("model gave no answer for %s (%s)" % (base, exp))
        return
    em = parse_obs(exp)
    mtext = em.get("text")

    # ---- c21.text: exact text; the two fixed defects are recognised exactly (model text = impl text up to the
    # missing leading (?flags) / the `[]|` of an emptied class) so that they never mask another difference
    agree = itext == mtext
    if not agree:
        pre = go_prefix(flags)
        split_bug, split_ok = "(?:[]|".encode().hex(), "(?:".encode().hex()
        both_text = itext not in ("ERR", None) and mtext not in ("ERR", None)
        m1 = mtext[len(pre):] if both_text and pre and mtext.startswith(pre) else None
        i1 = itext.replace(split_bug, split_ok) if both_text and split_bug in itext else None
        keys = None
        if m1 is not None and m1 == itext:
            keys = ["text:global-flags-dropped"]
        elif i1 is not None and i1 == mtext:
            keys = ["text:empty-split-class"]
        elif m1 is not None and i1 is not None and m1 == i1:
            keys = ["text:global-flags-dropped", "text:empty-split-class"]
        elif o.get("xcause") in ("hashoff", "wsoff"):
            # the direct oracle has named the class (a `#` / whitespace where the text switched x off): one canonical key
            # for both oracles instead of one per feature combination
            keys = [X_KEYS[o.get("xcause")]]
        else:
            keys = ["text:" + feature_tags(kv)]
        for key in keys:
            t.text_mism += 1
            if key == "text:global-flags-dropped":
                what = "%s: Transpile returns %s without the leading (?%s) - the literal's flags never reach Go's regexp" % (
                    label, show(itext), "".join(c for c in GOFLAGS if c in flags))
            elif key == "text:empty-split-class":
                what = "%s: Transpile returns %s - `[]|[^...` is ONE bracket expression for Go" % (label, show(itext))
            else:
                what = "%s: Transpile returns %s, model %s" % (label, show(itext), show(mtext))
            t.fail(size, key, what, "c21.text", base, "text=" + show(itext), "text=" + show(mtext),
                   "implementation text differs from the proved model")
    if itext == "ERR":
        t.bump(t.text_dist, "transpile-error")
    else:
        t.text_nontrivial.add((flags, src_h))
        t.bump(t.text_dist, "transpiled:go-" + o.get("go", "?"))

    # ---- c21.match
    if o.get("go") != "ok" or not agree or itext == "ERR":
        return
    im, mm, me = o.get("m", "-"), em.get("m", "-"), em.get("e", "-")
    subj = kv.get("subj", "").split(",")
    if im == "-" or len(im) != len(subj):
        broke("malformed match bits for %s: %s" % (base, obs[:200]))
        return
    t.match_cases += 1
    x = uses_x(kv)
    if x_quantified_whitespace(kv):
        t.bump(t.match_dist, "x-pattern with quantified whitespace (not compared)")
        return
    t.bump(t.match_dist, "x-pattern (m only)" if x else "plain (m and e)")
    if "gd" in o:
        t.bump(t.match_dist, "go-regexp: emitted text and its factoring-guarded form give different verdicts (%s)" % o.get("gc", "?"))
        if len(o["gd"]) != len(im):
            broke("malformed guard bits for %s: %s" % (base, obs[:200]))
            return
    t.match_evals += len(im)
    if "0" in im and "1" in im:
        t.match_nontrivial.add((flags, src_h))
    for which, bits in (("m", mm), ("e", me)):
        if which == "e" and x:
            continue       # the theorem (and the denotation `e`) covers patterns without x; x is checked on the text
        if bits == im:
            continue
        if len(bits) != len(im):
            broke("model printed %d %s-bits for %d subjects: %s" % (len(bits), which, len(im), base))
            continue
        k = [i for i in range(len(im)) if im[i] != bits[i]][0]
        t.match_mism += 1
        rk = reparse_key(kv)
        gk = go_deviation_key(o, bits)
        key = gk if gk else rk if rk else "match:%s:%s" % (which, feature_tags(kv))
        what = "%s subject=%r: compiled Go matcher says %s, %s says %s (emitted text %s)" % (
            label, unhex(subj[k]) if subj[k] != "e" else "", im[k],
            "the model of Go's semantics on the emitted term" if which == "m" else "the Elk denotation", bits[k], show(itext))
        if gk:
            what += ("; Go's regexp disagrees with ITSELF here: the same text with empty groups `(?:)` in front of every alternative (which "
                     "blocks the parser's alternation factoring and denotes the same language) gives %s, exactly the expected verdicts" % o["gd"])
        t.fail(size + len(subj[k]), key, what, "c21.match", base + " subj=" + subj[k], "m=" + im, which + "=" + bits,
               "Regex#matches must accept exactly the strings the Elk pattern denotes" if which == "e"
               else "Go's regexp on the emitted text vs the model of the emitted term (trusted-spec validation / reparse ambiguity)")


# ---------------------------------------------------------------- c21.compose: composition terms

def split_term(term):
    """post-order list of the subterms of a model-form term: ("L", flags, ast) | ("P", i, j) | ("R", n, i)"""
    out = []
    pos = [0]

    def word():
        st = pos[0]
        while pos[0] < len(term) and term[pos[0]] not in "(),;":
            pos[0] += 1
        return term[st:pos[0]]

    def expect(c):
        if pos[0] >= len(term) or term[pos[0]] != c:
            raise ValueError("term: expected %s at %d" % (c, pos[0]))
        pos[0] += 1

    def node():
        k = word()
        expect("(")
        if k == "L":
            fl = word()
            expect(";")
            st, depth = pos[0], 0
            while pos[0] < len(term):
                ch = term[pos[0]]
                if ch == "(":
                    depth += 1
                elif ch == ")":
                    if depth == 0:
                        break
                    depth -= 1
                pos[0] += 1
            out.append(("L", fl, term[st:pos[0]]))
        elif k == "P":
            a = node()
            expect(",")
            b = node()
            out.append(("P", a, b))
        elif k == "R":
            n = word()
            expect(";")
            a = node()
            out.append(("R", n, a))
        else:
            raise ValueError("term node %r" % k)
        expect(")")
        return len(out) - 1
    node()
    if pos[0] != len(term):
        raise ValueError("trailing text after the term")
    return out


def show_term(tsrc):
    """readable form of a replay term: L(i;78) -> %/x/i, P(a,b) -> (a + b), R(2;a) -> (a * 2)"""
    pos = [0]

    def word():
        st = pos[0]
        while pos[0] < len(tsrc) and tsrc[pos[0]] not in "(),;":
            pos[0] += 1
        return tsrc[st:pos[0]]

    def node():
        k = word()
        pos[0] += 1
        if k == "L":
            fl = word()
            pos[0] += 1
            h = word()
            r = "%/" + ("" if h == "e" else unhex(h)) + "/" + ("" if fl == "-" else fl)
        elif k == "P":
            a = node()
            pos[0] += 1
            r = "(" + a + " + " + node() + ")"
        elif k == "R":
            n = word()
            pos[0] += 1
            r = "(" + node() + " * " + n + ")"
        else:
            raise ValueError(k)
        pos[0] += 1
        return r
    try:
        r = node()
        return r[1:-1] if r.startswith("(") else r
    except (ValueError, IndexError):
        return tsrc


def elk_subject_ok(sub):
    return "'" not in sub and all((ord(c) >= 0x20 or c in "\n\t") and ord(c) != 0x7F for c in sub) and "�" not in sub


class ComposeTally:
    def __init__(self):
        self.cases = 0
        self.evals = 0
        self.nontrivial = set()
        self.dist = {}
        self.mism = 0
        self.fails = []
        self.pending = []        # verdict disagreements waiting for the diagnosis of the failing step
        self.elk_cases = []      # (id, expr, [(index, subject)], inp, obs, expected root bits, key if the API already disagrees)
        self.elk_evals = 0

    def bump(self, k, n=1):
        self.dist[k] = self.dist.get(k, 0) + n

    def fail(self, size, key, what, case, impl, model, oracle):
        self.mism += 1
        self.fails.append((size, key, what, "c21.compose", case, impl, model, oracle))


def op_name(sub):
    return {"L": "leaf", "P": "concat"}.get(sub[0], "repeat")


def check_compose_case(t, cid, inp, obs, exp, broke):
    kv = parse_input(inp)
    tsrc = kv.get("tsrc", "")
    base = "tsrc=" + tsrc
    t.cases += 1
    t.bump("gen:" + cid[:1])
    if obs.startswith("panic"):
        t.fail(len(tsrc), "compose:panic", "%s: the implementation panicked: %s" % (tsrc, obs[:200]), base, obs[:300], exp,
               "Regex#+ / Regex#* must not panic")
        return
    o = parse_obs(obs)
    if o.get("st", "").startswith("bad-replay"):
        broke("corpus line does not replay: %s (%s)" % (tsrc, unhex(o["st"].split(":", 1)[1])))
        return
    if exp is None or exp.startswith("driver-error") or "se=" not in exp:
        broke("model gave no answer for %s (%s)" % (base, exp))
        return
    e = parse_obs(exp)
    try:
        subs = split_term(kv.get("term", ""))
    except ValueError as ex:
        broke("unreadable term in %s: %s" % (base, ex))
        return
    subj = kv.get("subj", "").split(",")
    base += " subj=" + kv.get("subj", "")
    desc = [d.split(":") for d in o.get("sub", "").split("/")]
    if len(desc) != len(subs):
        broke("malformed subterm list for %s: %s" % (base, obs[:200]))
        return
    nleaves = sum(1 for x in subs if x[0] == "L")
    depth = term_depth(subs)
    # leaves that c21.text / c21.match own: extended-mode comments (no theorem), re-read ambiguities (known findings)
    if "skip" in e:
        t.bump("not evaluated: a leaf has a `#` where x is on (comments: c21.text)")
        return
    for x in subs:
        if x[0] != "L":
            continue
        lk = {"f": x[1], "ast": x[2]}
        rk = reparse_key(lk)
        if rk or x_quantified_whitespace(lk):
            t.bump("not evaluated: a leaf is in a c21.match known-finding class (%s)" % (rk or "extended:quantified-whitespace"))
            return
    # ---- a step that raised
    st = o.get("st", "")
    if st.startswith("err:"):
        _, at, msg = st.split(":", 2)
        at = int(at)
        x = subs[at]
        cls = [desc[i][2] for i in x[1:] if isinstance(i, int)]
        key = "compose:error:%s:%s" % (op_name(x), "+".join(cls))
        t.bump("step raised")
        t.fail(len(tsrc), key, "%s: step %d (%s on operand source shape %s) raised: %s" % (show_term(tsrc), at, x[0] + (x[1] if x[0] == "R" else ""),
                                                                                       "+".join(cls), unhex(msg)[:200]),
               base, "st=" + unhex(msg)[:200], exp, "every leaf compiles and no repeat count exceeds Go's limits: `+` / `*` must yield a regex")
        return
    sm = o.get("sm", "").split("/")
    se = e.get("se", "").split("/")
    if len(sm) != len(subs) or len(se) != len(subs) or any(len(b) != len(subj) for b in sm + se):
        broke("malformed verdict bits for %s: %s | %s" % (base, obs[:200], exp[:200]))
        return
    t.bump("evaluated:depth-%d" % depth)
    t.bump("evaluated:leaves-%d" % nleaves)
    t.bump("root:" + desc[-1][1][:1] + ":" + desc[-1][2])
    t.evals += len(subj) * len(subs)
    if "0" in sm[-1] and "1" in sm[-1]:
        t.nontrivial.add(tsrc)
    key = None
    bad = [i for i in range(len(subs)) if sm[i] != se[i]]
    if "gd" in o:
        t.bump("go-regexp: a value's compiled text and its factoring-guarded form give different verdicts (%s)" % o.get("gc", "?"))
    if bad and "gd" in o:
        # Go's regexp disagrees with itself on some subterm's compiled text (harness guardText); when the verdicts of the guarded
        # texts are exactly the denoted ones the whole disagreement is that deviation of the trusted reference: its own class key
        g = o["gd"].split("/")
        if len(g) == len(subs) and all((g[i] if g[i] != "-" else sm[i]) == se[i] for i in range(len(subs))):
            i = bad[0]
            k = [j for j in range(len(subj)) if sm[i][j] != se[i][j]][0]
            key = GO_KEYS.get(o.get("gc", "other"), GO_KEYS["other"])
            t.fail(len(tsrc) + len(subj[k]), key,
                   "%s subterm %d subject=%r: Regex#matches says %s, the term denotes %s; Go's regexp disagrees with ITSELF on the compiled text: with empty "
                   "groups `(?:)` in front of every alternative (no factoring, same language) it gives the denoted verdicts" % (
                       show_term(tsrc), i, "" if subj[k] == "e" else unhex(subj[k]), sm[i][k], se[i][k]),
                   base, "sm=" + o.get("sm", ""), "se=" + e.get("se", ""),
                   "Go's regexp on the emitted text vs the same text with alternation factoring blocked (trusted-reference validation)")
    if bad and key is None:
        # a disagreement on Regex#matches verdicts.  WHICH step breaks is decided afterwards (diagnose_compose): an operand can
        # be wrong as a value although its own unanchored verdicts agree (`x * 0` always "matches"), so the first disagreeing
        # verdict is not the place
        key = "pending"
        i = bad[0]
        k = [j for j in range(len(subj)) if sm[i][j] != se[i][j]][0]
        t.mism += 1
        t.pending.append({"size": len(tsrc) + len(subj[k]), "cid": cid, "tsrc": tsrc, "subj": kv.get("subj", ""), "subs": subs, "desc": desc,
                          "first": i, "k": k, "sm": o.get("sm", ""), "se": e.get("se", ""), "src": o.get("src"), "base": base})
    if key is None:
        root = subs[-1]
        if o.get("fl") != e.get("cf"):
            t.fail(len(tsrc), "compose:flags:" + op_name(root), "%s: the composed value carries flags %s, expected %s" % (show_term(tsrc), o.get("fl"), e.get("cf")),
                   base, "fl=" + str(o.get("fl")), "cf=" + str(e.get("cf")), "`+` yields a regex without flags, `*` keeps the receiver's flags (cflags)")
        if o.get("d", "-") != "-" and o.get("d") != sm[-1]:
            t.fail(len(tsrc), "compose:direct-oracle:" + op_name(root),
                   "%s: Regex#matches gives %s, composing the leaves' transpiled texts on the Go side gives %s" % (show_term(tsrc), sm[-1], o.get("d")),
                   base, "sm=" + sm[-1], None, "direct oracle: (?:T(l1))(?:T(l2)) / (?:..){n} over the leaves' own Transpile outputs")
        if o.get("rt", "-") != sm[-1]:
            t.fail(len(tsrc), "compose:source-reread:" + op_name(root),
                   "%s: the value matches %s, its own source %s re-compiled with its flags matches %s" % (show_term(tsrc), sm[-1], show(o.get("src")), o.get("rt")),
                   base, "sm=" + sm[-1], None, "a regex value must behave like the literal its inspect shows")
    # ---- the Elk level: the same term as an expression
    if kv.get("elk", "-") != "-":
        picks = [(j, "" if subj[j] == "e" else unhex(subj[j])) for j in range(len(subj))]
        picks = [(j, sj) for j, sj in picks if elk_subject_ok(sj)]
        if picks:
            t.elk_cases.append((cid, unhex(kv["elk"]), picks, base, o, se[-1], key, tsrc))


def step_failure(t, p, i, how):
    """report the disagreement p, attributed to subterm i"""
    subs, desc, tsrc = p["subs"], p["desc"], p["tsrc"]
    x = subs[i]
    subj = p["subj"].split(",")
    f, k = p["first"], p["k"]
    sm, se = p["sm"].split("/"), p["se"].split("/")
    sj = "" if subj[k] == "e" else unhex(subj[k])
    verdict = "subject=%r: Regex#matches says %s, the term denotes %s" % (sj, sm[f][k], se[f][k])
    if f != len(subs) - 1:
        verdict = "subterm %d, " % f + verdict
    if x[0] == "L":
        key = "match:e:" + feature_tags({"f": x[1], "ast": x[2]})
        what = "%s %s; %s: leaf %d alone differs from the Elk denotation of its tree (a leaf-level disagreement: c21.match's class)" % (
            show_term(tsrc), verdict, how, i)
    else:
        cls = [desc[j][2] for j in x[1:] if isinstance(j, int)]
        key = "compose:%s:%s" % (op_name(x), "+".join(cls))
        what = "%s %s; %s: the operands of step %d have the relation their subterms denote, the result of `%s` on operand source shape(s) %s does not%s" % (
            show_term(tsrc), verdict, how, i, "+" if x[0] == "P" else "* " + x[1], "+".join(cls),
            " (source of the result: %s)" % show(p["src"]) if i == len(subs) - 1 else "")
    t.fails.append((p["size"], key, what, "c21.compose", p["base"], "sm=" + p["sm"], "se=" + p["se"],
                    "Regex#matches of a composed regex must accept exactly the subjects the composition of the leaf denotations accepts "
                    "(C21_compose_sound / C21_compose_transpile_sound); expected verdicts computed by the extracted cden on the leaf trees"))
    return key


def diagnose_compose(ctx, t, h, m, limit):
    """the smallest failing terms again with -extra compose-diag: both sides print, for every subterm and subject, the match
    RELATION (start position -> end positions, in the context of the whole subject); the failing step is the first subterm in
    post-order whose relation differs - all its operands then have exactly the denoted relation on these subjects."""
    t.pending.sort(key=lambda p: (p["size"], p["tsrc"]))
    todo = t.pending[:limit]
    if len(t.pending) > limit:
        t.bump("disagreements beyond the %d smallest (not diagnosed individually)" % limit, len(t.pending) - limit)
    if not todo:
        return {}
    path = os.path.join(ctx.workdir, "compose_diag.txt")
    os.makedirs(ctx.workdir, exist_ok=True)
    with open(path, "w") as f:
        for p in todo:
            f.write("tsrc=%s subj=%s\n" % (p["tsrc"], p["subj"]))
    rc, out = vlib.sh([h, "-extra", "compose-diag", "-n", "0", "-input", path], timeout=900, env=vlib.elk_env())
    ids, inputs, obs = vlib.parse_case_lines(out)
    exp = {}
    if rc == 0 and ids:
        rc2, exp, mout = vlib.run_model(m, ids, inputs, timeout=900)
    keys = {}
    for n, p in enumerate(todo):
        cid = "k%d" % n
        o, e = parse_obs(obs.get(cid, "")), parse_obs(exp.get(cid) or "")
        ri, rm = o.get("rel", "").split("/"), e.get("re", "").split("/")
        where = None
        if len(ri) == len(p["subs"]) and len(rm) == len(p["subs"]):
            where = next((i for i in range(len(ri)) if ri[i] != rm[i]), None)
        if where is None:
            t.bump("diagnosis: no relation differs (first disagreeing verdict used)")
            keys[p["cid"]] = step_failure(t, p, p["first"], "located by the first disagreeing verdict")
        else:
            t.bump("diagnosis: step located by its match relation")
            keys[p["cid"]] = step_failure(t, p, where, "match relations compared subterm by subterm")
    return keys


def term_depth(subs):
    d = {}
    for i, x in enumerate(subs):
        d[i] = 0 if x[0] == "L" else 1 + max(d[j] for j in x[1:] if isinstance(j, int))
    return d[len(subs) - 1]


def elk_program(batch):
    lines = []
    for k, (cid, expr, picks, base, o, want, key, tsrc) in enumerate(batch):
        lines.append("r%d := %s" % (k, expr))
        lines.append('println("I\\t%s\\t" + r%d.inspect)' % (cid, k))
        parts = " + ".join("r%d.matches('%s').inspect" % (k, sj) for _, sj in picks)
        lines.append('println("M\\t%s\\t" + %s)' % (cid, parts))
    return "\n".join(lines) + "\n"


def run_compose_elk(ctx, t, elk, limit):
    """the terms as Elk expressions `((%/x/ + %/y/) * 2).matches('xyxy')`, many per program"""
    cases = t.elk_cases[:limit]
    per = 40
    batches = [cases[i:i + per] for i in range(0, len(cases), per)]
    progs = [("cmp%d" % i, elk_program(b)) for i, b in enumerate(batches)]
    res = vlib.run_programs(elk, progs, os.path.join(ctx.workdir, "compose"), timeout=120, env={"GOMAXPROCS": "2"})
    redo = []
    for i, b in enumerate(batches):
        rc, out, cls = res["cmp%d" % i]
        if cls != "ok":
            redo.append((i, b, out))
            continue
        read_elk_output(t, b, out)
    # a program that does not run: its cases one by one (a compile error or a raised error hides the others)
    if redo:
        t.bump("elk: programs re-run case by case", len(redo))
    singles = [c for _, b, _ in redo[:4] for c in b]
    if len(redo) > 4:
        ctx.broke("c21.compose: %d batched Elk programs failed" % len(redo), redo[4][2][-1500:])
    if singles:
        res = vlib.run_programs(elk, [("one%d" % i, elk_program([c])) for i, c in enumerate(singles)], os.path.join(ctx.workdir, "compose1"),
                                timeout=60, env={"GOMAXPROCS": "2"})
        for i, c in enumerate(singles):
            rc, out, cls = res["one%d" % i]
            if cls == "ok":
                read_elk_output(t, [c], out)
                continue
            cid, expr, picks, base, o, want, key, tsrc = c
            first = (out.strip().splitlines() or ["?"])[0][:200]
            t.bump("elk: expression failed")
            t.fail(len(tsrc), "compose:elk-error:" + cls, "%s: the Go API evaluates the term, the Elk program `%s` fails (%s): %s" % (show_term(tsrc), expr, cls, first),
                   base, out[-400:], None, "Regex#+ / Regex#* in a program are the functions of vm/regex.go")


def read_elk_output(t, batch, out):
    got = {}
    for line in out.split("\n"):
        p = line.split("\t")
        if len(p) == 3 and p[0] in ("I", "M"):
            got[(p[0], p[1])] = p[2]
    for cid, expr, picks, base, o, want, key, tsrc in batch:
        ins, mm = got.get(("I", cid)), got.get(("M", cid))
        if ins is None or mm is None:
            t.bump("elk: no output for a case")
            t.fail(len(tsrc), "compose:elk-error:no-output", "%s: the program printed nothing for `%s`" % (show_term(tsrc), expr), base, out[-300:], None,
                   "every expression prints its inspect and its verdicts")
            continue
        bits = mm.replace("true", "1").replace("false", "0")
        t.bump("elk: expressions evaluated")
        t.elk_evals += len(picks)
        src = "" if o.get("src") in ("e", None) else unhex(o.get("src"))
        want_ins = "%/" + src + "/" + ("" if o.get("fl") in ("-", None) else o.get("fl"))
        if ins != want_ins:
            t.fail(len(tsrc), "compose:elk-inspect", "%s: inspect in the program is %r, the Go API value shows %r" % (show_term(tsrc), ins, want_ins),
                   base, ins, want_ins, "the VM's `+` / `*` are value.Regex.ConcatVal / RepeatVal")
        exp_bits = "".join(want[j] for j, _ in picks)
        if bits != exp_bits and key is None:
            # the Go API agreed with the model but the program does not
            k = [j for j in range(len(bits)) if j >= len(exp_bits) or bits[j] != exp_bits[j]][0] if len(bits) == len(exp_bits) else 0
            t.fail(len(tsrc), "compose:elk-verdict", "%s: `%s.matches(%r)` gives %s in the program, the term denotes %s" % (
                show_term(tsrc), expr, picks[k][1], bits[k:k + 1], exp_bits[k:k + 1]), base, "elk=" + bits, "e=" + exp_bits,
                "Regex#matches of the composed regex vs the denotation of the term")
        elif bits != exp_bits:
            t.bump("elk: confirms the API-level failure")


RULE_COMPOSE = ("composition TERMS over regex literals: leaves = generated patterns, each with its own flag set (26% several top-level groups "
                "`(A)(B)`, `(?:A)|(?i:B)`, `(A)-(B)` - sources that begin with `(` and end with `)` without being one group; single groups; anchors and the "
                "empty regex; top-level alternations; sources that begin OR end with a group; sources ending in a quantifier; 36% the general c21.text grammar "
                "with <= 6 nodes; flags from all 64 sets, x on 1/9), combined with `+` and `* n` (n in {0,1,2,3}, weighted to 2 and 3) nested to depth 3 "
                "(<= 6 leaves), half of the terms closed with anchor leaves `^`/`\\A` + t + `$`/`\\z` (with their own flags, e.g. m); evaluated on the "
                "implementation through value.Regex ConcatVal / RepeatVal exactly as vm/regex.go registers `+` / `*`, every subterm's value matched "
                "against 8-11 subjects (<= 14 runes) drawn from the languages of the leaves: concatenations / n-fold repetitions of leaf samples, "
                "near-misses (n-1 / n+1 copies, `l r^n` and `l^n r` for (l+r)*n, one side dropped / doubled / swapped), character mutations; expected "
                "verdict of EVERY subterm = extracted cden (Model/C21_Compose.v) on the leaf trees walked from Go's regex parser - the composed source is never "
                "parsed on the model side; the first subterm (post-order) that disagrees names the failing step. Also compared: flags of the value (cflags), "
                "the direct Go-side composition of the leaves' Transpile outputs, the value's source re-compiled as a literal, and - for terms whose leaves can "
                "be written as %/../ literals - the same term as an Elk expression run by the VM (`((%/x/ + %/y/) * 2).matches('xyxy')`, inspect and verdicts). "
                "evaluations = subterm x subject verdicts; non-trivial = terms that accept some subject and reject another")


def compose_stream(ctx, h, m):
    corpus = os.path.join(vlib.ROOT, "corpus", "C21.compose.txt")
    per = ctx.n(5000, 20000)
    batches = [(ctx.sseed("c21.compose"), per, True)]
    if not ctx.quick():
        batches += [(ctx.sseed("c21.compose:%d" % b), per, False) for b in range(1, 5)]
    t = ComposeTally()
    samples = []
    broken = []

    def one(batch):
        seed, n, with_corpus = batch
        cmd = [h, "-extra", "compose", "-seed", str(seed), "-n", str(n), "-tier", ctx.tier]
        if with_corpus and os.path.exists(corpus):
            cmd += ["-input", corpus]
        rc, out = vlib.sh(cmd, timeout=3000, env=vlib.elk_env())
        ids, inputs, obs = vlib.parse_case_lines(out)
        if rc != 0 or not ids:
            return batch, rc, out[-3000:], None
        rc2, exp, mout = vlib.run_model(m, ids, inputs, timeout=3000)
        return batch, rc, "", (ids, inputs, obs, rc2, exp, mout[-2000:])

    for batch, rc, log, res in vlib.parallel_map(one, batches, workers=ctx.n(1, 3)):
        if res is None:
            ctx.broke("correspondence c21.compose: harness exited %d" % rc, log)
            continue
        ids, inputs, obs, rc2, exp, mlog = res
        if rc2 != 0:
            ctx.broke("correspondence c21.compose: model driver exited %d" % rc2, mlog)
        if batch[2]:
            pick = [i for i in ids if "st=ok" in obs[i]]
            samples = [{"input": inputs[i][:600], "observed": obs[i][:400]} for i in (pick[:2] + pick[-1:])]
        for i in ids:
            check_compose_case(t, i, inputs[i], obs[i], exp.get(i), lambda w: broken.append(w))
    for w in broken[:5]:
        ctx.broke("correspondence c21.compose: " + w)
    diagnose_compose(ctx, t, h, m, ctx.n(60, 400))
    if t.elk_cases:
        elk = vlib.build_elk()
        # corpus cases first (they come first), then the generated ones
        run_compose_elk(ctx, t, elk, ctx.n(600, 12000))
    t.fails.sort(key=lambda x: (x[0], x[1]))
    seen = {}
    for size, key, what, stream, case, impl, model, oracle in t.fails:
        seen[key] = seen.get(key, 0) + 1
        if seen[key] <= 3:
            ctx.fail(key, what, stream=stream, case=case, impl=impl, model=model, oracle=oracle)
    ctx.stream("c21.compose", t.evals + t.elk_evals, len(t.nontrivial), RULE_COMPOSE, samples, t.dist,
               mismatches=t.mism, failing_keys=sorted(seen), terms=t.cases, elk_expressions=t.dist.get("elk: expressions evaluated", 0),
               elk_verdicts=t.elk_evals)


RULE_TEXT = ("grammar-directed Elk regex sources (<= 12 nodes: literals incl. case-fold and whitespace specials, all escape forms, . anchors, "
             "\\d\\w\\s\\h\\v and negations at top level / in classes / in negated classes, \\p, POSIX classes, ranges, groups (capturing, "
             "non-capturing, 3 named forms), flag groups - bare `(?..)` in concatenations and alternatives and scoped `(?..:..)`, each SETTING and/or "
             "UNSETTING any subset of i m s U x a (x weighted up; `(?-x)`, `(?x-x)`, `(?i-x:..)` ...), 1/6 of the patterns flag-group-heavy - all "
             "quantifier forms and lazy variants) x all 64 flag sets (weighted to few flags), 1/3 with x on the literal. The generator tracks the x "
             "state the text prescribes: where x is on it sprinkles whitespace / # comments (some containing | ( * #); where x has been switched OFF "
             "(after `(?-x)`, inside `(?-x:..)`, before a later `(?x)`) it writes the same text, which is then literal; after every flag group, at the "
             "start of a scoped group's body and after its end it writes `#`, whitespace, `#..\\n` probes whatever the state is. Every 4th case is a "
             "char-level mutation (delete/insert/duplicate) of such a source; corpus first. Go's own parser output is walked into the model's tree; "
             "compared: emitted text exactly (model transpile_text vs regex.Transpile), and for every pattern with x on the literal or in a flag "
             "group the direct oracle Transpile(src,f) = Transpile(xstrip(src), f-x), xstrip = a source-level scanner that follows the x state through "
             "bare and scoped flag groups and removes comments and whitespace only where x is on, without fusing tokens (after an octal escape "
             "`\\0 5` it leaves the empty comment group `(?#)` so that the digit does not join the escape); a disagreement is classified by defusing "
             "suspected causes in the source - one cause, or the smallest set of causes that restores agreement, reported under the class key of each; "
             "non-trivial = parsed and transpiled without error, distinct by (flags, source)")
RULE_MATCH = ("cases of c21.text whose emitted text Go compiles and equals the model's: 6-10 subjects (<= 6 runes: the empty string, samples "
              "drawn by walking the tree - class members, range ends and neighbours, case-fold orbit members - their mutations, random picks from the "
              "special alphabet incl. \\n); regexp.MatchString vs matches_re2 on the emitted term (validates the Go-semantics assumption) and vs "
              "matches_elk on the tree (the property; patterns without x); third oracle, Go's regexp against itself: the emitted text with the "
              "empty group `(?:)` written in front of every alternative (same language, but Go's parser cannot factor the alternation) must give the "
              "same verdicts - where it does not and the guarded verdicts are the expected ones, the failure is keyed match:go-regexp:* (a defect of the "
              "trusted reference, not of the transpiler); evaluations = subject evaluations; non-trivial = patterns that accept some subject and "
              "reject another")


def run(ctx):
    # EXPLANATION: filled in by b-c21-c03
    ctx.explanation = (
        "PROVED in Coq (Props/C21.v), for every syntax tree, every flag set WITHOUT extended mode, every subject and every choice of "
        "the Unicode oracles: when the transpiler model reports no failure, the emitted Go (RE2) term denotes the same position-set "
        "transformer as the Elk tree, hence accepts exactly the same subjects (C21_denotation, C21_transpile_sound; all node kinds, the "
        "three class modes, flags i m s U a with scoping); flags set in a group never leak (C21_flag_scoping, C21_flag_groups); "
        "+ and * on regexes denote composition and iteration (C21_concat, C21_repeat), and - third pass - so does every NESTING of them: for "
        "every composition term over regex literals (each leaf with its own flags), the value built step by step like value/regex.go builds it "
        "denotes the composition of the leaf denotations (C21_compose_sound, induction on the term), with any other way of wrapping the sources "
        "that is right for one step (C21_compose_any_wrapping), and its compiled Go matcher accepts exactly what the term denotes "
        "(C21_compose_transpile_sound; leaves without x). C21_extended_refuted: with flag x the faithful "
        "model turns `a # x|y\\nb` into `a|yb`. Extended mode, what holds: C21_extended_partial (global x, no flag group mentioning x, no `#`) and, "
        "second pass, C21_extended_flags_partial / C21_extended_flags_sound: for EVERY tree and flag set, with x switched on and off by the "
        "literal and by bare `(?x)` `(?-x)` and scoped `(?x:..)` `(?-x:..)` groups in any nesting, if no `#` character node stands where x is on "
        "(a `#` where the text switched x off is a literal and allowed: `a(?-x)#b`), Transpile emits exactly the text of the tree with the "
        "whitespace of the x-on stretches removed and x erased from all flag groups, transpiled without x - and that tree is in the scope of "
        "C21_transpile_sound. Comments themselves (a `#` where x is on) are still covered by no theorem. NOT PROVED, TESTED ONLY: (a) that the Go "
        "transpiler IS the model - stream c21.text compares the emitted text exactly, on trees returned by Go's own regex parser, including "
        "generated bare/scoped flag groups that set and unset every flag followed by `#`, whitespace and comments; (b) that Go's regexp reads the "
        "printed text as the structured term and implements the assumed semantics m2, and that the compiled matcher accepts what the Elk tree "
        "denotes - stream c21.match; (c) comments and the source-level reading of extended mode: text comparison plus the direct oracle "
        "Transpile(src, f) == Transpile(xstrip(src), f - x) on the implementation's own outputs, where xstrip (harness, independent of lexer, parser "
        "and transpiler) follows the x state through the flag groups of the source text; (d) that Regex#+ / Regex#* (ConcatVal / RepeatVal: glue the "
        "operands' SOURCES into a new source, parse and transpile it again) build the value the composition theorems speak about - stream "
        "c21.compose: generated terms (`+`, `* n` with n in 0..3, depth <= 3) over generated leaves incl. sources that begin with `(` and end with `)` "
        "without being one group, top-level alternations, anchors, the empty regex, evaluated through the Go API that vm/regex.go registers and as Elk "
        "expressions in the VM, on subjects built from samples of the leaves' languages and their near-misses; the expected verdict of every subterm "
        "is the extracted denotation cden computed from the LEAF trees only (the composed source is never parsed on the model side); leaves with x "
        "enter with the stripped tree of C21_extended_flags_sound, terms with a leaf that has a comment or lies in a c21.match known-finding "
        "class are not evaluated. A failing term is attributed to the innermost step whose match relation (start -> end positions on the "
        "subjects) differs from the denoted one. Unicode tables, fold orbits and POSIX "
        "tables are oracles instantiated per case from the live Go packages. Go's regexp is the trusted reference for the emitted text EXCEPT for "
        "one recorded deviation, found by c21.match and confirmed with a plain Go program (Go 1.25.0): regexp/syntax factors alternations while parsing and "
        "compares the leading one-rune literals of two alternatives ignoring the case-insensitivity flag, so `Z(?i).|z` is compiled as `Z(?:.|(?:))` "
        "and %/Z(?i).|z/ does not match \"z\" (known finding match:go-regexp:alternation-factoring-ignores-case-flag; the theorems speak about the "
        "ideal RE2 semantics m2, which accepts \"z\"). The streams detect it without the model: the emitted text and the same text with `(?:)` in "
        "front of every alternative must give the same verdicts. The model mirrors the code AFTER fixes/C21-global-flags.patch "
        "and fixes/C21-empty-split-class.patch; on a tree without them the check reports those two defects.")
    ctx.trusted_base += [
        "Go regexp/syntax + regexp engine: trusted specification of the emitted RE2 subset (m2 in Model/C21_RegexSem.v), validated per case by stream c21.match; "
        "one recorded deviation of the real engine from m2: alternation factoring in regexp/syntax ignores the case flag of a leading one-rune literal "
        "(`Z(?i).|z` vs \"z\"; known finding match:go-regexp:alternation-factoring-ignores-case-flag, classified by the guard oracle: same text with `(?:)` "
        "in front of every alternative)",
        "unicode tables (Categories/Scripts), POSIX class tables and unicode.SimpleFold orbits: section oracles, dumped per case from the live Go packages for "
        "the runes of the subjects and their orbit members",
        "harness AST walker (harness/cmd/c21): the tree the model sees is the one regex/parser returned, serialised node by node; regex/lexer and regex/parser "
        "themselves are NOT modelled",
        "c21.compose: the leaf trees are those regex/parser returned for the leaf sources (same walker); the second oracle composes the leaves' own "
        "Transpile outputs with Go's regexp (`(?:T1)(?:T2)`, `(?:T){n}`); the diagnosis of a failing step reads a value's match relation through Go's regexp "
        "on `\\A(?s:.{i})(?:text)(?s:.{k})\\z`; the Elk-level runs cover only leaves writable as %/../ literals (no `/`, `${`, control characters) and subjects writable "
        "as raw strings",
        "second oracle for extended mode: xScan/xStrip in harness/cmd/c21 (follows x through bare and scoped flag groups of the source text; where x is on, "
        "comments and unescaped whitespace outside classes, escapes, \\Q..\\E and (?#..) are removed; tokens are never fused: where text is removed between an "
        "octal escape and a digit it writes the empty comment group `(?#)`, which the regex lexer drops; its reading of where a class ends is Go's, not the "
        "Elk parser's)",
    ]
    ctx.run_proof_gate()
    h = vlib.build_harness("c21")
    m = vlib.build_model_exact("C21")
    corpus = os.path.join(vlib.ROOT, "corpus", "C21.text.txt")
    per = ctx.n(6000, 10000)
    batches = [(ctx.sseed("c21.text"), per, True)]
    if not ctx.quick():
        batches += [(ctx.sseed("c21.text:%d" % b), per, False) for b in range(1, 10)]

    t = Tally()
    samples = []
    broken = []

    def one(batch):
        seed, n, with_corpus = batch
        cmd = [h, "-seed", str(seed), "-n", str(n), "-tier", ctx.tier]
        if with_corpus and os.path.exists(corpus):
            cmd += ["-input", corpus]
        rc, out = vlib.sh(cmd, timeout=3000, env=vlib.elk_env())
        ids, inputs, obs = vlib.parse_case_lines(out)
        if rc != 0 or not ids:
            return batch, rc, out[-3000:], None
        rc2, exp, mout = vlib.run_model(m, ids, inputs, timeout=3000)
        return batch, rc, "", (ids, inputs, obs, rc2, exp, mout[-2000:])

    for batch, rc, log, res in vlib.parallel_map(one, batches, workers=ctx.n(1, 3)):
        if res is None:
            ctx.broke("correspondence c21.text: harness exited %d" % rc, log)
            continue
        ids, inputs, obs, rc2, exp, mlog = res
        if rc2 != 0:
            ctx.broke("correspondence c21.text: model driver exited %d" % rc2, mlog)
        if batch[2]:
            pick = [i for i in ids if "go=ok" in obs[i]]
            samples = [{"input": inputs[i][:500], "observed": obs[i][:300]} for i in (ids[:1] + pick[:2] + pick[-1:])]
        for i in ids:
            check_case(t, i, inputs[i], obs[i], exp.get(i), lambda w: broken.append(w))
    for w in broken[:5]:
        ctx.broke("correspondence c21: " + w)

    t.trim()
    t.fails.sort(key=lambda x: (x[0], x[1]))
    seen = {"c21.text": {}, "c21.match": {}}
    for size, key, what, stream, case, impl, model, oracle in t.fails:
        d = seen[stream]
        d[key] = d.get(key, 0) + 1
        if d[key] <= 3:
            ctx.fail(key, what, stream=stream, case=case, impl=impl, model=model, oracle=oracle)
    ctx.stream("c21.text", t.cases, len(t.text_nontrivial), RULE_TEXT, samples, t.text_dist,
               mismatches=t.text_mism, failing_keys=sorted(seen["c21.text"]), batches=len(batches))
    ctx.stream("c21.match", t.match_evals, len(t.match_nontrivial), RULE_MATCH,
               [s for s in samples if "go=ok" in s["observed"]][:3], t.match_dist,
               mismatches=t.match_mism, failing_keys=sorted(seen["c21.match"]), patterns=t.match_cases)
    compose_stream(ctx, h, m)
