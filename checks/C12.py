"""C12 — type-checking verdicts survive meaning-preserving edits.

Stream c12.edits: seeded, type-directed programs of three families - core (the fragment of Model/C12_Checker.v), scoped
(the fragment of Model/C12_Scopes.v: throw signatures, throw, do/catch, closures with parameters / return type / declared
or inferred throw type, calls of throwing methods and closures; generated well-typed by tracking the catch-scope stack),
extended (generator methods, arithmetic, if / while / do-catch / throw, block closures with explicit returns, prints) -,
a part of them with one injected error, and for each program a set of edits: an unused local (value or one of seven kinds
of closure literal, among them closures that carry their OWN catch scope: throw signature, do/catch inside, nested
throw-annotated closure) inserted before a statement of any block (method body, if/else, loop, do body, catch handler,
closure body, top level), a local renamed consistently, a sub-expression parenthesised, the method definitions permuted.
Oracle 1 (metamorphic, on the real elk): verdict, number of diagnostics and stdout of the edited program equal the
original's.  Oracle 2: for programs inside a model fragment the verdict of the extracted checker models (fixed register
handling) equals elk's, for the original and every edit.

AST (Python lists):
  expr  ['lit', ty, text] | ['var', x] | ['clos', e] | ['par', e] | ['call', f] | ['meth', m]
      | ['bin', op, a, b] | ['iclos', e] | ['callb', f, arg]
  stmt  ['let', x, e] | ['set', x, e] | ['ex', e] | ['ret', e] | ['print', e] | ['retif', c, e] | ['yield', e]
      | ['if', c, [..], [..]] | ['loop', i, n, [..]] | ['docatch', [..], [..]] | ['throwif', c, text]
      | ['letb', f, p, pty, rty, [..]]           (f := |p: pty|: rty -> ... end ; the block ends with ['ret', e])
      | ['throwc', c|None, cls]                  (throw cls("boom") [if c])
      | ['doc', [..], [cls..], [..]]             (do .. catch cls() .. [catch cls2() ..] end ; same handler per clause)
      | ['letc', f, [[p, pty]..], rty|None, [cls..]|None, [..]]   (f := |p: pty|: rty ! cls | .. -> ... end)
  main also has ['forin', x, m] (for x in m() println(x.inspect) end)
  method ['m', name, kind, rt, [stmts]] or ['m', name, kind, rt, [stmts], [cls..]]  (def name: rt ! cls | ..)   kind 'plain' | 'gen'
  program {'methods': [...], 'main': [...]}
"""
import copy
import os
import re
import vlib

STREAM = "c12.edits"
TYPES = ["Int", "String", "Bool"]
EXC = ["FormatError", "OutOfRangeError", "ZeroDivisionError", "IndexError"]   # unrelated classes under Std::Error
PROG_EXC = EXC[:3]          # classes used by generated programs; IndexError is kept for inserted closures
MODEL_TY = {"Int": "int", "String": "str", "Bool": "bool", "nil": "nil"}


# ------------------------------------------------------------------ printing

def atom(e):
    s = pe(e)
    return "(" + s + ")" if e[0] in ("bin", "clos") else s


def pe(e):
    k = e[0]
    if k == "lit":
        return e[2]
    if k == "var":
        return e[1]
    if k == "clos":
        return "-> " + pe(e[1])
    if k == "par":
        return "(" + pe(e[1]) + ")"
    if k == "call":
        return atom(e[1]) + ".()"
    if k == "callb":
        return atom(e[1]) + ".(" + pe(e[2]) + ")"
    if k == "meth":
        return e[1] + "()"
    if k == "bin":
        return atom(e[2]) + " " + e[1] + " " + atom(e[3])
    if k == "iclos":
        return "(-> " + pe(e[1]) + ").()"
    raise ValueError(e)


def ps(s, ind):
    p = "  " * ind
    k = s[0]
    if k == "let":
        return [p + s[1] + " := " + pe(s[2])]
    if k == "set":
        return [p + s[1] + " = " + pe(s[2])]
    if k == "ex":
        return [p + pe(s[1])]
    if k == "ret":
        return [p + "return " + pe(s[1])]
    if k == "print":
        return [p + "println(" + atom(s[1]) + ".inspect)"]
    if k == "retif":
        return [p + "return " + pe(s[2]) + " if " + pe(s[1])]
    if k == "yield":
        return [p + "yield " + pe(s[1])]
    if k == "throwif":
        return [p + "throw " + s[2] + " if " + pe(s[1])]
    if k == "if":
        out = [p + "if " + pe(s[1])] + pb(s[2], ind + 1)
        if s[3]:
            out += [p + "else"] + pb(s[3], ind + 1)
        return out + [p + "end"]
    if k == "loop":
        return [p + s[1] + " := 0", p + "while " + s[1] + " < " + str(s[2])] + pb(s[3], ind + 1, allow_empty=True) + \
            [p + "  " + s[1] + " = " + s[1] + " + 1", p + "end"]
    if k == "docatch":
        return [p + "do"] + pb(s[1], ind + 1) + [p + "catch String() as err"] + pb(s[2], ind + 1) + [p + "end"]
    if k == "letb":
        return [p + "%s := |%s: %s|: %s ->" % (s[1], s[2], s[3], s[4])] + pb(s[5], ind + 1) + [p + "end"]
    if k == "throwc":
        return [p + "throw %s(\"boom\")" % s[2] + (" if " + pe(s[1]) if s[1] is not None else "")]
    if k == "doc":
        out = [p + "do"] + pb(s[1], ind + 1)
        for cls in s[2]:
            out += [p + "catch %s()" % cls] + pb(s[3], ind + 1)
        return out + [p + "end"]
    if k == "letc":
        return [p + "%s := %s" % (s[1], closure_head(s[2], s[3], s[4]))] + pb(s[5], ind + 1) + [p + "end"]
    if k == "forin":      # main only: consume a generator
        return [p + "for %s in %s()" % (s[1], s[2]), p + "  println(%s.inspect)" % s[1], p + "end"]
    raise ValueError(s)


def closure_head(params, rty, thr):
    if not params and rty is None and thr is None:
        return "->"
    h = "|" + ", ".join("%s: %s" % (q, t) for q, t in params) + "|"
    if rty is not None:
        h += ": " + rty
    if thr is not None:
        h += " ! " + " | ".join(thr)
    return h + " ->"


def mthr(m):
    return m[5] if len(m) > 5 else []


def pb(b, ind, allow_empty=False):
    out = []
    for s in b:
        out += ps(s, ind)
    if not out and not allow_empty:
        out = ["  " * ind + "nil"]
    return out


def elk_program(prog):
    out = []
    for m in prog["methods"]:
        _, name, kind, rt, body = m[:5]
        out.append("def %s%s: %s%s" % ("*" if kind == "gen" else "", name, rt,
                                       " ! " + " | ".join(mthr(m)) if mthr(m) else ""))
        out += pb(body, 1)
        out.append("end")
        out.append("")
    out += pb(prog["main"], 0, allow_empty=True)
    return "\n".join(out) + "\n"


# ------------------------------------------------------------------ to the model (core fragment only)

class NotCore(Exception):
    pass


def mname(x, table):
    if x not in table:
        table[x] = str(len(table))
    return table[x]


def m_expr(e, names):
    k = e[0]
    if k == "lit":
        return "(lit %s)" % MODEL_TY[e[1]]
    if k == "var":
        return "(var %s)" % mname(e[1], names)
    if k == "clos":
        return "(clos %s)" % m_expr(e[1], names)
    if k == "par":
        return "(par %s)" % m_expr(e[1], names)
    if k == "call":
        return "(call %s)" % m_expr(e[1], names)
    if k == "meth":
        return "(meth %s)" % mname("@" + e[1], names)
    raise NotCore(k)


def m_stmt(s, names):
    k = s[0]
    if k in ("let", "set"):
        return "(%s %s %s)" % (k, mname(s[1], names), m_expr(s[2], names))
    if k == "ex":
        return "(ex %s)" % m_expr(s[1], names)
    if k == "ret":
        return "(ret %s)" % m_expr(s[1], names)
    raise NotCore(k)


def model_input(prog):
    """s-expression of the program, or None when it is outside the modelled fragment"""
    names = {}
    try:
        ms = []
        for mm in prog["methods"]:
            _, name, kind, rt, body = mm[:5]
            if kind != "plain" or mthr(mm):
                raise NotCore(kind)
            ms.append("(m %s %s %s)" % (mname("@" + name, names), MODEL_TY[rt], " ".join(m_stmt(s, names) for s in body)))
        mn = []
        for s in prog["main"]:
            if s[0] == "print" and s[1][0] == "meth":       # println(m().inspect): an expression statement calling m
                mn.append("(ex %s)" % m_expr(s[1], names))
            elif s[0] == "let" and s[1].startswith("unused"):
                mn.append(m_stmt(s, names))
            else:
                raise NotCore(s[0])
        return "(prog (methods %s) (main %s))" % (" ".join(ms), " ".join(mn))
    except NotCore:
        return None


# ------------------------------------------------------------------ to the model with catch scopes (Model/C12_Scopes.v)

def m2_clos(params, rty, thr, body, names):
    return "(clos (params %s) (rt %s) (thr %s) %s)" % (
        " ".join("(%s %s)" % (mname(q, names), MODEL_TY[t]) for q, t in params),
        MODEL_TY[rty] if rty is not None else "none",
        " ".join(str(EXC.index(c)) for c in thr) if thr is not None else "none",
        " ".join(body))


def m2_expr(e, names):
    k = e[0]
    if k == "lit":
        return "(lit %s)" % MODEL_TY[e[1]]
    if k == "var":
        return "(var %s)" % mname(e[1], names)
    if k == "clos":
        return m2_clos([], None, None, [m2_expr(e[1], names)], names)
    if k == "par":
        return "(par %s)" % m2_expr(e[1], names)
    if k == "call":
        return "(call %s)" % m2_expr(e[1], names)
    if k == "meth":
        return "(meth %s)" % mname("@" + e[1], names)
    raise NotCore(k)


def m2_stmt(s, names):
    k = s[0]
    if k == "let":
        return "(%s %s %s)" % ("unused" if s[1].startswith("unused") else "let", mname(s[1], names), m2_expr(s[2], names))
    if k == "set":
        return "(set %s %s)" % (mname(s[1], names), m2_expr(s[2], names))
    if k in ("ex", "print"):         # println(e.inspect): an expression statement as far as the checker model goes
        return "(ex %s)" % m2_expr(s[1], names)
    if k == "ret":
        return "(ret %s)" % m2_expr(s[1], names)
    if k == "throwc":                # the condition (a comparison of Int locals / literals) cannot produce a diagnostic
        return "(throw %d)" % EXC.index(s[2])
    if k == "doc":
        return "(do (body %s) (catch %s) (handler %s))" % (
            " ".join(m2_stmt(x, names) for x in s[1]), " ".join(str(EXC.index(c)) for c in s[2]),
            " ".join(m2_stmt(x, names) for x in s[3]))
    if k == "letc":
        return "(%s %s %s)" % ("unused" if s[1].startswith("unused") else "let", mname(s[1], names),
                               m2_clos(s[2], s[3], s[4], [m2_stmt(x, names) for x in s[5]], names))
    if k == "letb":
        return "(%s %s %s)" % ("unused" if s[1].startswith("unused") else "let", mname(s[1], names),
                               m2_clos([[s[2], s[3]]], s[4], None, [m2_stmt(x, names) for x in s[5]], names))
    raise NotCore(k)


def model_input2(prog):
    """s-expression for the checker model with catch scopes, or None outside its fragment"""
    names = {}
    try:
        ms = []
        for mm in prog["methods"]:
            _, name, kind, rt, body = mm[:5]
            if kind != "plain":
                raise NotCore(kind)
            ms.append("(m %s %s (thr %s) %s)" % (mname("@" + name, names), MODEL_TY[rt],
                                                 " ".join(str(EXC.index(c)) for c in mthr(mm)),
                                                 " ".join(m2_stmt(x, names) for x in body)))
        mn = [m2_stmt(x, names) for x in prog["main"]]
        return "(prog2 (methods %s) (main %s))" % (" ".join(ms), " ".join(mn))
    except NotCore:
        return None



# ------------------------------------------------------------------ generator

class Gen:
    def __init__(self, rng, core):
        self.r = rng
        self.core = core
        self.n = 0
        self.dist = {}

    def count(self, k):
        self.dist[k] = self.dist.get(k, 0) + 1

    def fresh(self, p="v"):
        self.n += 1
        return "%s%d" % (p, self.n)

    def lit(self, ty):
        if ty == "Int":
            return ["lit", "Int", str(self.r.below(20))]
        if ty == "String":
            return ["lit", "String", '"s%d"' % self.r.below(9)]
        if ty == "Bool":
            return ["lit", "Bool", self.r.choice(["true", "false"])]
        return ["lit", "nil", "nil"]

    def expr(self, ty, env, methods, depth):
        """env: list of (name, type) with type 'Int'|'String'|'Bool'|('fn', ty)|('fnb', pty, rty)"""
        r = self.r
        c = r.below(100)
        vars_ = [x for x, t in env if t == ty]
        fns = [x for x, t in env if t == ("fn", ty)]
        fnbs = [(x, t) for x, t in env if isinstance(t, tuple) and t[0] == "fnb" and t[2] == ty]
        ms = [m for m in methods if m[2] == "plain" and m[3] == ty]
        if c < 25 and vars_:
            self.count("var")
            return ["var", r.choice(vars_)]
        if c < 38 and fns:
            self.count("call")
            return ["call", ["var", r.choice(fns)]]
        if c < 48 and ms:
            self.count("meth")
            return ["meth", r.choice(ms)[1]]
        if c < 54 and depth > 0:
            self.count("par")
            return ["par", self.expr(ty, env, methods, depth - 1)]
        if not self.core and depth > 0:
            if c < 72:
                if ty == "Int":
                    self.count("arith")
                    return ["bin", r.choice(["+", "-", "*"]), self.expr("Int", env, methods, depth - 1),
                            self.expr("Int", env, methods, depth - 1)]
                if ty == "String":
                    self.count("concat")
                    return ["bin", "+", self.expr("String", env, methods, depth - 1), self.expr("String", env, methods, depth - 1)]
                iv = [x for x, t in env if t == "Int"]
                if iv:
                    self.count("compare")
                    return ["bin", r.choice(["<", ">", "=="]), ["var", r.choice(iv)], self.expr("Int", env, methods, depth - 1)]
            if c < 78:
                self.count("iclos")
                return ["iclos", self.expr(ty, env, methods, depth - 1)]
            if c < 86 and fnbs:
                f, t = r.choice(fnbs)
                self.count("callb")
                return ["callb", ["var", f], self.expr(t[1], env, methods, depth - 1)]
        return self.lit(ty)

    def cond(self, env, methods):
        iv = [x for x, t in env if t == "Int"]
        if iv:
            return ["bin", self.r.choice(["<", ">"]), ["var", self.r.choice(iv)], self.lit("Int")]
        bv = [x for x, t in env if t == "Bool"]
        if bv:
            return ["var", self.r.choice(bv)]
        return None

    def block(self, env, methods, n, depth, kind, rt):
        """statements that do not end the block; env is extended in place (caller passes a copy for inner blocks)"""
        r = self.r
        out = []
        for _ in range(n):
            c = r.below(100)
            if c < 30:
                x = self.fresh()
                if r.chance(1, 3):
                    ty = r.choice(TYPES)
                    self.count("let_closure")
                    out.append(["let", x, ["clos", self.expr(ty, env, methods, 1)]])
                    env.append((x, ("fn", ty)))
                else:
                    ty = r.choice(TYPES)
                    self.count("let")
                    out.append(["let", x, self.expr(ty, env, methods, 2)])
                    env.append((x, ty))
            elif c < 42:
                vs = [(x, t) for x, t in env if t in TYPES and not x.startswith("i")]
                if vs:
                    x, t = r.choice(vs)
                    self.count("set")
                    out.append(["set", x, self.expr(t, env, methods, 2)])
                else:
                    self.count("ex")
                    out.append(["ex", self.expr(r.choice(TYPES), env, methods, 1)])
            elif c < 50:
                self.count("ex")
                out.append(["ex", self.expr(r.choice(TYPES), env, methods, 1)])
            elif self.core:
                x = self.fresh()
                ty = r.choice(TYPES)
                self.count("let")
                out.append(["let", x, self.expr(ty, env, methods, 2)])
                env.append((x, ty))
            elif c < 62:
                self.count("print")
                out.append(["print", self.expr(r.choice(TYPES), env, methods, 2)])
            elif c < 70 and depth > 0:
                cnd = self.cond(env, methods)
                if cnd:
                    self.count("if")
                    out.append(["if", cnd, self.block(list(env), methods, r.range(1, 2), depth - 1, kind, rt),
                                self.block(list(env), methods, r.range(0, 2), depth - 1, kind, rt)])
            elif c < 76 and depth > 0:
                self.count("loop")
                i = self.fresh("i")
                out.append(["loop", i, r.range(1, 3), self.block(list(env) + [(i, "Int")], methods, r.range(1, 2), depth - 1, kind, rt)])
            elif c < 82 and depth > 0:
                cnd = self.cond(env, methods)
                self.count("docatch")
                body = self.block(list(env), methods, r.range(1, 2), depth - 1, kind, rt)
                if cnd:
                    body.insert(r.below(len(body) + 1), ["throwif", cnd, '"boom"'])
                out.append(["docatch", body, [["print", ["lit", "String", '"caught"']]]])
            elif c < 90:
                f, p = self.fresh("f"), self.fresh("p")
                pty, rty = r.choice(TYPES), r.choice(TYPES)
                inner = list(env) + [(p, pty)]
                body = self.block(inner, methods, r.range(0, 2), 0, "closure", rty)
                cnd = self.cond(inner, methods)
                if cnd and r.chance(1, 2):
                    body.append(["retif", cnd, self.expr(rty, inner, methods, 1)])
                body.append(["ret", self.expr(rty, inner, methods, 1)])
                self.count("closure_block")
                out.append(["letb", f, p, pty, rty, body])
                env.append((f, ("fnb", pty, rty)))
            elif kind == "gen":
                self.count("yield")
                out.append(["yield", self.expr(rt, env, methods, 1)])
            elif kind == "plain" and rt:
                cnd = self.cond(env, methods)
                if cnd:
                    self.count("early_return")
                    out.append(["retif", cnd, self.expr(rt, env, methods, 1)])
        return out

    def method(self, idx, methods):
        r = self.r
        kind = "gen" if (not self.core and r.chance(1, 4)) else "plain"
        rt = r.choice(TYPES)
        env = []
        if kind == "gen":
            methods = []       # a generator body calling a user method crashes the VM (DESIGN section 6 #11, C15/C01) - kept out
        body = self.block(env, methods, r.range(1, 5), 2, kind, rt)
        if kind == "gen":
            body.append(["yield", self.expr(rt, env, methods, 1)])
            body.append(["ex", self.expr(rt, env, methods, 1)])      # the value of the body is the last element
            if r.chance(1, 2):
                x = self.fresh()
                body.insert(r.below(len(body) - 1), ["let", x, ["clos", self.lit("Int")]])
            self.count("generator_method")
        else:
            body.append(["ret", self.expr(rt, env, methods, 2)])
            self.count("method")
        return ["m", "m%d" % idx, kind, rt, body]


class ScopedGen:
    """programs inside the fragment of Model/C12_Scopes.v: methods with throw signatures, `throw`, do/catch (one or
    two classes), closures with parameters / declared return type / declared or inferred throw type, calls of throwing
    methods and closures - generated well-typed by tracking the catch-scope stack"""

    def __init__(self, rng):
        self.r = rng
        self.n = 0
        self.dist = {}

    count = Gen.count
    fresh = Gen.fresh
    lit = Gen.lit

    @staticmethod
    def covered(thr, scopes):
        return not thr or any(set(thr) <= set(sc) for sc in scopes)

    def classes(self, lo=1):
        k = self.r.range(lo, 2)
        cs = list(PROG_EXC)
        self.r.shuffle(cs)
        return sorted(cs[:k])

    def expr(self, ty, env, methods, scopes, depth, thrown=None):
        """thrown: when a list, throwing callees need not be covered - their classes are appended (inferring closure)"""
        r = self.r
        c = r.below(100)
        ok = lambda thr: thrown is not None or self.covered(thr, scopes)
        vars_ = [x for x, t in env if t == ty]
        fns = [(x, t) for x, t in env if isinstance(t, tuple) and t[0] == "fn" and t[1] == ty and ok(t[2])]
        ms = [m for m in methods if m[3] == ty and ok(mthr(m))]
        tms = [m for m in ms if mthr(m)]
        if c < 22 and vars_:
            self.count("var")
            return ["var", r.choice(vars_)]
        if c < 40 and fns:
            f, t = r.choice(fns)
            self.count("call_throwing_closure" if t[2] else "call")
            if thrown is not None and not self.covered(t[2], scopes):
                thrown += t[2]
            return ["call", ["var", f]]
        if c < 62 and ms:
            m = r.choice(tms) if tms and r.chance(2, 3) else r.choice(ms)
            self.count("call_throwing_method" if mthr(m) else "meth")
            if thrown is not None and not self.covered(mthr(m), scopes):
                thrown += mthr(m)
            return ["meth", m[1]]
        if c < 68 and depth > 0:
            self.count("par")
            return ["par", self.expr(ty, env, methods, scopes, depth - 1, thrown)]
        return self.lit(ty)

    def cond(self, env):
        iv = [x for x, t in env if t == "Int"]
        if iv and self.r.chance(2, 3):
            return ["bin", self.r.choice(["<", ">"]), ["var", self.r.choice(iv)], self.lit("Int")]
        return ["bin", self.r.choice(["<", ">"]), self.lit("Int"), self.lit("Int")]

    def block(self, env, methods, scopes, n, depth, thrown=None):
        r = self.r
        out = []
        for _ in range(n):
            c = r.below(100)
            if c < 24:
                x, ty = self.fresh(), r.choice(TYPES)
                self.count("let")
                out.append(["let", x, self.expr(ty, env, methods, scopes, 1, thrown)])
                env.append((x, ty))
            elif c < 32:
                x, ty = self.fresh(), r.choice(TYPES)
                th = []
                self.count("let_closure")
                out.append(["let", x, ["clos", self.expr(ty, env, methods, [], 1, th)]])
                env.append((x, ("fn", ty, sorted(set(th)))))
            elif c < 38:
                vs = [(x, t) for x, t in env if t in TYPES and x.startswith("v")]      # locals, not parameters
                if vs:
                    x, t = r.choice(vs)
                    self.count("set")
                    out.append(["set", x, self.expr(t, env, methods, scopes, 1, thrown)])
            elif c < 45:
                self.count("print")
                out.append(["print", self.expr(r.choice(TYPES), env, methods, scopes, 1, thrown)])
            elif c < 58:
                live = sorted(set(x for sc in scopes for x in sc))
                if live:
                    self.count("throw")
                    out.append(["throwc", self.cond(env), r.choice(live)])
                elif thrown is not None and r.chance(1, 2):
                    cls = r.choice(PROG_EXC)
                    thrown.append(cls)
                    self.count("throw_inferred")
                    out.append(["throwc", self.cond(env), cls])
            elif c < 76 and depth > 0:
                cs = self.classes()
                self.count("docatch")
                body = self.block(list(env), methods, scopes + [cs], r.range(1, 3), depth - 1, thrown)
                if r.chance(3, 4):
                    body.insert(r.below(len(body) + 1), ["throwc", self.cond(env), r.choice(cs)])
                handler = [["print", ["lit", "String", '"caught"']]]
                if r.chance(1, 3):
                    handler = self.block(list(env), methods, scopes, 1, 0, thrown) + handler
                out.append(["doc", body, cs, handler])
            elif c < 92:
                f = self.fresh("f")
                params = [[self.fresh("p"), r.choice(TYPES)]] if r.chance(1, 2) else []
                rty = r.choice(TYPES)
                declared_rt = r.chance(1, 2)
                thr = self.classes() if r.chance(3, 5) else None
                inner = list(env) + [(q, t) for q, t in params]
                th = [] if thr is None else None
                body = self.block(inner, methods, [thr] if thr else [], r.range(0, 2), min(depth, 1), th)
                val = self.expr(rty, inner, methods, [thr] if thr else [], 1, th)
                body.append(["ret", val] if declared_rt and r.chance(1, 2) else ["ex", val])
                self.count("closure_throws" if thr else "closure_block")
                out.append(["letc", f, params, rty if declared_rt else None, thr, body])
                if not params:
                    env.append((f, ("fn", rty, thr if thr is not None else sorted(set(th)))))
        return out

    def method(self, idx, methods):
        r = self.r
        rt = r.choice(TYPES)
        thr = self.classes() if r.chance(3, 5) else []
        env = []
        scopes = [thr] if thr else []
        body = self.block(env, methods, scopes, r.range(2, 5), 2)
        body.append(["ret", self.expr(rt, env, methods, scopes, 1)])
        self.count("method_throws" if thr else "method")
        return ["m", "m%d" % idx, "plain", rt, body, thr]


def gen_scoped(rng):
    g = ScopedGen(rng)
    methods = []
    for i in range(rng.range(1, 3)):
        methods.append(g.method(i, methods))
    main = []
    for m in methods:
        if mthr(m):
            main.append(["doc", [["print", ["meth", m[1]]]], mthr(m), [["print", ["lit", "String", '"caught"']]]])
        else:
            main.append(["print", ["meth", m[1]]])
    prog = {"methods": methods, "main": main}
    bad = None
    if rng.chance(1, 5):
        m = rng.choice(methods)
        free = [c for c in PROG_EXC if c not in mthr(m)]
        if free and rng.chance(2, 3):
            # preferably a class that a do/catch or a closure signature EARLIER in the method catches (a scope that is
            # not popped / not taken off again would wrongly cover it), thrown at the end of the body
            acc = []
            blocks_of(m[4], acc, "method")
            inner = sorted(set(c for b, _ in acc for st in b if st[0] in ("doc", "letc")
                               for c in (st[2] if st[0] == "doc" else (st[4] or [])) if c in free))
            if inner and rng.chance(2, 3):
                m[4].insert(len(m[4]) - 1, ["throwc", g.cond([]), rng.choice(inner)])
                bad = "uncaught-throw-after-inner-scope"
            else:
                m[4].insert(rng.below(len(m[4])), ["throwc", g.cond([]), rng.choice(free)])
                bad = "uncaught-throw"
        else:
            bad = inject_error(rng, prog)
    g.dist["scoped_program"] = 1
    if bad:
        g.dist["injected_error:" + bad] = 1
    return prog, True, g.dist


def gen_program(rng, idx):
    if idx % 3 == 1:
        return gen_scoped(rng)
    core = idx % 3 == 0
    g = Gen(rng, core)
    methods = []
    for i in range(rng.range(1, 3)):
        methods.append(g.method(i, methods))
    main = []
    for m in methods:
        if m[2] == "gen":
            v = g.fresh("x")
            main.append(["forin", v, m[1]])
        else:
            main.append(["print", ["meth", m[1]]])
    prog = {"methods": methods, "main": main}
    bad = None
    if rng.chance(1, 6):
        bad = inject_error(rng, prog)
    g.dist["core_program" if core else "extended_program"] = 1
    if bad:
        g.dist["injected_error:" + bad] = 1
    return prog, core, g.dist


def inject_error(rng, prog):
    m = rng.choice(prog["methods"])
    c = rng.below(3)
    last = m[4][-1]
    if c == 0:
        wrong = {"Int": ["lit", "String", '"wrong"'], "String": ["lit", "Int", "1"], "Bool": ["lit", "Int", "2"]}[m[3]]
        last[1] = wrong
        return "wrong-type"
    if c == 1:
        last[1] = ["var", "undefined_local"]
        return "undefined-local"
    last[1] = ["call", ["lit", "String", '"s"']]
    return "call-of-non-closure"


# ------------------------------------------------------------------ edits

def blocks_of(body, acc, where):
    """all statement lists of a method body, with the kind of construct that owns them"""
    acc.append((body, where))
    for s in body:
        k = s[0]
        if k == "if":
            blocks_of(s[2], acc, "if")
            blocks_of(s[3], acc, "else")
        elif k == "loop":
            blocks_of(s[3], acc, "loop")
        elif k == "docatch":
            blocks_of(s[1], acc, "do")
            blocks_of(s[2], acc, "catch")
        elif k in ("letb", "letc"):
            blocks_of(s[5], acc, "closure")
        elif k == "doc":
            blocks_of(s[1], acc, "docatch")
            blocks_of(s[3], acc, "handler")


def has_tcall(st, throwing):
    """does the statement itself (not its nested blocks) call a method / closure known to throw"""
    ex = []
    if st[0] in ("let", "set"):
        sub_exprs(st[2], ex)
    elif st[0] in ("ex", "ret", "print"):
        sub_exprs(st[1], ex)
    return any((e[0] == "meth" and e[1] in throwing) or (e[0] == "call" and e[1][0] == "var" and e[1][1] in throwing)
               for e in ex)


def sub_blocks(st):
    k = st[0]
    if k == "if":
        return [st[2], st[3]]
    if k == "loop":
        return [st[3]]
    if k == "docatch":
        return [st[1], st[2]]
    if k == "doc":
        return [st[1], st[3]]
    if k in ("letb", "letc"):
        return [st[5]]
    return []


def throwing_names(prog):
    """names of methods / closure locals whose call may need a catch scope (over-approximation, used for labels only)"""
    out = set(m[1] for m in prog["methods"] if mthr(m))

    def throws_inside(b):
        return any(x[0] in ("throwc", "throwif") or has_tcall(x, out) or any(throws_inside(sb) for sb in sub_blocks(x))
                   for x in b)

    def walk(b):
        for st in b:
            if st[0] == "letc" and (st[4] or throws_inside(st[5])):
                out.add(st[1])
            if st[0] == "let" and st[2][0] == "clos" and has_tcall(["ex", st[2][1]], out):
                out.add(st[1])
            for sb in sub_blocks(st):
                walk(sb)
    for m in prog["methods"]:
        walk(m[4])
    return out


def follows(body, block, pos, throwing=()):
    """kind of the first return / yield / throw / throwing call of the METHOD that comes after the insertion point
    in program order (the context registers such a statement reads: returnType resp. the catch-scope stack)"""
    toks = []

    def walk(b, in_closure):
        for i, st in enumerate(b):
            if b is block and i == pos:
                toks.append("HERE")
            k = st[0]
            if not in_closure and k in ("ret", "retif", "yield"):
                toks.append("yield" if k == "yield" else "return")
            if not in_closure and k in ("throwc", "throwif"):
                toks.append("throw")
            elif not in_closure and throwing and has_tcall(st, throwing):
                toks.append("tcall")
            if k == "if":
                walk(st[2], in_closure)
                walk(st[3], in_closure)
            elif k == "loop":
                walk(st[3], in_closure)
            elif k == "docatch":
                walk(st[1], in_closure)
                walk(st[2], in_closure)
            elif k in ("letb", "letc"):
                walk(st[5], True)
            elif k == "doc":
                walk(st[1], in_closure)
                walk(st[3], in_closure)
        if b is block and pos == len(b):
            toks.append("HERE")
    walk(body, False)
    if "HERE" not in toks:
        return "none"
    rest = toks[toks.index("HERE") + 1:]
    return rest[0] if rest else "none"


def sub_exprs(e, acc):
    acc.append(e)
    k = e[0]
    if k in ("clos", "par", "call", "iclos"):
        sub_exprs(e[1], acc)
    elif k == "callb":
        sub_exprs(e[1], acc)
        sub_exprs(e[2], acc)
    elif k == "bin":
        sub_exprs(e[2], acc)
        sub_exprs(e[3], acc)


def stmt_exprs(s, acc):
    k = s[0]
    if k in ("let", "set"):
        sub_exprs(s[2], acc)
    elif k in ("ex", "ret", "print", "yield"):
        sub_exprs(s[1], acc)
    elif k == "retif":
        sub_exprs(s[1], acc)
        sub_exprs(s[2], acc)
    elif k == "throwif":
        sub_exprs(s[1], acc)
    elif k == "if":
        sub_exprs(s[1], acc)
        for b in (s[2], s[3]):
            for x in b:
                stmt_exprs(x, acc)
    elif k == "loop":
        for x in s[3]:
            stmt_exprs(x, acc)
    elif k == "docatch":
        for b in (s[1], s[2]):
            for x in b:
                stmt_exprs(x, acc)
    elif k in ("letb", "letc"):
        for x in s[5]:
            stmt_exprs(x, acc)
    elif k == "throwc":
        if s[1] is not None:
            sub_exprs(s[1], acc)
    elif k == "doc":
        for b in (s[1], s[3]):
            for x in b:
                stmt_exprs(x, acc)


def rename_in(x, old, new):
    if isinstance(x, list):
        for i, y in enumerate(x):
            if isinstance(y, str):
                if y == old and i > 0:
                    x[i] = new
            else:
                rename_in(y, old, new)


def declared(body, acc):
    for s in body:
        k = s[0]
        if k in ("let", "letb", "letc"):
            acc.append(s[1])
        if k == "if":
            declared(s[2], acc)
            declared(s[3], acc)
        elif k == "loop":
            declared(s[3], acc)
        elif k == "docatch":
            declared(s[1], acc)
            declared(s[2], acc)
        elif k == "doc":
            declared(s[1], acc)
            declared(s[3], acc)


TOUCHES = {"value": "", "value-string": "", "closure": "r", "closure-block": "r", "closure-throws": "rc",
           "closure-throws-bare": "rc", "closure-docatch": "rc", "closure-nested": "rc", "closure-infers-throw": "rc"}
READS = {"return": "r", "yield": "r", "throw": "c", "tcall": "c", "none": ""}
INITS = list(TOUCHES)


def unused_stmt(iname, pos, salt):
    """the inserted statement: an unused local bound to a value or to a closure literal of the given kind"""
    # mostly a class the program does not use (so that it differs from every live catch scope), sometimes one it may use
    c1 = PROG_EXC[salt % 3] if salt % 4 == 0 else "IndexError"
    c2 = "IndexError" if c1 != "IndexError" else PROG_EXC[(salt + 1) % 3]
    name = "unused_%d" % pos
    never = ["bin", ">", ["lit", "Int", "1"], ["lit", "Int", "2"]]
    one = ["ex", ["lit", "Int", "1"]]
    if iname == "value":
        return ["let", name, ["lit", "Int", "41"]]
    if iname == "value-string":
        return ["let", name, ["lit", "String", '"unused"']]
    if iname == "closure":
        return ["let", name, ["clos", ["lit", "Int", "1"]]]
    if iname == "closure-block":
        return ["letb", "unused_f", "q", "Int", "Int", [["ret", ["var", "q"]]]]
    if iname == "closure-throws":          # |q: String|: String ! C -> q
        return ["letc", name, [["q", "String"]], "String", [c1], [["ex", ["var", "q"]]]]
    if iname == "closure-throws-bare":     # ||! C -> throw C(..) if ..; 1
        return ["letc", name, [], None, [c1], [["throwc", never, c1], one]]
    if iname == "closure-docatch":         # -> do throw C(..) if ..; 1 catch C() 2 end
        return ["letc", name, [], None, None, [["doc", [["throwc", never, c1], one], [c1], [["ex", ["lit", "Int", "2"]]]]]]
    if iname == "closure-nested":          # -> (g := |q: Int|: Int ! C | D -> throw D(..) if ..; q); 3
        return ["letc", name, [], None, None,
                [["letc", "unused_g", [["q", "Int"]], "Int", sorted([c1, c2]), [["throwc", never, c2], ["ex", ["var", "q"]]]],
                 ["ex", ["lit", "Int", "3"]]]]
    if iname == "closure-infers-throw":    # -> throw C(..) if ..; 1     (throw type inferred)
        return ["letc", name, [], None, None, [["throwc", never, c1], one]]
    raise ValueError(iname)


def all_edits(prog):
    """-> list of (label, detail, thunk, prio) ; thunk() returns the edited deep copy; prio = the inserted initialiser
    touches a context register (returnType / catch-scope stack) that a later statement of the method reads"""
    edits = []
    throwing = throwing_names(prog)
    bodies = [("methods", mi, m[4], "method" + ("-throws" if mthr(m) else "")) for mi, m in enumerate(prog["methods"])]
    bodies.append(("main", None, prog["main"], "main"))
    for sect, mi, body, top in bodies:
        acc = []
        blocks_of(body, acc, top)
        for bi, (b, where) in enumerate(acc):
            limit = len(b) + (1 if where in ("loop", "main") else 0)
            for pos in range(limit):
                fol = follows(body, b, pos, throwing)
                for iname in INITS:
                    if sect == "main" and iname in ("value-string", "closure-block", "closure-infers-throw"):
                        continue

                    def thunk(sect=sect, mi=mi, bi=bi, pos=pos, iname=iname):
                        p = copy.deepcopy(prog)
                        acc2 = []
                        blocks_of(p["main"] if sect == "main" else p["methods"][mi][4], acc2, "x")
                        acc2[bi][0].insert(pos, unused_stmt(iname, pos, pos + bi))
                        return p
                    prio = bool(set(TOUCHES[iname]) & set(READS[fol]))
                    edits.append(("insert", "%s:in-%s:before-%s" % (iname, where, fol), thunk, prio))
    for mi, m in enumerate(prog["methods"]):
        names = []
        declared(m[4], names)
        for x in names:
            def thunk(mi=mi, x=x):
                p = copy.deepcopy(prog)
                rename_in(p["methods"][mi][4], x, "renamed_" + x)
                return p
            edits.append(("rename", "local", thunk, False))
        ex = []
        for s in m[4]:
            stmt_exprs(s, ex)
        for ei in range(len(ex)):
            def thunk(mi=mi, ei=ei):
                p = copy.deepcopy(prog)
                ex2 = []
                for s in p["methods"][mi][4]:
                    stmt_exprs(s, ex2)
                e = ex2[ei]
                inner = list(e)
                e[:] = ["par", inner]
                return p
            edits.append(("paren", ex[ei][0], thunk, False))
    if len(prog["methods"]) > 1:
        n = len(prog["methods"])
        for rot in range(1, n):
            def thunk(rot=rot):
                p = copy.deepcopy(prog)
                p["methods"] = p["methods"][rot:] + p["methods"][:rot]
                return p
            edits.append(("reorder", "rotate", thunk, False))

        def rev():
            p = copy.deepcopy(prog)
            p["methods"].reverse()
            return p
        edits.append(("reorder", "reverse", rev, False))
    return edits


# ------------------------------------------------------------------ running and comparing

def observe(res):
    rc, out, cls = res
    if cls in ("go_panic", "go_fatal", "signal", "timeout"):
        m = re.search(r"panic: ([^\n]*)", out)
        return ("X", cls + ":" + re.sub(r"0x[0-9a-f]+|\d+", "N", (m.group(1) if m else "?"))[:60], "")
    if "[FAIL]" in out:
        reasons = [re.sub(r"`[^`]*`", "`..`", r) for r in re.findall(r"\[FAIL\] ([^\n]*)", out)]
        return ("R", len(reasons), sorted(set(reasons)))
    if rc != 0:
        return ("E", out.strip().splitlines()[-1][:80] if out.strip() else "empty", out)
    return ("A", 0, out)


def run_family(ctx, elk, m, fams, tag, budget):
    """fams: list of (pid, prog, core). Runs originals + sampled edits. Returns stats."""
    rng = ctx.rng(STREAM + ".edits." + tag)
    progs, meta = [], {}
    model_in = {}
    seen_global = set()
    default_budget = budget
    for fam in fams:
        pid, prog, core = fam[:3]
        budget = fam[3] if len(fam) > 3 and fam[3] is not None else default_budget
        progs.append((pid, elk_program(prog)))
        meta[pid] = (pid, "original", "", prog, core)
        edits = all_edits(prog)
        if budget is not None and len(edits) > budget:
            # round-robin over the edit kinds; inside a kind: first the classes (kind, detail) in which the inserted
            # initialiser touches a context register that a later statement reads and which no earlier program of the
            # run has covered, then the other such classes, then classes unseen in this program, then the rest
            rng.shuffle(edits)
            groups = {}
            for e in edits:
                groups.setdefault(e[0], []).append(e)
            for lab in groups:
                seen, tiers = set(), ([], [], [], [])
                for e in groups[lab]:
                    if e[1] in seen:
                        tiers[3].append(e)
                    elif e[3] and e[1] not in seen_global:
                        tiers[0].append(e)
                    elif e[3]:
                        tiers[1].append(e)
                    else:
                        tiers[2].append(e)
                    seen.add(e[1])
                groups[lab] = tiers[0] + tiers[1] + tiers[2] + tiers[3]
            picked = []
            while len(picked) < budget and any(groups.values()):
                for lab in ("insert", "rename", "insert", "paren", "reorder", "insert"):
                    if groups.get(lab) and len(picked) < budget:
                        picked.append(groups[lab].pop(0))
            edits = picked
        for e in edits:
            seen_global.add(e[1])
        for j, (label, detail, thunk, _prio) in enumerate(edits):
            ep = thunk()
            eid = "%s_e%d" % (pid, j)
            progs.append((eid, elk_program(ep)))
            meta[eid] = (pid, label, detail, ep, core)
    for eid, (pid, label, detail, p, core) in meta.items():
        if core:
            mi = model_input(p)          # Model/C12_Checker.v
            if mi is not None:
                model_in[eid] = mi
            mi = model_input2(p)         # Model/C12_Scopes.v (a superset of the fragment)
            if mi is not None:
                model_in[eid + "~s"] = mi
    exp = {}
    if model_in:
        rc, exp, mout = vlib.run_model(m, list(model_in), model_in)
        if rc != 0:
            ctx.broke("correspondence %s: model driver exited %d" % (STREAM, rc), mout[-2000:])
    res = vlib.run_programs(elk, progs, os.path.join(ctx.workdir, tag), timeout=90, env={"GOMAXPROCS": "4"})
    slow = [(i, s) for i, s in progs if res[i][2] == "timeout"]
    if slow:
        res.update(vlib.run_programs(elk, slow, os.path.join(ctx.workdir, tag + "_slow"), workers=2, timeout=300,
                                     env={"GOMAXPROCS": "4"}))
    srcs = dict(progs)
    st = dict(programs=len(fams), edits=0, elk_runs=len(progs), accepted_originals=0, rejected_originals=0,
              model_compared=0, mismatches=0, by_edit={}, distinct=set(), reject_reasons={}, foreign_crashes=0,
              foreign_reasons={}, insert_classes={})
    fails = []
    for eid, (pid, label, detail, p, core) in meta.items():
        o = observe(res[eid])
        st["distinct"].add(srcs[eid])
        if label == "original":
            if o[0] == "A":
                st["accepted_originals"] += 1
            elif o[0] == "R":
                st["rejected_originals"] += 1
                for r in o[2]:
                    st["reject_reasons"][r] = st["reject_reasons"].get(r, 0) + 1
            if o[0] in ("X", "E"):
                # a generated ORIGINAL that crashes says nothing about edits: counted, not gated (C01/C15 matter)
                st["foreign_crashes"] = st.get("foreign_crashes", 0) + 1
                st.setdefault("foreign_reasons", {})[str(o[1])[:60]] = 1
        else:
            st["edits"] += 1
            st["by_edit"][label] = st["by_edit"].get(label, 0) + 1
            if label == "insert":
                st["insert_classes"][detail] = st["insert_classes"].get(detail, 0) + 1
            o0 = observe(res[pid])
            if o0[0] in ("X", "E"):
                continue
            change = None
            if o[0] != o0[0]:
                change = {"A": "accepted", "R": "rejected", "X": "crash", "E": "runtime-error"}[o0[0]] + "->" + \
                    {"A": "accepted", "R": "rejected", "X": "crash", "E": "runtime-error"}[o[0]]
            elif o[0] == "R" and o[1] != o0[1]:
                change = "diagnostics-count"
            elif o[0] == "A" and o[2] != o0[2]:
                change = "stdout"
            if change:
                fails.append((len(srcs[eid]), "%s:%s:%s" % (label, re.sub(r":in-[a-z-]+", "", detail), change),
                              "edit `%s` (%s) changed the result: original %s, edited %s" % (label, detail, o0[:2], o[:2]),
                              eid, o, o0))
        for mid, which in ((eid, "checker"), (eid + "~s", "scopes")):
            if mid not in model_in:
                continue
            e = exp.get(mid)
            if e is None or e.startswith("bad-input"):
                ctx.broke("correspondence %s: model gave no answer for %s (%s)" % (STREAM, model_in[mid], e))
                continue
            st["model_compared"] += 1
            mv = e.split()[0]
            if which == "scopes":
                st["model_compared_scopes"] = st.get("model_compared_scopes", 0) + 1
                cls = e.split()[3]
                if cls != "-":
                    k = "inserted_initialiser_in_theorem_class" if cls == "closed" else "inserted_initialiser_outside_theorem_class"
                    st[k] = st.get(k, 0) + 1
            if o[0] in ("A", "R") and mv != o[0]:
                mi = model_in[mid]
                feat = "with-catch-scopes" if ("(throw" in mi or "(do " in mi or re.search(r"\(thr \d", mi)) else \
                    "with-closure-literal" if "(clos" in mi else "no-closure"
                fails.append((len(srcs[eid]), "model-verdict:%s:model-%s:elk-%s" % (feat, mv, o[0]),
                              "checker model %s (fixed register handling) says %s, elk says %s %s" % (which, e, o[0], o[1:]),
                              eid, o, e))
    fails.sort(key=lambda f: f[0])
    st["mismatches"] = len(fails)
    for sz, key, what, eid, o, other in fails:
        pid = meta[eid][0]
        ctx.fail(key, what + "\n--- original ---\n" + srcs[pid] + ("--- edited ---\n" + srcs[eid] if eid != pid else ""),
                 stream=STREAM, case={"original": srcs[pid], "edited": srcs[eid], "edit": meta[eid][1:3]},
                 impl=str(o[:2]), model=str(other[:2] if isinstance(other, tuple) else other),
                 oracle="verdict, diagnostics count and stdout must not change under a meaning-preserving edit; "
                        "model verdict = elk verdict inside the modelled fragment")
    return st


def corpus_programs():
    """minimised witnesses (corpus/C12.edits.txt), replayed first with ALL their edits"""
    import json
    out = []
    path = os.path.join(vlib.ROOT, "corpus", "C12.edits.txt")
    if os.path.exists(path):
        for n, line in enumerate(open(path)):
            line = line.strip()
            if line and not line.startswith("#"):
                d = json.loads(line)
                out.append(("k%d" % n, d["prog"], d["core"], d.get("budget")))
    return out


def run(ctx):
    ctx.explanation = (
        "Proved in Coq on two mini checkers that are state machines over the context registers of types/checker with "
        "the save/restore points of checkMethod for method definitions and closure literals. (1) Model/C12_Checker.v "
        "(returnType, throwType, mode, locals, diagnostics counter; methods without parameters; x := e, x = e, e, "
        "return e; literals, locals, closure literals `-> e`, parentheses, f.(), m()): with the FIXED register handling "
        "(previous returnType/throwType restored on exit - the code as it is now) inserting an unused local with a value "
        "or closure initialiser before any statement of any method body, or anywhere in the top-level statements, leaves "
        "the number of diagnostics - hence the verdict - unchanged; any injective renaming of a method's locals and any "
        "redundant parentheses leave the whole checker state unchanged; any permutation of method definitions with "
        "distinct names leaves the number of diagnostics unchanged; with the register handling as first found the first "
        "statement is false (witness proved). (2) Model/C12_Scopes.v adds the catchScopes register as a STACK (saved, "
        "emptied, the declared throw type pushed, the saved stack put back by checkMethod; pushed / popped around a "
        "do/catch body), throw signatures of methods and closure literals, closure parameters and declared return types, "
        "the inherited inference flags, `throw`, do/catch, calls of throwing methods and closures, block bodies: "
        "C12_unused_local_scoped(_main): inserting `x := v` - v a value literal or a self-contained closure literal "
        "(parameters, declared return / throw type, covered throws, do/catch, further such closures, to any depth) - "
        "before any statement of ANY block at any depth (method body, do body, catch handler, closure body) leaves the "
        "number of diagnostics unchanged; C12_scopes_restored: every expression / block leaves the registers including "
        "the catch-scope stack as they were; C12_closed_value_inert. Coq lists are immutable, so the model states the "
        "intended save/restore of the stack; an implementation that lets the restored slice alias the working one "
        "deviates from the model and is found by the stream. Renaming (closure parameters included), parentheses and "
        "reordering are proved on model (2) as well (C12_rename_scoped, C12_parens_scoped, C12_reorder_scoped). "
        "NOT proved: equality of program output, and everything outside the fragments (generators/yield, "
        "if/while, arithmetic, early returns): covered by the metamorphic stream only, which runs every generated program "
        "and its edited variants on the real elk and requires equal verdict, equal number of diagnostics and equal "
        "stdout. For programs inside a fragment the extracted checkers' verdicts are compared with elk's on the original "
        "and on every edited variant; for every inserted initialiser the extracted closed_value says whether it lies in "
        "the theorem's class (counted in the evidence).")
    ctx.trusted_base += [
        "Python generator, printer, edit functions and the translation to the model's input (checks/C12.py)",
        "the model types `x := -> e` by checking the closure before declaring x (no recursive closures are generated)",
        "Model/C12_Scopes.v: exception classes are unrelated siblings (the generator uses FormatError, OutOfRangeError, "
        "ZeroDivisionError, IndexError), local environments are flat (generated names are fresh), the condition of "
        "`throw C(..) if a > b` is dropped by the translation (Int comparison, cannot produce a diagnostic), the handler "
        "of a two-class catch is checked once by the model and once per clause by elk (only verdicts are compared)",
    ]
    ctx.run_proof_gate()
    elk = vlib.build_elk()
    m = vlib.build_model_exact("C12")
    rng = ctx.rng(STREAM)
    nprog = ctx.n(22, 150)
    fams = []
    dist = {}
    for i in range(nprog):
        prog, core, d = gen_program(rng, i)
        for k, v in d.items():
            dist[k] = dist.get(k, 0) + v
        fams.append(("g%d" % i, prog, core))
    st_c = run_family(ctx, elk, m, corpus_programs(), "corpus", None)
    st = run_family(ctx, elk, m, fams, "gen", ctx.n(7, 20))
    tot = lambda k: st[k] + st_c[k]
    by_edit = dict(st["by_edit"])
    for k, v in st_c["by_edit"].items():
        by_edit[k] = by_edit.get(k, 0) + v
    ctx.stream(STREAM, tot("edits") + tot("programs"), len(st["distinct"] | st_c["distinct"]),
               "seeded type-directed programs, three families in turn: core (exactly the fragment of Model/C12_Checker.v: "
               "1-3 typed methods with locals, literals, closures `-> e`, f.(), m(), parentheses), scoped (the fragment of "
               "Model/C12_Scopes.v, well-typed by tracking the catch-scope stack: methods with throw signatures of 1-2 "
               "classes, `throw C(..) if c`, do/catch with 1-2 classes nested to depth 2, closures with parameters / declared "
               "return type / declared or inferred throw type / do/catch / nested closures, calls of throwing methods and "
               "closures inside covering scopes), extended (arithmetic, comparisons, prints, if, while, do/catch, block "
               "closures with explicit returns, early returns, generators with yield); one program in five or six gets an "
               "injected error (wrong type, undefined local, call of a non-closure, uncaught throw); edits: an unused local "
               "- Int, String, closure `-> 1`, block closure with parameter and return, closure with parameter + return type "
               "+ throw signature, `||! C -> throw ..; 1`, closure containing do/catch, closure containing a throw-annotated "
               "closure, closure with inferred throw type - before a statement of ANY block (method body, if/else, loop, "
               "do body, catch handler, closure body, top level and its do/catch bodies); local renamed; sub-expression "
               "parenthesised; methods rotated / reversed. With a per-program budget the insert classes (initialiser kind x "
               "block kind x next return/yield/throw/throwing call) in which the initialiser touches a register (returnType, "
               "catch-scope stack) that the following statement reads are taken first, classes not yet covered in the run "
               "before the others; evaluation = one program run on elk and compared (edited variants with their original: "
               "verdict, diagnostics count, stdout; core and scoped programs also with the extracted checkers' verdicts); "
               "non-trivial = distinct program text",
               [{"program": elk_program(f[1])} for f in fams[:3]],
               dict(constructs=dist, programs=tot("programs"), edited_variants=tot("edits"), edits_by_kind=by_edit,
                    insert_classes_covered=len(set(st["insert_classes"]) | set(st_c["insert_classes"])),
                    insert_classes_register_interaction=len([k for k in set(st["insert_classes"]) | set(st_c["insert_classes"])
                                                             if set(TOUCHES[k.split(":")[0]]) & set(READS[k.split(":before-")[1]])]),
                    compared_with_scopes_model=st.get("model_compared_scopes", 0) + st_c.get("model_compared_scopes", 0),
                    inserted_initialiser_in_theorem_class=st.get("inserted_initialiser_in_theorem_class", 0)
                    + st_c.get("inserted_initialiser_in_theorem_class", 0),
                    inserted_initialiser_outside_theorem_class=st.get("inserted_initialiser_outside_theorem_class", 0)
                    + st_c.get("inserted_initialiser_outside_theorem_class", 0),
                    elk_runs=tot("elk_runs"), accepted_originals=tot("accepted_originals"),
                    rejected_originals=tot("rejected_originals"), compared_with_model=tot("model_compared"),
                    mismatches=tot("mismatches"), reject_reasons=st["reject_reasons"],
                    originals_crashing_for_unrelated_reasons=tot("foreign_crashes"), foreign_reasons=st["foreign_reasons"]))
    if st["programs"] and st["foreign_crashes"] * 4 > st["programs"]:
        ctx.broke("correspondence %s: more than a quarter of the generated originals crash (%d of %d)"
                  % (STREAM, st["foreign_crashes"], st["programs"]), str(st["foreign_reasons"]))
    if st["programs"] and st["accepted_originals"] * 2 < st["programs"]:
        ctx.broke("correspondence %s: fewer than half of the generated programs are accepted by elk (%d of %d)"
                  % (STREAM, st["accepted_originals"], st["programs"]))
