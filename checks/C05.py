"""C05 — printing a syntax tree and reparsing it gives the same tree."""
import os
import re
import vlib

GEN_V = os.path.join(vlib.COQ, "Gen", "C05_PrecTables.v")


def load_ops(text):
    b, u = {}, {}
    for l in text.splitlines():
        p = l.split(" ")
        if p[0] == "B" and len(p) >= 5:
            b[int(p[1])] = p[4]
        elif p[0] == "U" and len(p) >= 3:
            u[int(p[1])] = p[2]
    return b, u


def lexkey(symbols, b, u, limit=12):
    out = []
    for s in symbols.split()[:limit]:
        if s[0] == "B" and s[1:].isdigit():
            out.append("B[%s]" % b.get(int(s[1:]), "?"))
        elif s[0] == "U" and s[1:].isdigit():
            out.append("U[%s]" % u.get(int(s[1:]), "?"))
        elif s[0] == "x":
            out.append("x")
        else:
            out.append(s)
    return " ".join(out)


def regen_tables(ctx, h):
    """Gen/C05_PrecTables.v from the real ast tables, printers and parser (written only when changed)."""
    rc, out = vlib.sh([h, "-extra", "tables"], env=vlib.elk_env({"VERIF_REPO": vlib.REPO}), timeout=600)
    if rc != 0 or "==== ops" not in out:
        ctx.broke("table regeneration failed (harness -extra tables exited %d)" % rc, out[-3000:])
        return None
    vtext, ops = out.split("==== ops\n", 1)
    with vlib.Lock("coq"):
        changed = vlib.write_if_changed(GEN_V, vtext)
    opsfile = os.path.join(ctx.workdir, "ops.txt")
    with open(opsfile, "w") as f:
        f.write(ops)
    ctx.extra["tables_regenerated"] = {"file": "coq/Gen/C05_PrecTables.v", "changed_this_run": bool(changed),
                                       "binary_operators": len(load_ops(ops)[0]), "unary_operators": len(load_ops(ops)[1])}
    return opsfile, ops


def expr_stream(ctx, h, m, opsfile, ops):
    stream = "c05.expr"
    b, u = load_ops(ops)
    corpus = os.path.join(vlib.ROOT, "corpus", "C05.expr.txt")
    cmd = [h, "-extra", "expr", "-seed", str(ctx.sseed(stream)), "-n", str(ctx.n(6000, 300000)), "-tier", ctx.tier]
    if os.path.exists(corpus):
        cmd += ["-input", corpus]
    rc, out = vlib.sh(cmd, env=vlib.elk_env({"VERIF_REPO": vlib.REPO}), timeout=3000)
    ids, inputs, obs = vlib.parse_case_lines(out)
    if rc != 0 or not ids:
        ctx.broke("correspondence %s: harness exited %d" % (stream, rc), out[-3000:])
        return
    rc2, exp, mout = vlib.run_model(m, ids, inputs, args=[opsfile])
    if rc2 != 0:
        ctx.broke("correspondence %s: model driver exited %d" % (stream, rc2), mout[-3000:])
    dist = {"tree": 0, "toks": 0, "toks_rejected": 0, "prop_fail": 0, "model_mismatch": 0}
    distinct = set()
    seen_keys = set()
    for i in ids:
        inp = inputs[i]
        kind, body = inp.split(" ", 1)
        dist[kind] = dist.get(kind, 0) + 1
        if len(body.split()) >= 3:
            distinct.add(inp)
        o = obs[i].split("\x1f")
        e = exp.get(i)
        if e is None:
            ctx.broke("correspondence %s: model gave no answer for %s" % (stream, inp))
            continue
        if kind == "tree":
            impl = "\x1f".join(o[:2])
            # oracle 2: the property itself on the implementation
            if len(o) < 2 or o[1] != body:
                dist["prop_fail"] += 1
                minimal = o[2] if len(o) > 2 else body
                key = "expr:roundtrip:" + lexkey(minimal, b, u)
                if key not in seen_keys:
                    seen_keys.add(key)
                    ctx.fail(key, "tree %s prints as %r which reparses as %s" % (lexkey(minimal, b, u, 40), o[0], o[1] if len(o) > 1 else "?"),
                             stream=stream, case="tree " + minimal, impl=obs[i], model=e,
                             oracle="print then reparse gives a different tree or a syntax error")
            elif impl != e:
                dist["model_mismatch"] += 1
                a, bb = o[0], e.split("\x1f")[0]
                j = 0
                while j < len(a) and j < len(bb) and a[j] == bb[j]:
                    j += 1
                key = "expr:print-model:impl[%s]model[%s]" % (re.sub(r"x\d", "x", a[max(0, j - 2):j + 2]), re.sub(r"x\d", "x", bb[max(0, j - 2):j + 2]))
                if key not in seen_keys:
                    seen_keys.add(key)
                    ctx.fail(key, "%s: implementation %r, proved model %r" % (inp, impl, e), stream=stream, case=inp,
                             impl=impl, model=e, oracle="implementation's printed text differs from the proved model")
        else:
            if o[0] == "ERR":
                dist["toks_rejected"] += 1
            if o[0] != e:
                dist["model_mismatch"] += 1
                key = "expr:parser-model:" + lexkey(body, b, u)
                if key not in seen_keys:
                    seen_keys.add(key)
                    ctx.fail(key, "%s: real parser %s, matrix-driven model parser %s" % (lexkey(body, b, u, 40), o[0], e),
                             stream=stream, case=inp, impl=o[0], model=e,
                             oracle="real parser differs from the proved model parser on an infix token sequence")
    ctx.stream(stream, len(ids), len(distinct),
               "exhaustive: every ordered pair of the %d binary x %d unary operators in every nesting (thorough: every triple), "
               "as trees (print with String(), reparse, compare with the extracted model's print AND parse) and as bare token "
               "sequences (real parser vs model parser); then seeded random trees depth<=6, every third one as a randomly "
               "parenthesised infix token sequence; non-trivial = at least 3 symbols; distinct by input" % (len(b), len(u)),
               [{"input": inputs[i], "observed": obs[i]} for i in ids[:2] + ids[-2:]], dist)


def full_stream(ctx, h):
    stream = "c05.full"
    corpus = os.path.join(vlib.ROOT, "corpus", "C05.full.txt")
    cmd = [h, "-extra", "full", "-seed", str(ctx.sseed(stream)), "-n", str(ctx.n(1500, 40000)), "-tier", ctx.tier]
    if os.path.exists(corpus):
        cmd += ["-input", corpus]
    rc, out = vlib.sh(cmd, env=vlib.elk_env({"VERIF_REPO": vlib.REPO}), timeout=6000)
    ids, inputs, obs = vlib.parse_case_lines(out)
    if rc != 0 or not ids:
        ctx.broke("stream %s: harness exited %d" % (stream, rc), out[-3000:])
        return
    dist = {}
    src_kind = {"c": "corpus", "f": "repo .elk/.elh files", "s": "sources from the repo's Go tests", "g": "kind x context", "r": "random nesting"}
    evaluated = 0
    distinct = set()
    bykey = {}
    for i in ids:
        f = obs[i].split("\x1f")
        v = f[0]
        k = src_kind.get(i[0], "?")
        dist[k + ":" + v] = dist.get(k + ":" + v, 0) + 1
        if v == "skip":
            continue
        evaluated += 1
        distinct.add(inputs[i])
        if v != "ok" and len(f) >= 5:
            key = "full:" + f[1]
            cur = bykey.get(key)
            if cur is None or len(f[2]) < len(cur[2]):
                bykey[key] = f
            dist["FAIL " + key] = dist.get("FAIL " + key, 0) + 1
        elif v != "ok":
            bykey.setdefault("full:" + v + ":malformed-observation", f + ["", "", "", ""])
    for key, f in sorted(bykey.items()):
        ctx.fail(key, "%s prints as %s [%s] %s" % (f[2][:200], f[3][:200], f[0], f[4][:160]), stream=stream,
                 case=f[2], impl=f[3], model=None,
                 oracle={"reparse_error": "printed text does not parse", "tree_differs": "reparsed tree differs (locations ignored)",
                         "print_panic": "String() panics", "print_not_fixpoint": "printing the reparsed tree gives different text"}.get(f[0], f[0]))
    ctx.stream(stream, evaluated, len(distinct),
               "property evaluated directly on the implementation: parse (skip when the source itself has errors), String(), reparse, "
               "compare reflective dumps of both trees with locations/types/caches removed, and check the print is a fixpoint; inputs: "
               "corpus, every .elk/.elh file under the repo, every input:/source: string of the repo's parser/checker/compiler/vm Go "
               "tests, every harvested expression kind placed in every hole of %d operand/statement contexts, seeded random nestings; "
               "evaluations = sources that parse; failures minimised to the smallest failing sub-node and keyed by verdict + node kind"
               % 125,
               [{"input": inputs[i][:200], "observed": obs[i][:200]} for i in ids[:1] + ids[-2:]], dist, skipped=len(ids) - evaluated)


def run(ctx):
    ctx.explanation = (
        "PROVED (Coq, all trees of any depth): for expression trees over binary operators (every BinaryExpressionNode, "
        "LogicalExpressionNode and RangeLiteralNode operator the real parser accepts, discovered by probing), prefix unary operators "
        "and atoms, the model printer (exact parenthesisation rule of the String() methods, parametrised by ExpressionPrecedence and "
        "the per-operator rule) followed by the model parser (operator-precedence parser driven only by the real parser's observed "
        "behaviour on ordered operator pairs) is the identity whenever tables and matrices agree pairwise (C05_roundtrip); the "
        "agreement is re-proved by vm_compute on tables regenerated from /repo on every run (C05_tables_ok). "
        "TESTED ONLY: that the real String()/parser behave like the model (c05.expr: exhaustive pairs/triples + random trees and "
        "random infix token strings, printed text and reparsed tree compared); lexing of the printed text; every other node kind "
        "(declarations, patterns, types, literals, control flow, macros, assignment, modifiers, `as`, calls): c05.full evaluates "
        "the property directly on the implementation, no model. Doc comments, method flags and EmptyStatement nodes count as structure.")
    ctx.trusted_base += [
        "model parser = operator-precedence parser over the pair matrices observed from parser.Parse (the real parser is recursive descent); validated by c05.expr on random infix token sequences, not proved",
        "lexer modelled as 'drops the spaces the printer wrote' (token fusion such as `--` is outside the model; covered by c05.expr/c05.full reparse)",
        "table extractor in harness/cmd/c05 (operator discovery, ExpressionPrecedence calls, printer rule probing, parser pair probing)",
        "reflective tree dump used as location-insensitive structural equality (fields of packages position/types and typ/static/Method/State/HasDefer/ImportPaths ignored)",
    ]
    h = vlib.build_harness("c05")
    t = regen_tables(ctx, h)
    ctx.run_proof_gate()
    if t is not None:
        opsfile, ops = t
        try:
            m = vlib.build_model("C05")
            expr_stream(ctx, h, m, opsfile, ops)
        except vlib.BuildError as e:
            ctx.broke("model build: " + str(e)[:300], str(e))
    full_stream(ctx, h)


def setup_gen():
    """called by setup.sh: write coq/Gen/C05_PrecTables.v before the full make"""
    ctx = vlib.Ctx("C05", "quick", 1)
    regen_tables(ctx, vlib.build_harness("c05"))
