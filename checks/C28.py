"""C28 — std headers and native implementations agree."""
import os
import re
import vlib

GEN_V = os.path.join(vlib.COQ, "Gen", "C28_Headers.v")

COLS = ["tag", "kind", "ns", "nskind", "concrete", "name", "declin", "flags", "req", "opt", "rest", "post", "nrest",
        "total", "params", "ret", "throw", "found", "rkind", "pc", "opc", "rwhere", "retset", "throwset"]


class Table:
    def __init__(self, text):
        self.rows, self.anc, self.ranc, self.mixins, self.undecl = [], {}, {}, [], []
        for line in text.split("\n"):     # NOT splitlines(): the parameter list uses \x1e / \x1f, which splitlines() treats as line ends
            p = line.split("\t")
            if p[0] == "ROW" and len(p) >= len(COLS):
                r = dict(zip(COLS, p))
                for k in ("concrete", "req", "opt", "rest", "post", "nrest", "total", "found", "pc", "opc"):
                    r[k] = int(r[k])
                r["idx"] = len(self.rows)
                r["plist"] = [tuple(x.split("\x1f")) for x in r["params"].split("\x1e") if x]
                r["key"] = "%s:%s#%s" % (r["kind"], r["ns"], r["name"])
                self.rows.append(r)
            elif p[0] == "ANC":
                self.anc[p[1]] = [x for x in (p[2] if len(p) > 2 else "").split(",") if x]
            elif p[0] == "RANC":
                self.ranc[p[1]] = set(x for x in (p[2] if len(p) > 2 else "").split(",") if x)
            elif p[0] == "MIXIN":
                self.mixins.append((p[1], p[2]))
            elif p[0] == "UNDECL":
                self.undecl.append(p[1:])
        self.mixin_names = set(r["ns"] for r in self.rows if r["nskind"] == "mixin")


def compatible(r):
    """the same test as Model/C28_Arity.v `compatible` and c28gen `compatible` (the Coq theorem
    C28_exceptions_are_the_incompatible_rows ties the harness copy to the Coq one on the whole table)"""
    if r["found"]:
        return r["pc"] == r["total"] or (r["pc"] > r["total"] and r["pc"] - r["total"] <= r["opc"])
    if r["name"] == "#init":
        return r["total"] == 0
    return "a" in r["flags"] or not r["concrete"]


def class_key(r, tab):
    """canonical class of an incompatible row: stable across seeds, shared by the table pre-check and by the
    executed calls"""
    decl = r["declin"] or r["ns"]
    if r["found"]:
        return "arity:%s#%s:declared=%d:runtime=%d+opt%d" % (decl, r["name"], r["total"], r["pc"], r["opc"])
    if r["rwhere"] in ("no-runtime-constant", "not-a-namespace", "no-singleton", "no-module-class", "interface"):
        return "no-runtime-class:%s" % r["ns"]
    if r["name"] == "#init":
        return "no-runtime-init:%s:declared=%d" % (r["ns"], r["total"])
    if r["kind"] == "inh" and decl in tab.mixin_names and decl not in tab.ranc.get(r["ns"], set()):
        return "mixin-not-included:%s:%s" % (r["ns"], decl)
    return "unimplemented:%s#%s" % (decl, r["name"])


def regenerate(ctx):
    gen = vlib.build_harness("c28gen")
    rc, out = vlib.sh([gen, "-extra", "tsv"], timeout=300, env=vlib.elk_env())
    if rc != 0 or "ROW\t" not in out:
        ctx.broke("tie: table extraction from the live environments failed", out[-2000:])
        return None
    rc2, coq = vlib.sh([gen, "-extra", "coq"], timeout=300, env=vlib.elk_env())
    if rc2 != 0 or "Definition rows" not in coq:
        ctx.broke("tie: Coq table generation failed", coq[-2000:])
        return None
    vlib.write_if_changed(GEN_V, coq)
    return Table(out)


# ------------------------------------------------------------------ receivers and arguments
#
# Value catalogue.  Every class has SEVERAL values; the first `core` ones are used by the quick tier's one-factor
# plan (every core value of every parameter at least once per row and admitted argument count), the others by the
# seeded extra picks of the quick tier and by the thorough tier's receiver x argument product.  The values are the
# algebraically special ones: 0, 1, -1, 2, small primes (exact divisors / non-divisors of the receivers' components),
# boundary ints of every width, empty / singleton / repeated-element collections, zero / negative / mixed-sign spans.

HUGE_INTS = ["9223372036854775807", "(-9223372036854775807)", "9223372036854775808", "(-18446744073709551616)"]


def _fixed(sfx, hi, signed):
    core = ["2" + sfx, "0" + sfx]
    ext = ["1" + sfx, "3" + sfx, "7" + sfx, "%d%s" % (hi, sfx)]
    if signed:
        ext += ["(-1%s)" % sfx, "(-%d%s)" % (hi, sfx)]
    return core, ext


FIXED = {"Std::Int8": ("i8", 127, True), "Std::Int16": ("i16", 32767, True), "Std::Int32": ("i32", 2147483647, True),
         "Std::Int64": ("i64", 9223372036854775807, True), "Std::UInt8": ("u8", 255, False), "Std::UInt16": ("u16", 65535, False),
         "Std::UInt32": ("u32", 4294967295, False), "Std::UInt64": ("u64", 18446744073709551615, False),
         "Std::UInt": ("u", 18446744073709551615, False)}

# class -> (core values, further values)
POOL = {
    "Std::Int": (["2", "0", "1", "(-1)", "3"], ["(-2)", "4", "5", "7", "10", "12", "60", "64", "(-7)"] + HUGE_INTS),
    "Std::Float": (["2.5", "1.0", "0.0", "(-1.0)"], ["0.5", "3.0", "(-2.5)", "1e300", "Float::NAN", "Float::INF"]),
    "Std::BigFloat": (["2.5bf", "1.0bf", "0.0bf"], ["(-1.0bf)", "0.5bf", "3.0bf", "1e100bf"]),
    "Std::Float64": (["2.5f64", "0.0f64"], ["1.0f64", "(-1.0f64)"]), "Std::Float32": (["2.5f32", "0.0f32"], ["1.0f32", "(-1.0f32)"]),
    "Std::String": (['"ab"', '""', '"a"'], ['"héllo"', '"123"', '" x "', '"a,b"', '"%Y-%m-%d"', '"2024-02-29"', '"1h 2m"', '"3M 5D"', '"UTC"']),
    "Std::Char": (["`a`", "`é`"], ["`0`", "` `", "`\\n`"]),
    "Std::Symbol": ([":a", ":foo"], [':"a b"']),
    "Std::True": (["true"], []), "Std::False": (["false"], []), "Std::Nil": (["nil"], []),
    "Std::Regex": (["%/a/", "%//"], ["%/(a)(b)?/", "%/^x$/"]),
    "Std::ClosedRange": (["(0...1)", "(1...0)"], ["(0...0)", "((-2)...5)"]),
    "Std::RightOpenRange": (["(0..<1)"], ["(0..<0)"]),
    "Std::OpenRange": (["(0<.<2)"], []), "Std::LeftOpenRange": (["(0<..1)"], []),
    "Std::EndlessClosedRange": (["(1...)"], []), "Std::BeginlessClosedRange": (["(...1)"], []),
    "Std::ArrayList": (["[1]", "ArrayList::[Int]()"], ["[3, 1, 2]", "[1, 1]"]),
    "Std::ArrayTuple": (["%[1, 2]", "ArrayTuple::[Int]()"], ["%[1]"]),
    "Std::HashSet": (["^[1, 2]"], ["^[1]"]), "Std::HashMap": (["{1 => 2}"], ["{1 => 2, 3 => 4}"]),
    "Std::HashRecord": (["%{1 => 2}"], ["%{1 => 2, 3 => 4}"]),
    "Std::Pair": (["Pair(1, 2)"], ["Pair(1, 1)"]),
    "Std::Time::Span": (["Time::Span(1, 2, 3)", "Time::Span(0, 0, 0)"], ["Time::Span(-1, -2, -3)", "Time::Span(2, 4, 6)", "Time::Span(25, 61, 61)"]),
    "Std::Date::Span": (["Date::Span(1, 2, 3)", "Date::Span(0, 0, 0)"], ["Date::Span(-1, -2, -3)", "Date::Span(0, 6, 10)", "Date::Span(0, -6, 9)"]),
    "Std::DateTime::Span": (["DateTime::Span(1, 2, 3)", "DateTime::Span()"],
                            ["DateTime::Span(-1, -2, -3, -4, -5, -6)", "DateTime::Span(0, 6, 10, 2, 4, 6)", "DateTime::Span(0, 0, 0, 1, 2, 3)"]),
    "Std::DateTime": (["DateTime(2024, 2, 29, 13, 5, 7)"], ["DateTime(1970, 1, 1)", "DateTime(2023, 12, 31, 23, 59, 59)"]),
    "Std::Date": (["Date(2024, 2, 29)"], ["Date(1970, 1, 1)", "Date(2023, 12, 31)"]),
    "Std::Time": (["Time(13, 5, 7)"], ["Time(0, 0, 0)", "Time(23, 59, 59)"]),
    "Std::Timezone": (["Timezone::UTC"], ["Timezone.from_offset(Time::Span(2))"]),
    "Std::FS::Path": (['FS::Path("c")'], ['FS::Path("")']),
    "Std::String::Position": (["String::Position(1, 2, 3)"], ["String::Position(0, 1, 1)"]),
}
for _c, (_s, _hi, _sg) in FIXED.items():
    POOL[_c] = _fixed(_s, _hi, _sg)
# values offered to `any` / interface-typed parameters (one per class family)
MIXED = ["1", '"ab"', "nil", "2.5", ":a", "`a`", "true", "[1]", "2i8", "2.5bf"]

RECV = {
    "Std::Int": ["5", "0", "(-3)", "1", "(-1)", "2", "12", "60"] + HUGE_INTS,
    "Std::Float": ["2.5", "0.0", "(-1.5)", "3.0", "1e300", "Float::NAN", "Float::INF"],
    "Std::BigFloat": ["2.5bf", "0.0bf", "(-1.5bf)", "3.0bf", "1e100bf"],
    "Std::Float64": ["2.5f64", "0.0f64", "(-1.5f64)"], "Std::Float32": ["2.5f32", "0.0f32", "(-1.5f32)"],
    "Std::String": ['"héllo"', '""', '"a"', '"abc def"', '"123"', '" x "'],
    "Std::Char": ["`a`", "`é`", "`0`", "` `", "`\\n`"],
    "Std::Symbol": [":foo", ':"a b"'],
    "Std::True": ["true"], "Std::False": ["false"], "Std::Nil": ["nil"],
    "Std::ArrayList": ["[3, 1, 2]", "ArrayList::[Int]()", "[1]", "[5, 5, 5]", "[0, -1, 2, 7, 7]"],
    "Std::ArrayTuple": ["%[3, 1, 2]", "ArrayTuple::[Int]()", "%[1]", "%[5, 5, 5]"],
    "Std::HashMap": ["{1 => 2, 3 => 4}", "{1 => 1}"],
    "Std::HashRecord": ["%{1 => 2, 3 => 4}", "%{1 => 1}"],
    "Std::HashSet": ["^[3, 1, 2]", "^[1]"],
    "Std::ClosedRange": ["(1...4)", "(4...1)", "(0...0)", "((-3)...3)", "(`a`...`e`)", "(1.0...2.5)"],
    "Std::OpenRange": ["(1<.<4)", "(1<.<2)", "(`a`<.<`e`)"],
    "Std::LeftOpenRange": ["(1<..4)", "(4<..1)", "(1.0<..2.5)"],
    "Std::RightOpenRange": ["(1..<4)", "(1..<1)", "(`a`..<`e`)"],
    "Std::BeginlessClosedRange": ["(...4)", "(...2.5)"],
    "Std::BeginlessOpenRange": ["(..<4)", "(..<`e`)"],
    "Std::Regex": ["%/a+/", "%//", "%/(a)(b)?/", "%/^x$/"],
    "Std::Pair": ["Pair(1, 2)", "Pair(1, 1)", 'Pair("a", nil)'],
    "Std::ArrayList::Iterator": ["[3, 1, 2].iter", "ArrayList::[Int]().iter", "[1].iter"],
    "Std::ArrayTuple::Iterator": ["%[3, 1, 2].iter", "%[1].iter"],
    "Std::HashMap::Iterator": ["{1 => 2}.iter"],
    "Std::HashRecord::Iterator": ["%{1 => 2}.iter"],
    "Std::HashSet::Iterator": ["^[3, 1, 2].iter", "^[1].iter"],
    "Std::ClosedRange::Iterator": ["(1...4).iter", "(4...1).iter", "(0...0).iter"],
    "Std::OpenRange::Iterator": ["(1<.<4).iter", "(1<.<2).iter"],
    "Std::LeftOpenRange::Iterator": ["(1<..4).iter"],
    "Std::RightOpenRange::Iterator": ["(1..<4).iter", "(1..<1).iter"],
    "Std::Int::Iterator": ["3.iter", "0.iter", "(-2).iter"],
    "Std::String::CharIterator": ['"abc".iter', '"".iter'],
    "Std::String::ByteIterator": ['"abc".byte_iter', '"".byte_iter'],
    "Std::String::GraphemeIterator": ['"abc".grapheme_iter'],
    "Std::Date": ["Date(2024, 2, 29)", "Date(1970, 1, 1)", "Date(2023, 12, 31)", "Date(1, 1, 1)"],
    "Std::Time": ["Time(13, 5, 7)", "Time(0, 0, 0)", "Time(23, 59, 59)", "Time(12, 0, 0, 1, 2, 3)"],
    "Std::DateTime": ["DateTime(2024, 2, 29, 13, 5, 7)", "DateTime(1970, 1, 1)", "DateTime(2023, 12, 31, 23, 59, 59)", "DateTime(1, 1, 1)"],
    "Std::Date::Span": ["Date::Span(1, 2, 3)", "Date::Span(0, 6, 10)", "Date::Span(0, 0, 0)", "Date::Span(-1, -2, -3)",
                        "Date::Span(0, -6, 9)", "Date::Span(2, 4, 8)", "Date::Span(0, 0, 7)"],
    "Std::Time::Span": ["Time::Span(1, 2, 3)", "Time::Span(0, 0, 0)", "Time::Span(-1, -2, -3)", "Time::Span(2, 4, 6)",
                        "Time::Span(0, 0, 0, 0, 0, 1)", "Time::Span(25, 61, 61)", "Time::Span(1, -30, 0)"],
    "Std::DateTime::Span": ["DateTime::Span(1, 2, 3)", "DateTime::Span(0, 6, 10, 2, 4, 6)", "DateTime::Span()",
                            "DateTime::Span(-1, -2, -3, -4, -5, -6)", "DateTime::Span(0, 0, 0, 1, 2, 3)", "DateTime::Span(1, -2, 3, -4, 5, -6)"],
    "Std::Timezone": ["Timezone::UTC", "Timezone.from_offset(Time::Span(2))"],
    "Std::FS::Path": ['FS::Path("a/b.txt")', 'FS::Path("")'],
    "Std::Box": ["Box(1)"],
    "Std::ImmutableBox": ["ImmutableBox(1)"],
    "Std::Error": ['Error("x")', 'Error("")'],
    "Std::String::Position": ["String::Position(1, 2, 3)", "String::Position(0, 1, 1)"],
    "Std::Object": ["Object()"],
    # singleton / module receivers (class methods)
    "&Std::Date": ["::Std::Date"], "&Std::Time": ["::Std::Time"], "&Std::DateTime": ["::Std::DateTime"],
    "&Std::Date::Span": ["::Std::Date::Span"], "&Std::Time::Span": ["::Std::Time::Span"],
    "&Std::DateTime::Span": ["::Std::DateTime::Span"], "&Std::FS::Path": ["::Std::FS::Path"],
    "&Std::Runtime": ["::Std::Runtime"], "&Std::Result": ["::Std::Result"], "&Std::Timezone": ["::Std::Timezone"],
}
for _c, (_s, _hi, _sg) in FIXED.items():
    RECV[_c] = ["5" + _s, "0" + _s, "1" + _s, "%d%s" % (_hi, _s)] + (["(-3%s)" % _s, "(-%d%s)" % (_hi, _s)] if _sg else [])
for _e in ("Std::FormatError", "Std::IndexError", "Std::OutOfRangeError", "Std::TypeError", "Std::ZeroDivisionError", "Std::GlobError",
           "Std::FileSystemError", "Std::InvalidTimezoneError", "Std::OpenClosureError"):
    RECV[_e] = ['%s("x")' % _e.replace("Std::", "::Std::", 1)]


# ------------------------------------------------------------------ collection representation variants
#
# The compiler picks the BACKING IMPLEMENTATION of a collection literal from its static element / key type
# (compiler/bytecode_compiler.go compileHashMapLiteralNode, compileHashRecordLiteralNode, compileHashSetLiteralNode,
# compileArrayListLiteralNode, compileArrayTupleLiteralNode): String, Symbol, Char, Float, Float64/32, every sized int, Date and Time
# select NativeHashMap[K, V] / NativeKeyHashMap[K] / NativeHashRecord / NativeKeyHashRecord / NativeHashSet[T] / NativeArrayList[T] /
# NativeArrayTuple[T] (for String/Symbol/Char/Float keys the value type selects NativeHashMap[K, V] vs NativeKeyHashMap[K]); an untyped
# empty literal has element type `never` and is specialised as well; everything else (Int, unions, bool, nil ...) is backed by
# HashMapOfValue / HashRecordOfValue / HashSetOfValue / ArrayListOfValue / ArrayTupleOfValue.  A variant is a literal given to a local
# DECLARED with the full generic type (`var m: Std::HashMap[Std::Int, Std::String] = {}`), so that the declared type - not the elements -
# decides the representation, also for the EMPTY state.
# element type -> (type text, three member values, one further value, specialised?)
ELT = {
    "Int": ("Std::Int", ["1", "2", "3"], "99", False),
    "IntOrString": ("Std::Int | Std::String", ["1", '"b"', "3"], "99", False),
    "Bool": ("Std::Bool", ["true", "false", "true"], "false", False),
    "String": ("Std::String", ['"a"', '"b"', '"c"'], '"zz"', True),
    "Symbol": ("Std::Symbol", [":a", ":b", ":c"], ":zz", True),
    "Char": ("Std::Char", ["`a`", "`b`", "`c`"], "`z`", True),
    "Float": ("Std::Float", ["1.5", "2.5", "3.5"], "9.5", True),
    "Float64": ("Std::Float64", ["1.5f64", "2.5f64", "3.5f64"], "9.5f64", True),
    "Int8": ("Std::Int8", ["1i8", "2i8", "3i8"], "99i8", True),
    "UInt8": ("Std::UInt8", ["1u8", "2u8", "3u8"], "99u8", True),
    "Int64": ("Std::Int64", ["1i64", "2i64", "3i64"], "99i64", True),
    "UInt": ("Std::UInt", ["1u", "2u", "3u"], "99u", True),
    "Date": ("Std::Date", ["Date(2024, 1, 1)", "Date(2024, 1, 2)", "Date(2024, 1, 3)"], "Date(1999, 1, 1)", True),
}
# value types for which a String/Symbol/Char/Float-keyed map gets the fully native NativeHashMap[K, V]
NATIVE_VAL = {"String", "Symbol", "Char", "Float", "Float64", "Int8", "UInt8", "Int64", "UInt", "Bool", "Date"}
NATIVE_KV_KEYS = {"String", "Symbol", "Char", "Float"}
# (key, value) element types of the map / record variants: the first value-backed and the first native pair are the core ones
MAP_ELTS = [("Int", "Int"), ("String", "Int"), ("Int", "String"), ("IntOrString", "Int"), ("Bool", "Int"), ("String", "String"),
            ("Symbol", "Int"), ("Symbol", "Float"), ("Char", "Bool"), ("Float", "Float"), ("Int8", "Int"), ("Int64", "String"),
            ("UInt8", "Int"), ("Date", "Int")]
SEQ_ELTS = ["Int", "String", "IntOrString", "Bool", "Symbol", "Char", "Float", "Float64", "Int8", "UInt8", "Int64", "UInt", "Date"]
COLL = {"Std::HashMap": ("{", "}", True, True), "Std::HashRecord": ("%{", "}", True, False), "Std::HashSet": ("^[", "]", False, True),
        "Std::ArrayList": ("[", "]", False, True), "Std::ArrayTuple": ("%[", "]", False, False)}
# collection classes that are passed as arguments of `any` parameters of a collection receiver (the class itself and its sibling kinds)
FAMILY = {"Std::HashMap": ["Std::HashMap", "Std::HashRecord"], "Std::HashRecord": ["Std::HashRecord", "Std::HashMap"],
          "Std::ArrayList": ["Std::ArrayList", "Std::ArrayTuple"], "Std::ArrayTuple": ["Std::ArrayTuple", "Std::ArrayList"],
          "Std::HashSet": ["Std::HashSet", "Std::ArrayList"]}
# declared parameter types (not writable in a top-level program: they mention type parameters) that are collection supertypes
GENERIC_COLL = {"Std::Tuple[V]": "Std::Tuple", "Std::Record[K, V]": "Std::Record", "Std::ImmutableSet[V]": "Std::ImmutableSet"}


class Var:
    """one representation variant of a collection class: literal `expr`, declared type `typ` (None: bare literal), canonical class
    `tag` = class/backing/state, element values for the class's type parameters, compiler-pool hazard tag `hz`"""
    __slots__ = ("expr", "typ", "core", "cls", "tag", "elems", "hz")

    def __init__(self, expr, typ, core, cls, tag, elems, hz):
        self.expr, self.typ, self.core, self.cls, self.tag, self.elems, self.hz = expr, typ, core, cls, tag, elems, hz

    def elem_expr(self, pt, i):
        vs = self.elems.get(pt)
        return vs[i % len(vs)] if vs else None


def _backing(cls, k, v=None):
    if not ELT[k][3]:
        return "value"
    if v is None:
        return "native[%s]" % k
    return ("native[%s,%s]" % (k, v)) if (k in NATIVE_KV_KEYS and v in NATIVE_VAL) else ("nativekey[%s]" % k)


def _variants(cls):
    opn, cls_, ismap, mutable = COLL[cls]
    out = []
    elts = MAP_ELTS if ismap else [(e, None) for e in SEQ_ELTS]
    n_value = n_native = 0
    for (k, v) in elts:
        kt, kv, kx, knat = ELT[k]
        if ismap:
            vt, vv, vx, _ = ELT[v]
            typ = "%s[%s, %s]" % (cls, kt, vt)
            items = ["%s => %s" % (kv[i], vv[i]) for i in range(3)]
            elems = {"Key": [kv[0], kx, kv[1], kv[2]], "Value": [vv[0], vx, vv[1], vv[2]]}
        else:
            typ = "%s[%s]" % (cls, kt)
            items = list(kv)
            elems = {"Val": [kv[0], kx, kv[1], kv[2]], "Element": [kv[0], kx, kv[1], kv[2]]}
        if k == "Bool":
            items = items[:2]
        back = _backing(cls, k, v)
        first = (back == "value" and n_value == 0) or (back != "value" and n_native == 0)
        if back == "value":
            n_value += 1
        else:
            n_native += 1
        # the compiler crashes on two static literals of the same native hash-record type in one function (value pool dedup
        # compares uncomparable structs): such literals are kept apart (one per generated program)
        hz = ("rec:" + k) if (cls == "Std::HashRecord" and back != "value") else None
        states = [("empty", "", first), ("single", items[0], first and back == "value"), ("multi", ", ".join(items), first)]
        for (st, body, core) in states:
            out.append(Var(opn + body + cls_, typ, core, cls, "%s/%s/%s" % (cls, back, st), elems, hz))
            if mutable and st != "single":   # spare capacity
                out.append(Var(opn + body + cls_ + ":8", typ, core and st == "empty" and back == "value", cls,
                               "%s/%s/%s+capacity" % (cls, back, st), elems, hz))
    # the untyped empty literal: element type `never`, specialised
    out.append(Var(opn + cls_, None, False, cls, "%s/native[never]/empty" % cls, {}, None))
    out.sort(key=lambda x: not x.core)
    return out


VARIANTS = {c: _variants(c) for c in COLL}

for _c in COLL:
    RECV[_c] = RECV[_c] + VARIANTS[_c]

# classes whose constructor is called but whose instances are not used as receivers (the constructor does not yield an instance)
INIT_ONLY = {"Std::String::Span"}
# element type of the receiver (what the type parameters Val / Key / Value / Element stand for)
CHAR_ELEM = {"Std::String::CharIterator", "Std::String::GraphemeIterator", "Std::String"}
BYTE_ELEM = {"Std::String::ByteIterator"}
# never executed: blocking, process-wide effects, or unbounded work
SKIP_METHODS = {"sleep", "exit", "gets", "readln", "print", "println", "puts", "breakpoint", "loop", "await", "await_sync",
                "lock", "unlock", "read_lock", "read_unlock", "wait", "++", "--", "hash", "local=", "cycle", "repeat"}
# receivers on which an Int argument is a count / size / shift: huge Ints would only measure memory
NUMERIC_RECV = {"Std::Int", "Std::Float", "Std::BigFloat", "Std::Float64", "Std::Float32", "Std::Date::Span", "Std::Time::Span",
                "Std::DateTime::Span", "Std::Date", "Std::Time", "Std::DateTime"} | set(FIXED)
SMALL_ONLY_OPS = {"**", "<<", ">>", "<<<", ">>>", "times", "iter"}

# legacy literal catalogue for parameter types that cannot be written in source (type parameters) or are structural
ARGS = {
    "Std::Tuple[V]": ["%[1, 2]", "[1]", "ArrayTuple::[Int]()"], "Std::ImmutableSet[V]": ["^[1, 2]", "^[1]"],
    "Std::Record[K, V]": ["%{1 => 2}", "{1 => 2}"],
    "Std::String::Convertible": ['"a"', "1", "`a`", "2.5", ":a"],
}
TYPE_PARAMS = {"V", "I", "T", "Val", "Key", "Value", "K", "Element", "E", "V1", "V2", "E1", "E2"}
WORD = re.compile(r"[A-Za-z_][A-Za-z0-9_]*(?:::[A-Za-z_][A-Za-z0-9_]*)*")


def writable(t):
    """can the declared parameter type be written as the type of a local of a top-level program?"""
    if not t or t.startswith("|") or "%" in t or "&" in t or "^" in t or "!" in t:
        return False
    for w in WORD.findall(t):
        if w in ("any", "bool", "nil", "true", "false"):
            continue
        if not w.startswith("Std::") or w.split("::")[-1] in TYPE_PARAMS:
            return False
    return True


def elem_exprs(ns):
    if ns in CHAR_ELEM:
        return ["`a`", "`z`"]
    if ns in BYTE_ELEM:
        return ["97u8", "0u8"]
    return ["1", "3", "0", "99"]


def closure_arg(t, ns):
    m = re.match(r"^\|(.*)\|: (.*?)( ! .*)?$", t)
    if not m:
        return None
    params, depth, cur = [], 0, ""
    for ch in m.group(1):
        if ch in "[(|":
            depth += 1
        elif ch in "])":
            depth -= 1
        if ch == "," and depth == 0:
            params.append(cur)
            cur = ""
        else:
            cur += ch
    if cur.strip():
        params.append(cur)
    names = ["a", "b", "c", "d"][:len(params)]
    ret = m.group(2).strip()
    if ret in ("bool", "Std::Bool"):
        bodies = ["true", "false"]
    elif ret == "void":
        bodies = ["nil"]
    elif ret in TYPE_PARAMS or ret == "any":
        bodies = [names[0] if names else "1"]
    elif ret.startswith("Std::Pair["):
        bodies = ["Pair(1, 2)"]
    else:
        return None
    if not names:
        return ["-> " + b for b in bodies]
    return ["|%s| -> %s" % (", ".join(names), b) for b in bodies]


class Choice:
    __slots__ = ("expr", "typ", "core", "cls", "elem", "var")

    def __init__(self, expr, typ, core, cls, elem=None, var=None):
        self.expr, self.typ, self.core, self.cls = expr, typ, core, cls   # typ: declared type of the local, None = literal form
        self.elem = elem    # (type parameter name, index): replaced by an element value of the receiver variant
        self.var = var      # collection variant (well-typed by construction: not sent through the typing pre-pass)


def argkey(rtag, avars):
    """key segment of a call with collection arguments: backing kind of the receiver variant (value / native) and the classes of the
    collection arguments"""
    if not avars:
        return ""
    back = rtag.split("/")[1] if rtag else "value"     # the hand-written receiver literals all have Int elements / keys
    return "recv=%s:arg=%s" % ("value" if back == "value" else "native", ",".join(v.cls for v in avars))


def variant_choices(classes, core_only=False):
    out = []
    for c in classes:
        for v in VARIANTS.get(c, []):
            if core_only and not v.core:
                continue
            out.append(Choice(v.expr, v.typ, v.core, v.tag, var=v))
    return out


def pool_classes(tset, tab):
    """catalogue classes that are members of the declared parameter type (by name or through a type-level ancestor)"""
    names = set(tset.split(","))
    out = []
    for c in POOL:
        if c in names or (set(tab.anc.get(c, [])) & names):
            out.append(c)
    if "Std::Bool" in names:
        out += [c for c in ("Std::True", "Std::False") if c not in out]
    return out


def param_choices(r, p, tab, tier_all):
    """all argument choices of one declared parameter: for a writable declared type T every value of every member class
    both as `var a: T = v` (so that the overload declared with T is the one selected) and as a literal"""
    pt = p[2]
    tset = p[3] if len(p) > 3 else "*"
    ns = r["ns"]
    base = r["name"].split("@")[0]
    if pt in TYPE_PARAMS:
        return [Choice(e, None, i < 2, "elem", elem=(pt, i)) for i, e in enumerate(elem_exprs(ns))]
    if pt in GENERIC_COLL:
        # a collection supertype: every representation variant of EVERY concrete collection class that belongs to it
        sup = GENERIC_COLL[pt]
        xs = variant_choices([c for c in COLL if sup in tab.anc.get(c, [])])
        if xs:
            return xs + [Choice(e, None, False, "lit") for e in ARGS.get(pt, [])]
    if pt.startswith("|"):
        c = closure_arg(pt, ns)
        return [Choice(e, None, True, "closure") for e in c] if c else None
    if not writable(pt):
        lit = ARGS.get(pt)
        if lit is None:
            if pt in ("Std::ArrayList[Val]", "Std::List[Val]"):
                lit = ["[1]", "ArrayList::[Int]()", "[3, 1, 2]"]
            elif pt == "Std::ArrayTuple[Val]":
                lit = ["%[1]", "ArrayTuple::[Int]()"]
            elif pt == "Std::HashSet[Val]":
                lit = ["^[1]", "^[1, 2, 3]"]
            elif pt == "Std::HashMap[Key, Value]":
                lit = ["{1 => 2}"]
            elif pt == "Std::HashRecord[Key, Value]":
                lit = ["%{1 => 2}"]
            elif pt == "Std::Pair[Key, Value]":
                lit = ["Pair(1, 2)"]
        return [Choice(e, None, i < 2, "lit") for i, e in enumerate(lit)] if lit else None
    vals = []   # (expr, core, cls)
    if tset == "*":
        for i, e in enumerate(ARGS.get(pt, []) + MIXED):
            if all(e != v[0] for v in vals):
                vals.append((e, i < 6, "mixed"))
        fam = variant_choices(FAMILY.get(ns, []), core_only=True)   # `any` parameter of a collection: same and sibling kinds
    else:
        small_only = ns.lstrip("&") not in NUMERIC_RECV or base in SMALL_ONLY_OPS or r["name"] == "#init" and ns not in NUMERIC_RECV
        for c in pool_classes(tset, tab):
            core, ext = POOL[c]
            for e in core:
                vals.append((e, True, c))
            for e in ext:
                if small_only and (e in HUGE_INTS or e in ("1e300", "1e100bf")):
                    continue
                if base in SMALL_ONLY_OPS and re.search(r"\d{5,}", e):   # exponent / shift count: `5i64 ** 9223372036854775807i64` never ends
                    continue
                vals.append((e, False, c))
    if not vals:
        return None
    out = list(fam) if tset == "*" else []
    for (e, core, c) in vals:
        out.append(Choice(e, pt, core, c))
        out.append(Choice(e, None, core, c))
    return out


BINOPS = {"+", "-", "*", "/", "%", "**", "==", "!=", "=~", "!~", "===", "!==", "<", "<=", ">", ">=", "<=>", "<<", ">>", "<<<", ">>>",
          "&", "|", "^", "&~", "&&", "||"}
UNOPS = {"-@": "-", "+@": "+", "~": "~"}


def call_expr(r, recv, args):
    name = r["name"].split("@")[0] if r["name"] not in UNOPS else r["name"]
    if r["name"] == "#init":
        return "%s(%s)" % (r["ns"].replace("Std::", "::Std::", 1), ", ".join(args))
    if name in UNOPS and not args:
        return "%s(%s)" % (UNOPS[name], recv)
    if name in BINOPS and len(args) == 1:
        return "(%s) %s (%s)" % (recv, name, args[0])
    if name == "[]" and len(args) == 1:
        return "(%s)[%s]" % (recv, args[0])
    if name == "[]=" and len(args) == 2:
        return "(%s)[%s] = %s" % (recv, args[0], args[1])
    if name == "call":
        return "(%s).(%s)" % (recv, ", ".join(args))
    if name.endswith("=") and re.match(r"^[a-z_][a-zA-Z0-9_]*=$", name) and len(args) == 1:
        return "(%s).%s = %s" % (recv, name[:-1], args[0])
    if not re.match(r"^[a-z_][a-zA-Z0-9_]*[?!]?$", name):
        return None
    return "(%s).%s(%s)" % (recv, name, ", ".join(args))


NO_PROBE_NS = ("Std::Sync", "Std::Channel", "Std::ReadChannel", "Std::WriteChannel", "Std::Thread", "Std::ThreadPool", "Std::Promise",
               "Std::Generator", "Std::FS", "Std::Kernel", "Std::Elk", "Std::Aborter")
CHEAP_RET = {"Std::Int", "bool", "Std::Bool", "Std::String", "Std::Float", "Std::Symbol", "Std::Char"}


def build_probes(tab):
    """class C -> name of one cheap method declared by C itself (not inherited), natively implemented, callable with no
    arguments: invoked on the result of every call whose declared return type is exactly C.  The call is statically bound,
    so a result of another class is reached by C's native code."""
    cands = {}
    for r in tab.rows:
        ns = r["ns"]
        if r["kind"] != "own" or r["nskind"] != "class" or not r["found"] or r["rkind"] != "native" or r["req"] != 0:
            continue
        if not compatible(r) or any(f in r["flags"] for f in "aygmov") or r["declin"] not in ("", ns):
            continue
        if any(ns == n or ns.startswith(n + "::") for n in NO_PROBE_NS):
            continue
        name = r["name"]
        if name in SKIP_METHODS or not re.match(r"^[a-z_][a-zA-Z0-9_]*$", name) or r["retset"] in ("void", "never"):
            continue
        if name in ("iter", "copy", "class", "inspect", "to_string", "close", "clear", "pop", "shift", "run", "start", "stop", "join", "next", "reset"):
            continue
        cands.setdefault(ns, []).append((0 if r["ret"] in CHEAP_RET else 1, name))
    return {ns: sorted(v)[0][1] for ns, v in cands.items()}


def probe_for(r, probes):
    rs = r["retset"]
    if r["name"] == "#init" or "," in rs or rs not in probes:
        return None
    if r["ret"] != rs and not r["ret"].startswith(rs + "["):
        return None
    return probes[rs]


def gen_calls(tab, rng, thorough, only=None, probes=None, typing=None):
    """-> list of dict(row, expr, pre, argc, void, probe) ; skipped: counter by reason.
    typing: dict (type, expr) -> bool from the typing pre-pass (None = collect every typed pair into the returned set)"""
    calls, skipped = [], {}
    wanted = set()
    probes = probes or {}
    CAP = 300

    def skip(why):
        skipped[why] = skipped.get(why, 0) + 1
    for r in tab.rows:
        if only is not None and r["idx"] not in only:
            continue
        if "a" in r["flags"] or not r["concrete"]:
            skip("abstract-or-no-instances")
            continue
        ns = r["ns"]
        recvs = RECV.get(ns) if r["name"] != "#init" else [""]
        if r["name"] == "#init" and ns not in RECV and ns not in INIT_ONLY:
            recvs = None
        if not recvs:
            skip("no-receiver-catalogue:" + ("Std::Elk::*" if ns.lstrip("&").startswith("Std::Elk") else "other"))
            continue
        base = r["name"].split("@")[0]
        if base in SKIP_METHODS or "y" in r["flags"]:
            skip("blocked-method")
            continue
        pos = [p for p in r["plist"] if p[1] in ("n", "o")]
        restp = [p for p in r["plist"] if p[1] == "r"]
        has_closure = any(p[2].startswith("|") for p in r["plist"])
        if has_closure or base in SMALL_ONLY_OPS or r["kind"] == "inh":
            recvs = [x for x in recvs if x not in HUGE_INTS] or recvs
        choices = []
        ok = True
        for p in pos + restp:
            xs = param_choices(r, p, tab, thorough)
            if xs and typing is not None:
                xs = [c for c in xs if c.typ is None or c.var is not None or typing.get((c.typ, c.expr), False)]
            if not xs:
                ok = False
                skip("no-argument-generator")
                break
            if typing is None:
                wanted.update((c.typ, c.expr) for c in xs if c.typ is not None and c.var is None)
            choices.append(xs)
        if not ok or typing is None:
            continue
        overloaded = "o" in r["flags"]
        if overloaded:   # a literal argument selects the specialised overload `name@k`, which is a row of its own
            choices = [([c for c in xs if c.typ is not None] or xs) for xs in choices]
        probe = probe_for(r, probes)
        void = (r["retset"] == "void" and r["name"] != "#init") or r["name"] == "[]="
        counts = list(range(r["req"], r["req"] + r["opt"] + 1))
        variants = []
        for argc in counts:
            variants.append((argc, 0))
            if restp and argc == r["req"] + r["opt"]:
                variants.append((argc, 2))
        for (argc, nrest) in variants:
            if restp and r["post"]:
                break
            plans = []   # (recv, [Choice...])
            per = []
            for i in range(argc):
                # one value -> one form in the one-factor plan: the declared-type local when the method has overloads (the literal
                # would select the specialised overload, which has its own row), otherwise seeded
                typed = [c for c in choices[i] if c.typ is not None]
                lit = [c for c in choices[i] if c.typ is None]
                per.append((typed, lit))
            if thorough:
                rc = [x for x in recvs if not isinstance(x, Var) or x.core]
                for j, x in enumerate(recvs):   # every further representation variant of the receiver once, arguments rotating
                    if isinstance(x, Var) and not x.core:
                        plans.append((x, [choices[k][(j + 7 * k) % len(choices[k])] for k in range(argc)]))
                axes = [rc] + [choices[i] for i in range(argc)]
                total = 1
                for a in axes:
                    total *= len(a)
                if total <= CAP:
                    idx = [0] * len(axes)
                    while True:
                        plans.append((axes[0][idx[0]], [axes[k + 1][idx[k + 1]] for k in range(argc)]))
                        k = len(axes) - 1
                        while k >= 0:
                            idx[k] += 1
                            if idx[k] < len(axes[k]):
                                break
                            idx[k] = 0
                            k -= 1
                        if k < 0:
                            break
                else:
                    n1 = max(len(a) for a in axes)
                    offs = [rng.below(len(a)) for a in axes]
                    for j in range(n1):
                        plans.append((axes[0][(j + offs[0]) % len(axes[0])], [axes[k + 1][(j + offs[k + 1]) % len(axes[k + 1])] for k in range(argc)]))
                    for j in range(CAP - n1):
                        plans.append((axes[0][rng.below(len(axes[0]))], [axes[k + 1][rng.below(len(axes[k + 1]))] for k in range(argc)]))
            else:
                cores = []
                for i in range(argc):
                    typed, lit = per[i]
                    if typed and (overloaded or not lit):
                        pick = [c for c in typed if c.core]
                    elif typed:
                        tl = {c.expr: c for c in typed}
                        pick = [(tl[c.expr] if (c.expr in tl and rng.below(2) == 0) else c) for c in lit if c.core]
                        pick += [c for c in typed if c.core and c.var is not None]
                    else:
                        pick = [c for c in lit if c.core]
                    cores.append(pick or choices[i][:1])
                n1 = max([1] + [len(c) for c in cores])
                rcore = [x for x in recvs if not isinstance(x, Var) or x.core]
                roff = rng.below(len(rcore))
                offs = [rng.below(len(c)) for c in cores]
                for j in range(n1):
                    plans.append((rcore[(j + roff) % len(rcore)], [cores[i][(j + offs[i]) % len(cores[i])] for i in range(argc)]))
            # collection receiver x collection argument: the full product of the core representation variants (class x backing x
            # state) of the receiver with the core variants of every member class of the parameter (thorough: all receiver variants x
            # core argument variants), the other parameters rotating
            rv_all = [x for x in recvs if isinstance(x, Var)]
            for i in range(argc):
                cv_all = [c for c in choices[i] if c.var is not None]
                if not cv_all or not rv_all:
                    continue
                rv_core, cv_core = [x for x in rv_all if x.core], [c for c in cv_all if c.core]
                pairs = [(x, c) for x in rv_core for c in cv_core]
                if thorough:
                    pairs += [(x, c) for x in rv_all if not x.core for c in cv_core]
                for j, (x, c) in enumerate(pairs):
                    if x.hz and c.var.hz == x.hz:   # same native record type twice in one function crashes the compiler: other key type
                        alt = [d for d in cv_all if d.var.cls == c.var.cls and d.var.hz not in (None, x.hz)
                               and d.var.tag.split("/")[-1] == c.var.tag.split("/")[-1]]
                        if alt:
                            c = alt[0]
                    plans.append((x, [(c if k == i else choices[k][j % len(choices[k])]) for k in range(argc)]))
            for (recv, cs) in plans:
                pre, args, hz, rtag = [], [], [], ""
                if isinstance(recv, Var):
                    rtag = recv.tag
                    if recv.hz:
                        hz.append(recv.hz)
                    if recv.typ is not None:
                        pre.append(("r", recv.typ, recv.expr))
                        rexpr = "\x00r"
                    else:
                        rexpr = recv.expr
                else:
                    rexpr = recv
                for k, c in enumerate(cs):
                    e = c.expr
                    if c.elem is not None and isinstance(recv, Var):
                        e = recv.elem_expr(c.elem[0], c.elem[1]) or e
                    if c.var is not None and c.var.hz:
                        hz.append(c.var.hz)
                    if c.typ is None:
                        args.append(e)
                    else:
                        pre.append((k, c.typ, e))
                        args.append("\x00%d" % k)
                if len(set(hz)) < len(hz):
                    skip("two-native-record-literals-of-one-type(compiler crash)")
                    continue
                recv = rexpr
                rest_args = [choices[-1][0].expr] * nrest if restp else []
                e = call_expr(r, recv, args + rest_args)
                if e is None:
                    skip("no-call-syntax")
                    break
                calls.append(dict(row=r, expr=e, pre=pre, argc=argc + nrest, void=void, probe=None if void else probe,
                                  argcls=",".join(c.cls for c in cs), hz=hz, rtag=rtag,
                                  argkey=argkey(rtag, [c.var for c in cs if c.var is not None])))
    if typing is None:
        return wanted, skipped
    # dedupe identical calls of the same row
    seen, out = set(), []
    for c in calls:
        k = (c["row"]["idx"], c["expr"], tuple(c["pre"]))
        if k not in seen:
            seen.add(k)
            out.append(c)
    return out, skipped


def typing_prepass(elk, pairs, workdir):
    """which `var a: T = v` declarations does the checker accept?  one declaration per line, rejected lines are read off the
    diagnostics; repeated on the accepted ones until the program compiles"""
    pairs = sorted(pairs)
    ok = {p: True for p in pairs}
    for attempt in range(4):
        live = [p for p in pairs if ok[p]]
        if not live:
            break
        src = "".join("var t%d: %s = %s\n" % (i, t, e) for i, (t, e) in enumerate(live))
        res = vlib.run_programs(elk, [("typing%d" % attempt, src)], workdir, workers=1, timeout=300)
        rc, out, cls = res["typing%d" % attempt]
        bad = set(int(m.group(1)) - 1 for m in re.finditer(r"\.elk:(\d+):\d+", out))
        if not bad:
            if cls != "ok":
                return None, out[-600:]
            break
        for k in bad:
            if 0 <= k < len(live):
                ok[live[k]] = False
    return ok, ""


def case_src(c):
    """source of one call; the locals declared with the declared parameter types get call-unique names"""
    cid = c["id"]
    expr = c["expr"]
    lines = ['println("B\\t%s")' % cid, "do"]
    for (k, t, e) in c.get("pre") or []:
        lines.append("  var a%s_%s: %s = %s" % (cid, k, t, e))
        expr = expr.replace("\x00%s" % k, "a%s_%s" % (cid, k))
    for pl in c.get("prelude") or []:
        lines.append("  " + pl)
    if c["void"]:
        lines += ["  " + expr, '  println("R\\t%s\\tvoid")' % cid]
    elif c.get("probe"):
        lines += ["  r%s := %s" % (cid, expr),
                  "  var q%s: any = r%s" % (cid, cid),
                  "  switch q%s" % cid,
                  "  case Value() as v",
                  '    println("R\\t%s\\t" + v.class.name)' % cid,
                  "  end",
                  "  do",
                  "    r%s.%s()" % (cid, c["probe"]),
                  '    println("P\\t%s\\tok")' % cid,
                  "  catch Value() as e2",
                  '    println("P\\t%s\\tthrew " + e2.class.name)' % cid,
                  "  end"]
    else:
        lines += ["  var r: any = " + expr,
                  "  switch r",
                  "  case Value() as v",
                  '    println("R\\t%s\\t" + v.class.name)' % cid,
                  "  end"]
    lines += ["catch Value() as e", '  println("E\\t%s\\t" + e.class.name)' % cid, "end"]
    return "\n".join(lines) + "\n"


def shown(c):
    """the call as text (for messages and samples)"""
    e = c["expr"]
    pre = []
    for (k, t, v) in c.get("pre") or []:
        e = e.replace("\x00%s" % k, "a%s" % k)
        pre.append("var a%s: %s = %s" % (k, t, v))
    pre += list(c.get("prelude") or [])
    return "; ".join(pre + [e])


def program(chunk):
    src, starts, line = [], [], 1
    for c in chunk:
        s = case_src(c)
        starts.append(line)
        line += s.count("\n")
        src.append(s)
    return "".join(src), starts


CRASH = ("go_panic", "go_fatal", "timeout", "signal")


def run_chunks(elk, chunks, workdir, tag):
    """run programs; drop calls the checker rejects (ill-typed generator output; a call rejected WITH its result probe is
    retried without it), resume after a crash.
    returns ({call id: (kind, detail)}, {call id: (kind, detail)} for the probes) with kind in R E panic fatal timeout rejected lost"""
    import bisect
    results, presults = {}, {}
    pending = [(("%s%d" % (tag, i)), ch) for i, ch in enumerate(chunks)]
    rounds = 0
    while pending and rounds < 400:
        rounds += 1
        progs, starts = [], {}
        for pid, ch in pending:
            src, st = program(ch)
            progs.append((pid, src))
            starts[pid] = st
        res = vlib.run_programs(elk, progs, workdir, workers=12, timeout=90)
        nxt = []
        for pid, ch in pending:
            rc, out, cls = res[pid]
            seen_b = []
            for line in out.splitlines():
                p = line.split("\t")
                if p[0] == "B" and len(p) >= 2:
                    seen_b.append(p[1])
                elif p[0] in ("R", "E") and len(p) >= 3:
                    results[p[1]] = (p[0], p[2])
                elif p[0] == "P" and len(p) >= 3:
                    presults[p[1]] = ("ok", p[2])
            ids = [c["id"] for c in ch]
            if not seen_b and ("[FAIL]" in out or cls == "elk_error"):
                # compile-time rejection: map diagnostics lines to calls
                bad = set()
                for m in re.finditer(r"\.elk:(\d+):\d+", out):
                    k = bisect.bisect_right(starts[pid], int(m.group(1))) - 1
                    if 0 <= k < len(ch):
                        bad.add(k)
                if not bad:
                    if len(ch) == 1:
                        bad = {0}
                    else:   # cannot attribute: split
                        h = len(ch) // 2
                        nxt.append((pid + "a", ch[:h]))
                        nxt.append((pid + "b", ch[h:]))
                        continue
                msg = re.sub(r"\s+", " ", out)[:300]
                rest = []
                for i, c in enumerate(ch):
                    if i in bad:
                        if c.get("probe"):
                            c["probe"] = None
                            c["probe_dropped"] = True
                            rest.append(c)
                        else:
                            results[c["id"]] = ("rejected", msg)
                    else:
                        rest.append(c)
                if rest:
                    nxt.append((pid + "r", rest))
                continue
            if not seen_b and cls in CRASH:
                # the front end itself crashed or hung (not this property): isolate and drop the call
                if len(ch) == 1:
                    results[ch[0]["id"]] = ("rejected", "front end %s: %s" % (cls, re.sub(r"\s+", " ", out)[:300]))
                else:
                    h = len(ch) // 2
                    nxt.append((pid + "a", ch[:h]))
                    nxt.append((pid + "b", ch[h:]))
                continue
            last = seen_b[-1] if seen_b else None
            if last is None:
                if cls != "ok":
                    for c in ch:
                        results.setdefault(c["id"], ("lost", out[-300:]))
                continue
            k = ids.index(last) if last in ids else len(ch) - 1
            lastc = ch[k]
            crashed = cls in CRASH or last not in results or k < len(ch) - 1
            if not crashed:
                continue
            kind = {"go_panic": "panic", "go_fatal": "fatal", "timeout": "timeout"}.get(cls, "panic" if "panic" in out else "lost")
            m = re.search(r"(panic: .*|fatal error: .*)", out)
            detail = (m.group(1) if m else out[-300:])[:400]
            if last not in results:
                results[last] = (kind, detail)
            elif results[last][0] == "R" and lastc.get("probe") and last not in presults:
                presults[last] = (kind, detail)
            rest = ch[k + 1:]
            if rest:
                nxt.append((pid + "c", rest))
        pending = nxt
    return results, presults


def member(cls, tset, tab, selfns):
    names = set(tset.split(","))
    if "*" in names:
        return True
    cands = {cls} | set(tab.anc.get(cls, []))
    if "self" in names and (selfns in cands):
        return True
    return bool(cands & names)


def panic_class(detail):
    d = re.sub(r"0x[0-9a-f]+", "0x", detail)
    d = re.sub(r"\d+", "N", d)
    if "is not a reference" in d:
        return "value-is-not-a-reference"
    if "big.Float(NaN)" in detail:
        return "big-float-nan"
    if "fatal error: fault" in detail:
        return "nil-dereference"      # unexpected fault address: the same wild read as the SIGSEGV form
    if "invalid method" in d:
        return "invalid-method"
    if "interface conversion" in d:
        return "interface-conversion"
    if "index out of range" in d:
        return "index-out-of-range"
    if "nil pointer" in d or "invalid memory address" in d:
        return "nil-dereference"
    return re.sub(r"[^a-zA-Z]+", "-", d)[:40].strip("-")


def stream_calls(ctx, tab, elk, bad_rows, only_keys=None):
    stream = "c28.calls"
    rng = ctx.rng(stream)
    thorough = not ctx.quick()
    workdir = os.path.join(ctx.workdir, "calls")
    checked = set()
    for r in tab.rows:
        for c in r["throwset"].split(","):
            if c not in ("never", "*", "void", "self", ""):
                checked.add(c)
    probes = build_probes(tab)
    # which (declared parameter type, value) pairs does the checker accept as `var a: T = v`
    wanted, _ = gen_calls(tab, rng, thorough, typing=None)
    typing, terr = typing_prepass(elk, wanted, workdir)
    if typing is None:
        ctx.broke("c28.calls: the typing pre-pass program (declared-type locals) neither compiled nor named a rejected line", terr)
        typing = {}
    # rows the table already rejects are executed once per class (confirmation), the others are sampled
    good = [r["idx"] for r in tab.rows if r["idx"] not in bad_rows and r["found"] and (only_keys is None or r["key"] in only_keys)]
    calls, skipped = gen_calls(tab, rng, thorough, only=set(good), probes=probes, typing=typing)
    budget = ctx.n(QUICK_BUDGET, 10 ** 9)
    # corpus (past failures) first: lines `row-key` (all generated calls of that row) or `row-key<TAB>expression`
    # (an expression may be preceded by declarations: `var d: Std::CoercibleNumeric = 1 ;; (recv) / d`)
    corpus, explicit = [], {}
    cpath = os.path.join(vlib.ROOT, "corpus", "C28.calls.txt")
    if os.path.exists(cpath):
        for line in open(cpath):
            line = line.rstrip("\n")
            if line.strip() and not line.startswith("#"):
                p = line.split("\t")
                corpus.append(p[0])
                if len(p) > 1:
                    explicit.setdefault(p[0], []).append((p[1], p[2] if len(p) > 2 else ""))

    def explicit_call(r, text_ak):
        text, ak = text_ak
        parts = [x.strip() for x in text.split(";;")]
        void = (r["retset"] == "void" and r["name"] != "#init")
        return dict(row=r, expr=parts[-1], prelude=parts[:-1], pre=[], argc=-1, void=void,
                    probe=None if void else probe_for(r, probes), argcls="corpus", argkey=ak)
    rowbykey = {r["key"]: r for r in tab.rows}
    byrow = {}
    for c in calls:
        byrow.setdefault(c["row"]["key"], []).append(c)
    chosen = []
    for k in corpus:
        r = rowbykey.get(k)
        if r is None or r["idx"] in bad_rows:
            continue
        for e in explicit.pop(k, []):
            chosen.append(explicit_call(r, e))
        if thorough:
            chosen += byrow.pop(k, [])
    n_corpus = len(chosen)
    rest = [c for k in sorted(byrow) for c in byrow[k]]
    n_generated = len(rest)
    dropped_rows = 0
    if len(rest) + len(chosen) > budget:
        # over budget (quick tier only): the rows WITH parameters keep their whole one-factor plan, the parameterless rows are
        # sampled from the seed
        withp = [c for c in rest if c["argc"] > 0]
        nop = [c for c in rest if c["argc"] <= 0]
        rng.shuffle(nop)
        room = max(0, budget - len(chosen) - len(withp))
        dropped_rows = len(set(c["row"]["key"] for c in nop[room:]) - set(c["row"]["key"] for c in nop[:room]))
        rest = withp + nop[:room]
        if len(rest) + len(chosen) > budget:
            rng.shuffle(rest)
            rest = rest[:max(0, budget - len(chosen))]
    rng.shuffle(rest)    # crashing calls (known findings) end up in different programs, so their resumptions run in parallel
    chosen += rest
    # confirmation calls for rejected rows: one per class key
    confirm = {}
    for idx in sorted(bad_rows):
        r = tab.rows[idx]
        k = class_key(r, tab)
        if k in confirm:
            continue
        cs, _ = gen_calls(tab, rng, False, only={idx}, probes={}, typing=typing)
        if cs:
            confirm[k] = cs[0]
    for rk, exprs in explicit.items():     # corpus expressions of rows the table rejects: they are the confirmation
        r = rowbykey.get(rk)
        if r is not None and r["idx"] in bad_rows:
            confirm[class_key(r, tab)] = dict(explicit_call(r, exprs[0]), void=False, probe=None)
    conf_list = [confirm[k] for k in sorted(confirm)][:ctx.n(400, 100000)]
    for i, c in enumerate(chosen + conf_list):
        c["id"] = "c%d" % i
    size = 50
    # programs of 50 calls; calls that load a static literal of the same native hash-record type never share a program (the compiler
    # panics on the second one: value-pool deduplication compares uncomparable structs)
    chunks, chz, fill = [], [], 0
    for c in chosen:
        h = set(c.get("hz") or [])
        k = fill
        while k < len(chunks) and (len(chunks[k]) >= size or (h & chz[k])):
            k += 1
        if k == len(chunks):
            chunks.append([])
            chz.append(set())
        chunks[k].append(c)
        chz[k] |= h
        while fill < len(chunks) and len(chunks[fill]) >= size:
            fill += 1
    res, pres = run_chunks(elk, chunks, workdir, "p") if chunks else ({}, {})
    # a crashed call is re-run alone (up to 2 more times) so that a load-dependent crash is not blamed on the method; only the
    # first crash of a (row, crash class) is re-run, further ones of the same class are taken as they are
    rerun_seen = set()
    BADK = ("panic", "fatal", "timeout", "lost")
    todo = []
    for c in chosen:
        k, d = res.get(c["id"], ("lost", ""))
        pk, pd = pres.get(c["id"], ("", ""))
        if k in BADK or pk in BADK:
            sig = (c["row"]["key"], k, panic_class(d), pk, panic_class(pd))
            if sig not in rerun_seen:
                rerun_seen.add(sig)
                todo.append((c, k, d))
    for attempt in range(2):
        if not todo:
            break
        r2, p2 = run_chunks(elk, [[c] for (c, k, d) in todo], workdir, "re%d_" % attempt)
        still = []
        for (c, k, d) in todo:
            k2, d2 = r2.get(c["id"], ("lost", ""))
            pk2, pd2 = p2.get(c["id"], ("", ""))
            if k2 not in BADK and pk2 not in BADK:
                res[c["id"]] = (k2, d2)
                if c["id"] in p2:
                    pres[c["id"]] = p2[c["id"]]
                else:
                    pres.pop(c["id"], None)
                c["flaky"] = (k, d)
            else:
                still.append((c, k, d))
        todo = still
    cres = run_chunks(elk, [[c] for c in conf_list], workdir, "k")[0] if conf_list else {}
    dist, distinct, nfail, samples = {}, set(), 0, []
    throw_report = {}
    flaky = 0
    nprobed = 0
    forms = {"declared-type-local": 0, "literal": 0, "no-arguments": 0}
    rows_run = set()
    for c in chosen:
        r = c["row"]
        kind, detail = res.get(c["id"], ("lost", ""))
        if c.get("flaky"):
            flaky += 1
        dist[kind] = dist.get(kind, 0) + 1
        if kind != "rejected":
            rows_run.add(r["key"])
            forms["declared-type-local" if c.get("pre") else ("literal" if c["argc"] else "no-arguments")] += 1
        decl = r["ns"]      # calls are keyed by the receiver's namespace (the row), not by the declaring mixin
        what = None
        text = shown(c)
        if kind in ("panic", "fatal"):
            key = "calls:go_%s:%s#%s:%s" % (kind, decl, r["name"], panic_class(detail))
            what = "%s -> Go %s: %s" % (text, kind, detail[:200])
            oracle = "no Go panic / fatal error in a call the checker accepts"
        elif kind == "R":
            distinct.add(r["key"])
            if r["name"] == "#init":
                if detail != r["ns"]:
                    key = "calls:init-class:%s:got=%s" % (r["ns"], detail)
                    what = "%s evaluates to an instance of %s" % (text, detail)
                    oracle = "a constructor call yields an instance of the class"
            elif detail == "void":
                pass
            elif detail == "Undefined":
                key = "calls:return:%s#%s:got=undefined" % (r["declin"] or decl, r["name"])
                what = "%s returned the internal `undefined` marker, which is not a value of any declared type `%s`" % (text, r["ret"])
                oracle = "runtime class of the result is a member of the declared return type"
            elif r["retset"] == "never":
                key = "calls:return:%s#%s:declared=never:got=%s" % (decl, r["name"], detail)
                what = "%s returned a %s but is declared `never`" % (text, detail)
                oracle = "runtime class of the result is a member of the declared return type"
            elif r["retset"] != "void" and not member(detail, r["retset"], tab, r["ns"]):
                # keyed by receiver class x classes of the collection arguments x declared / got
                ak = c.get("argkey") or ""
                key = "calls:return:%s#%s:%sdeclared=%s:got=%s" % (decl, r["name"], (ak + ":") if ak else "", r["ret"], detail)
                what = "%s returned a %s but is declared `%s`" % (text, detail, r["ret"])
                if c.get("rtag"):
                    what += " [receiver %s; arguments %s]" % (c["rtag"], c.get("argcls"))
                oracle = "runtime class of the result is a member of the declared return type"
            if what is None and c.get("probe"):
                pk, pd = pres.get(c["id"], ("lost", ""))
                if pk == "ok":
                    nprobed += 1
                elif pk in ("panic", "fatal"):
                    key = "calls:result-probe:go_%s:%s#%s:%s#%s:%s" % (pk, decl, r["name"], r["retset"], c["probe"], panic_class(pd))
                    what = ("%s returned a %s (declared `%s`), but the statically bound `%s#%s` called on that result ends in a Go %s: %s"
                            % (text, detail, r["ret"], r["retset"], c["probe"], pk, pd[:200]))
                    oracle = "the result of a call is usable as an instance of the declared return class (one parameterless native method of that class is called on it)"
                    kind, detail = "R+probe-" + pk, detail + " / " + pd[:200]
        elif kind == "E":
            distinct.add(r["key"])
            if not member(detail, r["throwset"], tab, r["ns"]):
                cands = {detail} | set(tab.anc.get(detail, []))
                if cands & checked:
                    # reported, not gated: Elk marks `unchecked` on the throw statement, not on the class, so the set of
                    # "unchecked runtime errors" cannot be read off the headers
                    throw_report.setdefault("%s#%s threw %s (declared `%s`)" % (decl, r["name"], detail, r["throw"]), text)
        if what:
            nfail += 1
            ctx.fail(key, what, stream=stream, case=dict(row=r["key"], call=text, program=program([dict(c, id="c0")])[0]),
                     impl="%s %s" % (kind, detail), model="declared: %s ! %s" % (r["ret"], r["throw"]), oracle=oracle)
        if len(samples) < 3 and kind in ("R", "E") and (c.get("pre") or len(samples) < 2):
            samples.append({"input": text, "observed": "%s %s" % (kind, detail), "declared": "%s ! %s" % (r["ret"], r["throw"])})
    # confirmations of the rows the table rejects: attach what really happens
    confirmed = {}
    for k in sorted(confirm):
        c = confirm[k]
        if "id" not in c:
            continue
        kind, detail = cres.get(c["id"], ("lost", ""))
        confirmed[k] = dict(call=shown(c), observed="%s %s" % (kind, detail[:200]))
    for k, v in skipped.items():
        dist["skipped:" + k] = v
    for k, v in forms.items():
        dist["form:" + k] = v
    ctx.extra["report_rejected_calls_sample"] = [
        "%s -> %s" % (shown(c), res[c["id"]][1][:160]) for c in chosen if res.get(c["id"], ("", ""))[0] == "rejected"][:12]
    ctx.extra["report_thrown_checked_class_not_in_declared_throw_type"] = throw_report
    ctx.extra["report_result_probes"] = {"classes_with_probe": len(probes), "sample": dict(sorted(probes.items())[:12])}
    ctx.stream(stream, len(chosen) + len(conf_list), len(distinct), RULE_CALLS,
               samples, dist, failures=nfail, corpus_rows=n_corpus, flaky_crashes_not_reproduced=flaky,
               generated_calls_before_budget=n_generated, rows_executed=len(rows_run), parameterless_rows_left_to_other_seeds=dropped_rows,
               declared_type_value_pairs_accepted=len([1 for v in typing.values() if v]),
               declared_type_value_pairs_rejected=len([1 for v in typing.values() if not v]),
               result_probes_passed=nprobed, probes_dropped_by_checker=len([1 for c in chosen if c.get("probe_dropped")]))
    return confirmed


QUICK_BUDGET = 9000
RULE_CALLS = (
    "every declared/inherited std method with a runtime implementation whose receiver class has values in the catalogue (Int incl. "
    "boundary/BigInt, all fixed-width ints with their extremes, floats incl. NaN/inf, BigFloat, strings, chars, symbols, bool, nil, "
    "lists/tuples/maps/records/sets incl. empty and singleton, finite/beginless ranges over Int/Char/Float, their iterators, regex, "
    "pair, Date/Time/DateTime and their spans with zero/negative/mixed-sign/divisible components, timezone, path, boxes, errors; "
    "SEVERAL receiver values per class) is called through generated top-level Elk programs (`elk run`, 50 calls per program, each "
    "in do/catch printing the runtime class of the result or of the thrown value) for EVERY admitted positional argument count "
    "(and 0/2 rest arguments). Arguments: for a parameter whose declared type T can be written in source (classes, unions, named "
    "types such as CoercibleNumeric/AnyInt/Duration, interfaces, any) every catalogue value of EVERY member class of T (member "
    "classes from the regenerated table; for interfaces/any the pairs the checker accepts in a pre-pass) is passed through a local "
    "DECLARED with type T (`var a: T = v`), so that the overload declared with T - not the specialised `name@k` picked for a "
    "literal - is the method called, and, for methods without overloads, also as a literal; type-parameter / closure / generic "
    "parameters get literal catalogue values. The value lists contain the algebraically special values (0, 1, -1, 2, 3, small "
    "primes = exact divisors and non-divisors of the receivers' components, boundary ints, empty/singleton collections; huge Ints "
    "only where they are not a size/shift/exponent). Quick: for every row and count a one-factor plan (every core value of every "
    "parameter at least once, receivers rotating from a seeded offset) plus seeded picks from the whole catalogue, parameterless "
    "rows sampled from the seed if over budget; thorough: the full receiver x value product per row and count up to 300 "
    "combinations, beyond that one-factor over all values plus seeded combinations. COLLECTION REPRESENTATIONS: HashMap, HashRecord, "
    "HashSet, ArrayList and ArrayTuple receivers are additionally taken from a generated catalogue of representation variants = "
    "backing implementation (value-backed *OfValue for Int / union / bool element or key types; Native*/NativeKey* for String, "
    "Symbol, Char, Float, Float64, Int8, UInt8, Int64, UInt, Date keys or elements, and for maps both NativeKeyHashMap[K] and the "
    "fully native NativeHashMap[K, V]; the untyped empty literal) x state (EMPTY, singleton, three elements) x spare capacity "
    "(`:8`, mutable classes), each built by a local declared with the full generic type (`var m: Std::HashMap[Std::Int, Std::Int] = "
    "{}`) so that the declared type selects the backing also for the empty state; type-parameter arguments (Val / Key / Value) take "
    "member and non-member values of the receiver variant's element types. A parameter declared with a collection supertype "
    "(Tuple[V], Record[K, V], ImmutableSet[V]) gets every variant of EVERY concrete class belonging to it (map+record, record+map, "
    "tuple+list, list+tuple, set+set ...), `any` parameters of a collection get the core variants of the same and the sibling "
    "kind; for each such parameter the FULL PRODUCT core receiver variants x core argument variants is executed in the quick tier "
    "(thorough: all receiver variants x core argument variants, plus every non-core receiver variant once per row and count). "
    "Two static literals of the same native hash-record type are never put into one program (the compiler crashes on that). "
    "Calls the checker rejects are dropped and "
    "counted (`rejected`); a crashed program is resumed after the crashing call and the first crash of a kind re-run alone. "
    "Oracles: no Go panic/fatal; runtime class of the result in the declared return type (class equality via type-level ancestors, "
    "nilable, unions, bool; any/type parameters/interfaces/closures accept everything; generics ignored); when the declared return "
    "type is one concrete class C with a parameterless native method of its own, that method is called on the (statically C-typed) "
    "result and must not end in a Go panic; thrown class covered by the declared throw type or not a class any std method declares "
    "as thrown (reported only); non-trivial = distinct rows that produced a result or a caught error; plus one confirmation call "
    "per class of table-rejected rows")


def run(ctx):
    ctx.explanation = (
        "Proved (Coq, for all declarations, runtime methods, admitted argument counts and caller stacks): on the model of the call "
        "protocol (checker normalisation to one slot per declared parameter, populateMissingParametersOnStack, the paramCount+1 window of "
        "callNativeMethod/callBytecodeFunction, opInstantiate without a runtime #init) a compatible pair is called with receiver at args[0], "
        "argument i at args[i+1], only `undefined` for omitted optionals / runtime-optional surplus, nothing of the caller's stack read, "
        "stack balanced (C28_arity_safe); the window never leaves the stack (C28_call_in_bounds); each way of being incompatible is a "
        "concrete hazard (misaligned receiver, required parameter reading the filler, constructor evaluating to its last argument). "
        "Proved on the table REGENERATED from the live type environment and runtime classes on every run: the rows rejected by the Coq "
        "definition `compatible` are exactly the rows the harness rejects (C28_exceptions_are_the_incompatible_rows, vm_compute), hence "
        "every other row is safe for every admitted count (C28_table_calls_safe). The check fails unless every rejected row is a recorded "
        "known finding. NOT proved, only sampled by executing generated programs (c28.calls): that the native function bodies index args "
        "within the registered count, that results are instances of the declared return type and thrown errors are covered by the declared "
        "throw type; membership is the simple structural one described in the stream rule (generics and structural interfaces accept "
        "everything). c28.calls is an IMPLEMENTATION-LEVEL oracle (no Coq model of return types or of overload selection): it calls "
        "every executable row with several receivers and, per declared parameter type, several values of every member class - through a "
        "local declared with the declared type (so the un-specialised overload is the one reached) and as literals (specialised "
        "overloads) - and additionally calls one parameterless native method of the declared return class on each result. "
        "Collection receivers and collection-typed arguments are enumerated over class x backing implementation (value-backed / native-"
        "specialised per element or key type, chosen by a declared generic type) x state (empty, singleton, multi) x spare capacity, and "
        "a parameter typed with a collection supertype receives every concrete member class in each representation; a return-class "
        "mismatch is keyed by receiver class x method x argument collection classes x declared/got. "
        "The protocol model is hand-written from vm/thread.go and types/checker/method.go; named arguments and post-rest "
        "parameters are represented only by the slot count.")
    ctx.trusted_base += [
        "harness/cmd/c28gen: reflection over types.NewGlobalEnvironment() and value.RootModule after the package initialisers of the elk binary",
        "the call-protocol model (hand-written from vm/thread.go callNativeMethod/populateMissingParametersOnStack/opInstantiate and "
        "types/checker/method.go argument normalisation)",
        "c28.calls: receiver/argument value catalogue, the checker's own overload selection for declared-type locals (which row a generated "
        "call reaches is decided by the Elk checker, not verified), program template, result probe choice, and the structural "
        "type-membership test in checks/C28.py",
    ]
    import time
    t0 = time.time()
    tab = regenerate(ctx)
    t1 = time.time()
    ctx.run_proof_gate()
    t2 = time.time()
    ctx.extra["timing_s"] = {"regenerate": round(t1 - t0, 1), "proof_gate": round(t2 - t1, 1)}
    if tab is None:
        return
    # ---- replay: restrict everything to the rows named in the replay file
    only_keys = None
    if ctx.replay:
        import json
        case = (json.load(open(ctx.replay)).get("case") or {})
        only_keys = set(case.get("rows") or []) | ({case["row"]} if case.get("row") else set())
        ctx.extra["replay_rows"] = sorted(only_keys)
    # ---- table pre-check: every incompatible row must be a known finding
    bad_rows = {}
    byclass = {}
    for r in tab.rows:
        if only_keys is not None and r["key"] not in only_keys:
            continue
        if not compatible(r):
            k = class_key(r, tab)
            bad_rows[r["idx"]] = k
            byclass.setdefault(k, []).append(r)
    elk = vlib.build_elk()
    t3 = time.time()
    confirmed = stream_calls(ctx, tab, elk, set(bad_rows), only_keys)
    ctx.extra["timing_s"].update({"build_elk": round(t3 - t2, 1), "calls": round(time.time() - t3, 1)})
    for k in sorted(byclass):
        rs = byclass[k]
        r = rs[0]
        conf = confirmed.get(k)
        what = "%s: declared %s(%s) required=%d optional=%d rest=%d named-rest=%d; runtime %s" % (
            r["key"], r["name"], ", ".join("%s: %s" % (p[0], p[2]) for p in r["plist"]), r["req"], r["opt"], r["rest"], r["nrest"],
            ("%s parameterCount=%d optionalParameterCount=%d" % (r["rkind"], r["pc"], r["opc"])) if r["found"] else "method not found (" + (r["rwhere"] or "lookup failed") + ")")
        if len(rs) > 1:
            what += " [+%d more rows of this class]" % (len(rs) - 1)
        if conf:
            what += " | executed: %s -> %s" % (conf["call"], conf["observed"])
        ctx.fail(k, what, stream="c28.table", case=dict(rows=[x["key"] for x in rs[:40]], row=r["key"], call=(conf or {}).get("call")),
                 impl=(conf or {}).get("observed", "not executed (no receiver/argument catalogue entry)"), model="compatible = false",
                 oracle="every declared method is callable on instances with every admitted argument count (Model/C28_Arity.v compatible)")
    found = [r for r in tab.rows if r["found"]]
    dist = {}
    for r in tab.rows:
        c = ("found:" + r["rkind"]) if r["found"] else ("unfound:" + ("abstract-or-no-instances" if compatible(r) else "incompatible"))
        dist[r["kind"] + ":" + c] = dist.get(r["kind"] + ":" + c, 0) + 1
    ctx.stream("c28.table", len(tab.rows), len(found),
               "one row per method declared in a std namespace (own) and per non-abstract method a concrete std class inherits in the type "
               "environment (inh); runtime side = lookup on the runtime class / singleton of the same name; `compatible` evaluated by the "
               "harness, by this script and (proved equal on the whole table) by the Coq definition; non-trivial = rows with a runtime method",
               [{"input": r["key"], "observed": "req=%d opt=%d rest=%d nrest=%d | %s pc=%d opc=%d" % (
                   r["req"], r["opt"], r["rest"], r["nrest"], r["rkind"], r["pc"], r["opc"])} for r in (found[:1] + found[-1:])],
               dist, incompatible_rows=len(bad_rows), incompatible_classes=len(byclass))
    # ---- reports (not gating)
    ctx.extra["report_incompatible_classes"] = {k: len(v) for k, v in sorted(byclass.items())}
    ctx.extra["report_runtime_natives_without_declaration"] = {
        "count": len(tab.undecl), "sample": ["%s#%s(%s params)" % (u[0], u[1], u[2]) for u in tab.undecl[:40]]}
    ctx.extra["report_mixins_declared_but_not_included_at_runtime"] = {
        "count": len(tab.mixins), "pairs": ["%s <- %s" % m for m in tab.mixins[:120]]}
    ctx.extra["report_optional_count_differs"] = len(
        [r for r in tab.rows if r["found"] and r["pc"] == r["total"] and r["opc"] != r["opt"] and r["rkind"] == "native"])


def setup_gen():
    """called by setup.sh: write coq/Gen/C28_Headers.v before the full make"""
    regenerate(vlib.Ctx("C28", "quick", 1))
