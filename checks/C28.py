"""C28 — std headers and native implementations agree."""
import os
import re
import vlib

GEN_V = os.path.join(vlib.COQ, "Gen", "C28_Headers.v")

COLS = ["tag", "kind", "ns", "nskind", "concrete", "name", "declin", "flags", "req", "opt", "rest", "post", "nrest",
        "total", "params", "ret", "throw", "found", "rkind", "pc", "opc", "rwhere", "retset", "throwset"]


class Table:
    def __init__(self, text):
        self.rows, self.anc, self.ranc, self.mixins, self.undecl = [], {}, {}, [], []
        for line in text.splitlines():
            p = line.split("\t")
            if p[0] == "ROW" and len(p) >= len(COLS):
                r = dict(zip(COLS, p))
                for k in ("concrete", "req", "opt", "rest", "post", "nrest", "total", "found", "pc", "opc"):
                    r[k] = int(r[k])
                r["idx"] = len(self.rows)
                r["plist"] = [tuple(x.split("\x1f")) for x in r["params"].split("\x1e") if x]
                r["key"] = "%s:%s#%s" % (r["kind"], r["ns"], r["name"])
                self.rows.append(r)
            elif p[0] == "ANC":
                self.anc[p[1]] = [x for x in (p[2] if len(p) > 2 else "").split(",") if x]
            elif p[0] == "RANC":
                self.ranc[p[1]] = set(x for x in (p[2] if len(p) > 2 else "").split(",") if x)
            elif p[0] == "MIXIN":
                self.mixins.append((p[1], p[2]))
            elif p[0] == "UNDECL":
                self.undecl.append(p[1:])
        self.mixin_names = set(r["ns"] for r in self.rows if r["nskind"] == "mixin")


def compatible(r):
    """the same test as Model/C28_Arity.v `compatible` and c28gen `compatible` (the Coq theorem
    C28_exceptions_are_the_incompatible_rows ties the harness copy to the Coq one on the whole table)"""
    if r["found"]:
        return r["pc"] == r["total"] or (r["pc"] > r["total"] and r["pc"] - r["total"] <= r["opc"])
    if r["name"] == "#init":
        return r["total"] == 0
    return "a" in r["flags"] or not r["concrete"]


def class_key(r, tab):
    """canonical class of an incompatible row: stable across seeds, shared by the table pre-check and by the
    executed calls"""
    decl = r["declin"] or r["ns"]
    if r["found"]:
        return "arity:%s#%s:declared=%d:runtime=%d+opt%d" % (decl, r["name"], r["total"], r["pc"], r["opc"])
    if r["rwhere"] in ("no-runtime-constant", "not-a-namespace", "no-singleton", "no-module-class", "interface"):
        return "no-runtime-class:%s" % r["ns"]
    if r["name"] == "#init":
        return "no-runtime-init:%s:declared=%d" % (r["ns"], r["total"])
    if r["kind"] == "inh" and decl in tab.mixin_names and decl not in tab.ranc.get(r["ns"], set()):
        return "mixin-not-included:%s:%s" % (r["ns"], decl)
    return "unimplemented:%s#%s" % (decl, r["name"])


def regenerate(ctx):
    gen = vlib.build_harness("c28gen")
    rc, out = vlib.sh([gen, "-extra", "tsv"], timeout=300, env=vlib.elk_env())
    if rc != 0 or "ROW\t" not in out:
        ctx.broke("tie: table extraction from the live environments failed", out[-2000:])
        return None
    rc2, coq = vlib.sh([gen, "-extra", "coq"], timeout=300, env=vlib.elk_env())
    if rc2 != 0 or "Definition rows" not in coq:
        ctx.broke("tie: Coq table generation failed", coq[-2000:])
        return None
    vlib.write_if_changed(GEN_V, coq)
    return Table(out)


# ------------------------------------------------------------------ receivers and arguments

RECV = {
    "Std::Int": ["5", "0", "(-3)"],
    "Std::Float": ["2.5"],
    "Std::BigFloat": ["2.5bf"],
    "Std::Float64": ["2.5f64"], "Std::Float32": ["2.5f32"],
    "Std::Int8": ["5i8"], "Std::Int16": ["5i16"], "Std::Int32": ["5i32"], "Std::Int64": ["5i64"],
    "Std::UInt8": ["5u8"], "Std::UInt16": ["5u16"], "Std::UInt32": ["5u32"], "Std::UInt64": ["5u64"], "Std::UInt": ["5u"],
    "Std::String": ['"héllo"', '""'],
    "Std::Char": ["`a`"],
    "Std::Symbol": [":foo"],
    "Std::True": ["true"], "Std::False": ["false"], "Std::Nil": ["nil"],
    "Std::ArrayList": ["[3, 1, 2]", "ArrayList::[Int]()"],
    "Std::ArrayTuple": ["%[3, 1, 2]", "ArrayTuple::[Int]()"],
    "Std::HashMap": ["{1 => 2, 3 => 4}"],
    "Std::HashRecord": ["%{1 => 2, 3 => 4}"],
    "Std::HashSet": ["^[3, 1, 2]", "^[1]"],
    "Std::ClosedRange": ["(1...4)", "(4...1)"],
    "Std::OpenRange": ["(1<.<4)"],
    "Std::LeftOpenRange": ["(1<..4)"],
    "Std::RightOpenRange": ["(1..<4)"],
    "Std::BeginlessClosedRange": ["(...4)"],
    "Std::BeginlessOpenRange": ["(..<4)"],
    "Std::Regex": ["%/a+/"],
    "Std::Pair": ["Pair(1, 2)"],
    "Std::ArrayList::Iterator": ["[3, 1, 2].iter", "ArrayList::[Int]().iter"],
    "Std::ArrayTuple::Iterator": ["%[3, 1, 2].iter"],
    "Std::HashMap::Iterator": ["{1 => 2}.iter"],
    "Std::HashRecord::Iterator": ["%{1 => 2}.iter"],
    "Std::HashSet::Iterator": ["^[3, 1, 2].iter"],
    "Std::ClosedRange::Iterator": ["(1...4).iter", "(4...1).iter"],
    "Std::OpenRange::Iterator": ["(1<.<4).iter"],
    "Std::LeftOpenRange::Iterator": ["(1<..4).iter"],
    "Std::RightOpenRange::Iterator": ["(1..<4).iter"],
    "Std::Int::Iterator": ["3.iter"],
    "Std::String::CharIterator": ['"abc".iter'],
    "Std::String::ByteIterator": ['"abc".byte_iter'],
    "Std::String::GraphemeIterator": ['"abc".grapheme_iter'],
    "Std::Date": ["Date(2024, 2, 29)"],
    "Std::Time": ["Time(13, 5, 7)"],
    "Std::DateTime": ["DateTime(2024, 2, 29, 13, 5, 7)"],
    "Std::Date::Span": ["Date::Span(1, 2, 3)"],
    "Std::Time::Span": ["Time::Span(1, 2, 3)"],
    "Std::DateTime::Span": ["DateTime::Span(1, 2, 3)"],
    "Std::Timezone": ["Timezone::UTC"],
    "Std::FS::Path": ['FS::Path("a/b.txt")'],
    "Std::Box": ["Box(1)"],
    "Std::ImmutableBox": ["ImmutableBox(1)"],
    "Std::Error": ['Error("x")'],
    "Std::String::Position": ["String::Position(1, 2, 3)"],
    "Std::Object": ["Object()"],
    # singleton / module receivers (class methods)
    "&Std::Date": ["::Std::Date"], "&Std::Time": ["::Std::Time"], "&Std::DateTime": ["::Std::DateTime"],
    "&Std::Date::Span": ["::Std::Date::Span"], "&Std::Time::Span": ["::Std::Time::Span"],
    "&Std::DateTime::Span": ["::Std::DateTime::Span"], "&Std::FS::Path": ["::Std::FS::Path"],
    "&Std::Runtime": ["::Std::Runtime"], "&Std::Result": ["::Std::Result"],
}
# element type of the receiver (what the type parameters Val / Key / Value / Element stand for)
CHAR_ELEM = {"Std::String::CharIterator", "Std::String::GraphemeIterator", "Std::String"}
BYTE_ELEM = {"Std::String::ByteIterator"}
# never executed: blocking, process-wide effects, or unbounded work with the small arguments used here
SKIP_METHODS = {"sleep", "exit", "gets", "readln", "print", "println", "puts", "breakpoint", "loop", "await", "await_sync",
                "lock", "unlock", "read_lock", "read_unlock", "wait", "++", "--", "hash", "local=", "cycle", "repeat"}

ARGS = {
    "any": ["1", '"ab"', "nil"], "Std::Int": ["2", "0", "(-1)", "1"], "Std::AnyInt": ["1", "0", "2i8"],
    "Std::String": ['"ab"', '""'], "Std::CoercibleNumeric": ["2", "2.5"], "Std::Float": ["2.5"], "Std::BigFloat": ["2.5bf"],
    "Std::Int8": ["2i8"], "Std::Int16": ["2i16"], "Std::Int32": ["2i32"], "Std::Int64": ["2i64"],
    "Std::UInt8": ["2u8"], "Std::UInt16": ["2u16"], "Std::UInt32": ["2u32"], "Std::UInt64": ["2u64"], "Std::UInt": ["2u"],
    "Std::Float32": ["2.5f32"], "Std::Float64": ["2.5f64"],
    "Std::String | Std::Char": ['"a"', "`a`"], "Std::Char": ["`a`"], "Std::Symbol": [":a"],
    "Std::Range[Std::Int]": ["(0...1)", "(0..<1)"], "Std::Tuple[V]": ["%[1, 2]", "[1]"], "Std::ImmutableSet[V]": ["^[1, 2]"],
    "Std::Record[K, V]": ["%{1 => 2}"], "bool": ["true", "false"], "Std::Bool": ["true", "false"], "Std::Regex": ["%/a/"],
    "Std::String::Convertible": ['"a"', "1"], "Std::Time::Span": ["Time::Span(1, 2, 3)"], "Std::Date::Span": ["Date::Span(1, 2, 3)"],
    "Std::DateTime::Span": ["DateTime::Span(1, 2, 3)"], "Std::DateTime": ["DateTime(2024, 2, 29, 13, 5, 7)"],
    "Std::Date": ["Date(2024, 2, 29)"], "Std::Time": ["Time(13, 5, 7)"], "Std::Date | Std::DateTime": ["Date(2024, 2, 29)"],
    "Std::DateTime | Std::Date": ["Date(2024, 2, 29)"], "Std::Date::Span | Std::DateTime::Span": ["Date::Span(1, 2, 3)"],
    "Std::Timezone": ["Timezone::UTC"], "Std::FS::Path": ['FS::Path("c")'], "Std::Duration": ["Time::Span(1, 2, 3)"],
    "Std::String::Position": ["String::Position(1, 2, 3)"],
}
TYPE_PARAMS = {"V", "I", "T", "Val", "Key", "Value", "K", "Element", "E"}


def elem_expr(ns, which="Val"):
    if ns in CHAR_ELEM:
        return "`a`"
    if ns in BYTE_ELEM:
        return "97u8"
    return "1"


def closure_arg(t, ns):
    m = re.match(r"^\|(.*)\|: (.*?)( ! .*)?$", t)
    if not m:
        return None
    params, depth, cur = [], 0, ""
    for ch in m.group(1):
        if ch in "[(|":
            depth += 1
        elif ch in "])":
            depth -= 1
        if ch == "," and depth == 0:
            params.append(cur)
            cur = ""
        else:
            cur += ch
    if cur.strip():
        params.append(cur)
    names = ["a", "b", "c", "d"][:len(params)]
    ret = m.group(2).strip()
    if ret in ("bool", "Std::Bool"):
        body = "true"
    elif ret == "void":
        body = "nil"
    elif ret in TYPE_PARAMS or ret == "any":
        body = names[0] if names else "1"
    elif ret.startswith("Std::Pair["):
        body = "Pair(1, 2)"
    else:
        return None
    if not names:
        return "-> " + body
    return "|%s| -> %s" % (", ".join(names), body)


def arg_exprs(t, ns):
    if t in ARGS:
        return ARGS[t]
    if t in TYPE_PARAMS:
        return [elem_expr(ns)]
    if t.startswith("|"):
        c = closure_arg(t, ns)
        return [c] if c else None
    if t in ("Std::ArrayList[Val]", "Std::List[Val]"):
        return ["[1]"]
    if t == "Std::ArrayTuple[Val]":
        return ["%[1]"]
    if t == "Std::HashSet[Val]":
        return ["^[1]"]
    if t == "Std::HashMap[Key, Value]":
        return ["{1 => 2}"]
    if t == "Std::HashRecord[Key, Value]":
        return ["%{1 => 2}"]
    if t == "Std::Pair[Key, Value]":
        return ["Pair(1, 2)"]
    return None


BINOPS = {"+", "-", "*", "/", "%", "**", "==", "!=", "=~", "!~", "===", "!==", "<", "<=", ">", ">=", "<=>", "<<", ">>", "<<<", ">>>",
          "&", "|", "^", "&~", "&&", "||"}
UNOPS = {"-@": "-", "+@": "+", "~": "~"}


def call_expr(r, recv, args):
    name = r["name"].split("@")[0] if r["name"] not in UNOPS else r["name"]
    if r["name"] == "#init":
        return "%s(%s)" % (r["ns"].replace("Std::", "::Std::", 1), ", ".join(args))
    if name in UNOPS and not args:
        return "%s(%s)" % (UNOPS[name], recv)
    if name in BINOPS and len(args) == 1:
        return "(%s) %s (%s)" % (recv, name, args[0])
    if name == "[]" and len(args) == 1:
        return "(%s)[%s]" % (recv, args[0])
    if name == "[]=" and len(args) == 2:
        return "(%s)[%s] = %s" % (recv, args[0], args[1])
    if name == "call":
        return "(%s).(%s)" % (recv, ", ".join(args))
    if name.endswith("=") and re.match(r"^[a-z_][a-zA-Z0-9_]*=$", name) and len(args) == 1:
        return "(%s).%s = %s" % (recv, name[:-1], args[0])
    if not re.match(r"^[a-z_][a-zA-Z0-9_]*[?!]?$", name):
        return None
    return "(%s).%s(%s)" % (recv, name, ", ".join(args))


def gen_calls(tab, rng, per_row, only=None):
    """-> list of dict(row, expr, argc, void) ; skipped: counter by reason"""
    calls, skipped = [], {}

    def skip(why):
        skipped[why] = skipped.get(why, 0) + 1
    for r in tab.rows:
        if only is not None and r["idx"] not in only:
            continue
        if "a" in r["flags"] or not r["concrete"]:
            skip("abstract-or-no-instances")
            continue
        ns = r["ns"]
        recvs = RECV.get(ns) if r["name"] != "#init" else [""]
        if r["name"] == "#init" and ns not in RECV:
            recvs = None
        if not recvs:
            skip("no-receiver-catalogue:" + ("Std::Elk::*" if ns.lstrip("&").startswith("Std::Elk") else "other"))
            continue
        base = r["name"].split("@")[0]
        if base in SKIP_METHODS or "y" in r["flags"]:
            skip("blocked-method")
            continue
        pos = [p for p in r["plist"] if p[1] in ("n", "o")]
        restp = [p for p in r["plist"] if p[1] == "r"]
        choices = []
        ok = True
        for (pn, pk, pt) in pos + restp:
            xs = arg_exprs(pt, ns)
            if not xs:
                ok = False
                skip("no-argument-generator")
                break
            choices.append(xs)
        if not ok:
            continue
        counts = list(range(r["req"], r["req"] + r["opt"] + 1))
        variants = []
        for argc in counts:
            variants.append((argc, 0))
            if restp and argc == r["req"] + r["opt"]:
                variants.append((argc, 2))
        for (argc, nrest) in variants:
            for v in range(per_row):
                recv = recvs[(v + rng.below(len(recvs))) % len(recvs)]
                args = [choices[i][(v + rng.below(len(choices[i]))) % len(choices[i])] for i in range(argc)]
                if restp:
                    if r["post"]:
                        break
                    args += [choices[-1][0]] * nrest
                e = call_expr(r, recv, args)
                if e is None:
                    skip("no-call-syntax")
                    break
                void = (r["retset"] == "void" and r["name"] != "#init") or r["name"] == "[]="
                calls.append(dict(row=r, expr=e, argc=argc + nrest, void=void))
    # dedupe identical expressions of the same row
    seen, out = set(), []
    for c in calls:
        k = (c["row"]["idx"], c["expr"])
        if k not in seen:
            seen.add(k)
            out.append(c)
    return out, skipped


CASE = """println("B\\t%(id)s")
do
  var r: any = %(expr)s
  switch r
  case Value() as v
    println("R\\t%(id)s\\t" + v.class.name)
  end
catch Value() as e
  println("E\\t%(id)s\\t" + e.class.name)
end
"""
CASE_VOID = """println("B\\t%(id)s")
do
  %(expr)s
  println("R\\t%(id)s\\tvoid")
catch Value() as e
  println("E\\t%(id)s\\t" + e.class.name)
end
#
#
#
"""
CASE_LINES = 10


def program(chunk):
    src = []
    for c in chunk:
        src.append((CASE_VOID if c["void"] else CASE) % dict(id=c["id"], expr=c["expr"]))
    return "".join(src)


def run_chunks(elk, chunks, workdir, tag):
    """run programs; drop calls the checker rejects (ill-typed generator output), resume after a crash.
    returns {call id: (kind, detail)} with kind in R E panic fatal timeout rejected lost"""
    results = {}
    pending = [(("%s%d" % (tag, i)), ch) for i, ch in enumerate(chunks)]
    rounds = 0
    while pending and rounds < 400:
        rounds += 1
        progs = [(pid, program(ch)) for pid, ch in pending]
        res = vlib.run_programs(elk, progs, workdir, workers=12, timeout=120)
        nxt = []
        for pid, ch in pending:
            rc, out, cls = res[pid]
            seen_b = []
            for line in out.splitlines():
                p = line.split("\t")
                if p[0] == "B" and len(p) >= 2:
                    seen_b.append(p[1])
                elif p[0] in ("R", "E") and len(p) >= 3:
                    results[p[1]] = (p[0], p[2])
            ids = [c["id"] for c in ch]
            if not seen_b and ("[FAIL]" in out or cls == "elk_error"):
                # compile-time rejection: map diagnostics lines to calls
                bad = set()
                for m in re.finditer(r"\.elk:(\d+):\d+", out):
                    k = (int(m.group(1)) - 1) // CASE_LINES
                    if 0 <= k < len(ch):
                        bad.add(k)
                if not bad:
                    if len(ch) == 1:
                        bad = {0}
                    else:   # cannot attribute: split
                        h = len(ch) // 2
                        nxt.append((pid + "a", ch[:h]))
                        nxt.append((pid + "b", ch[h:]))
                        continue
                msg = re.sub(r"\s+", " ", out)[:300]
                for k in bad:
                    results[ch[k]["id"]] = ("rejected", msg)
                rest = [c for i, c in enumerate(ch) if i not in bad]
                if rest:
                    nxt.append((pid + "r", rest))
                continue
            if not seen_b and cls in ("go_panic", "go_fatal", "timeout", "signal"):
                # the front end itself crashed or hung (not this property): isolate and drop the call
                if len(ch) == 1:
                    results[ch[0]["id"]] = ("rejected", "front end %s: %s" % (cls, re.sub(r"\s+", " ", out)[:300]))
                else:
                    h = len(ch) // 2
                    nxt.append((pid + "a", ch[:h]))
                    nxt.append((pid + "b", ch[h:]))
                continue
            if cls in ("go_panic", "go_fatal", "timeout", "signal") or (seen_b and seen_b[-1] not in results):
                last = seen_b[-1] if seen_b else None
                if last is not None and last not in results:
                    kind = {"go_panic": "panic", "go_fatal": "fatal", "timeout": "timeout"}.get(cls, "panic" if "panic" in out else "lost")
                    m = re.search(r"(panic: .*|fatal error: .*)", out)
                    results[last] = (kind, (m.group(1) if m else out[-300:])[:400])
                    k = ids.index(last)
                    rest = ch[k + 1:]
                    if rest:
                        nxt.append((pid + "c", rest))
                elif last is None and cls != "ok":
                    for c in ch:
                        results.setdefault(c["id"], ("lost", out[-300:]))
                continue
        pending = nxt
    return results


def member(cls, tset, tab, selfns):
    names = set(tset.split(","))
    if "*" in names:
        return True
    cands = {cls} | set(tab.anc.get(cls, []))
    if "self" in names and (selfns in cands):
        return True
    return bool(cands & names)


def panic_class(detail):
    d = re.sub(r"0x[0-9a-f]+", "0x", detail)
    d = re.sub(r"\d+", "N", d)
    if "invalid method" in d:
        return "invalid-method"
    if "interface conversion" in d:
        return "interface-conversion"
    if "index out of range" in d:
        return "index-out-of-range"
    if "nil pointer" in d or "invalid memory address" in d:
        return "nil-dereference"
    return re.sub(r"[^a-zA-Z]+", "-", d)[:40].strip("-")


def stream_calls(ctx, tab, elk, bad_rows, only_keys=None):
    stream = "c28.calls"
    rng = ctx.rng(stream)
    checked = set()
    for r in tab.rows:
        for c in r["throwset"].split(","):
            if c not in ("never", "*", "void", "self", ""):
                checked.add(c)
    # rows the table already rejects are executed once per class (confirmation), the others are sampled
    good = [r["idx"] for r in tab.rows if r["idx"] not in bad_rows and r["found"] and (only_keys is None or r["key"] in only_keys)]
    calls, skipped = gen_calls(tab, rng, ctx.n(1, 3), only=set(good))
    budget = ctx.n(1500, 10 ** 9)
    # corpus (past failures) first: lines `row-key` (all generated calls of that row) or `row-key<TAB>expression`
    corpus, explicit = [], {}
    cpath = os.path.join(vlib.ROOT, "corpus", "C28.calls.txt")
    if os.path.exists(cpath):
        for line in open(cpath):
            line = line.rstrip("\n")
            if line.strip() and not line.startswith("#"):
                p = line.split("\t")
                corpus.append(p[0])
                if len(p) > 1:
                    explicit.setdefault(p[0], []).append(p[1])
    rowbykey = {r["key"]: r for r in tab.rows}
    byrow = {}
    for c in calls:
        byrow.setdefault(c["row"]["key"], []).append(c)
    chosen = []
    for k in corpus:
        r = rowbykey.get(k)
        if r is None or r["idx"] in bad_rows:
            continue
        for e in explicit.pop(k, []):
            chosen.append(dict(row=r, expr=e, argc=-1, void=(r["retset"] == "void" and r["name"] != "#init")))
        chosen += byrow.pop(k, [])
    n_corpus = len(chosen)
    rest = [c for k in sorted(byrow) for c in byrow[k]]
    if len(rest) + len(chosen) > budget:
        rng.shuffle(rest)
        rest = rest[:max(0, budget - len(chosen))]
    chosen += rest
    # confirmation calls for rejected rows: one per class key
    confirm = {}
    for idx in sorted(bad_rows):
        r = tab.rows[idx]
        k = class_key(r, tab)
        if k in confirm:
            continue
        cs, _ = gen_calls(tab, rng, 1, only={idx})
        if cs:
            confirm[k] = cs[0]
    for rk, exprs in explicit.items():     # corpus expressions of rows the table rejects: they are the confirmation
        r = rowbykey.get(rk)
        if r is not None and r["idx"] in bad_rows:
            confirm[class_key(r, tab)] = dict(row=r, expr=exprs[0], argc=-1, void=False)
    conf_list = [confirm[k] for k in sorted(confirm)][:ctx.n(400, 100000)]
    for i, c in enumerate(chosen + conf_list):
        c["id"] = "c%d" % i
    size = 40
    chunks = [chosen[i:i + size] for i in range(0, len(chosen), size)]
    res = run_chunks(elk, chunks, os.path.join(ctx.workdir, "calls"), "p") if chunks else {}
    # a crashed call is re-run alone (up to 2 more times) so that a load-dependent crash is not blamed on the method
    for c in chosen:
        k, d = res.get(c["id"], ("lost", ""))
        if k in ("panic", "fatal", "timeout", "lost"):
            for attempt in range(2):
                r2 = run_chunks(elk, [[c]], os.path.join(ctx.workdir, "calls"), "re%s_%d_" % (c["id"], attempt))
                k2, d2 = r2.get(c["id"], ("lost", ""))
                if k2 not in ("panic", "fatal", "timeout", "lost"):
                    res[c["id"]] = (k2, d2)
                    c["flaky"] = (k, d)
                    break
    cres = run_chunks(elk, [[c] for c in conf_list], os.path.join(ctx.workdir, "calls"), "k") if conf_list else {}
    dist, distinct, nfail, samples = {}, set(), 0, []
    throw_report = {}
    flaky = 0
    for c in chosen:
        r = c["row"]
        kind, detail = res.get(c["id"], ("lost", ""))
        if c.get("flaky"):
            flaky += 1
        dist[kind] = dist.get(kind, 0) + 1
        decl = r["ns"]      # calls are keyed by the receiver's namespace (the row), not by the declaring mixin
        what = None
        if kind in ("panic", "fatal"):
            key = "calls:go_%s:%s#%s:%s" % (kind, decl, r["name"], panic_class(detail))
            what = "%s -> Go %s: %s" % (c["expr"], kind, detail[:200])
            oracle = "no Go panic / fatal error in a call the checker accepts"
        elif kind == "R":
            distinct.add(r["key"])
            if r["name"] == "#init":
                if detail != r["ns"]:
                    key = "calls:init-class:%s:got=%s" % (r["ns"], detail)
                    what = "%s evaluates to an instance of %s" % (c["expr"], detail)
                    oracle = "a constructor call yields an instance of the class"
            elif detail == "void":
                pass
            elif detail == "Undefined":
                key = "calls:return:%s#%s:got=undefined" % (r["declin"] or decl, r["name"])
                what = "%s returned the internal `undefined` marker, which is not a value of any declared type `%s`" % (c["expr"], r["ret"])
                oracle = "runtime class of the result is a member of the declared return type"
            elif r["retset"] == "never":
                key = "calls:return:%s#%s:declared=never:got=%s" % (decl, r["name"], detail)
                what = "%s returned a %s but is declared `never`" % (c["expr"], detail)
                oracle = "runtime class of the result is a member of the declared return type"
            elif r["retset"] != "void" and not member(detail, r["retset"], tab, r["ns"]):
                key = "calls:return:%s#%s:declared=%s:got=%s" % (decl, r["name"], r["ret"], detail)
                what = "%s returned a %s but is declared `%s`" % (c["expr"], detail, r["ret"])
                oracle = "runtime class of the result is a member of the declared return type"
        elif kind == "E":
            distinct.add(r["key"])
            if not member(detail, r["throwset"], tab, r["ns"]):
                cands = {detail} | set(tab.anc.get(detail, []))
                if cands & checked:
                    # reported, not gated: Elk marks `unchecked` on the throw statement, not on the class, so the set of
                    # "unchecked runtime errors" cannot be read off the headers
                    throw_report.setdefault("%s#%s threw %s (declared `%s`)" % (decl, r["name"], detail, r["throw"]), c["expr"])
        if what:
            nfail += 1
            ctx.fail(key, what, stream=stream, case=dict(row=r["key"], program=program([dict(c, id="c0")])),
                     impl="%s %s" % (kind, detail), model="declared: %s ! %s" % (r["ret"], r["throw"]), oracle=oracle)
        if len(samples) < 3 and kind in ("R", "E"):
            samples.append({"input": c["expr"], "observed": "%s %s" % (kind, detail), "declared": "%s ! %s" % (r["ret"], r["throw"])})
    # confirmations of the rows the table rejects: attach what really happens
    confirmed = {}
    for k in sorted(confirm):
        c = confirm[k]
        if "id" not in c:
            continue
        kind, detail = cres.get(c["id"], ("lost", ""))
        confirmed[k] = dict(call=c["expr"], observed="%s %s" % (kind, detail[:200]))
    for k, v in skipped.items():
        dist["skipped:" + k] = v
    ctx.extra["report_rejected_calls_sample"] = [
        "%s -> %s" % (c["expr"], res[c["id"]][1][:160]) for c in chosen if res.get(c["id"], ("", ""))[0] == "rejected"][:12]
    ctx.extra["report_thrown_checked_class_not_in_declared_throw_type"] = throw_report
    ctx.stream(stream, len(chosen) + len(conf_list), len(distinct),
               "every declared/inherited std method with a runtime implementation whose receiver class has a literal in the catalogue "
               "(numbers, strings, chars, symbols, bool, nil, lists, tuples, maps, records, sets, finite/beginless ranges, their iterators, "
               "regex, pair, dates/times/spans, path, boxes) is called through generated top-level Elk programs (`elk run`, 40 calls per "
               "program, each in do/catch printing the runtime class of the result or of the thrown value) with well-typed catalogue "
               "arguments for EVERY admitted positional argument count (and 0/2 rest arguments); quick = seeded sample of the calls, "
               "thorough = all with 3 argument variants; calls the checker rejects are dropped and counted (`rejected`); a crashed program "
               "is resumed after the crashing call and that call re-run alone; oracles: no Go panic/fatal; runtime class of the result "
               "in the declared return type (class equality via type-level ancestors, nilable, unions, bool; any/type parameters/"
               "interfaces/closures accept everything; generics ignored); thrown class covered by the declared throw type or not a class "
               "any std method declares as thrown; non-trivial = distinct rows that produced a result or a caught error; plus one "
               "confirmation call per class of table-rejected rows",
               samples, dist, failures=nfail, corpus_rows=n_corpus, flaky_crashes_not_reproduced=flaky)
    return confirmed


def run(ctx):
    ctx.explanation = (
        "Proved (Coq, for all declarations, runtime methods, admitted argument counts and caller stacks): on the model of the call "
        "protocol (checker normalisation to one slot per declared parameter, populateMissingParametersOnStack, the paramCount+1 window of "
        "callNativeMethod/callBytecodeFunction, opInstantiate without a runtime #init) a compatible pair is called with receiver at args[0], "
        "argument i at args[i+1], only `undefined` for omitted optionals / runtime-optional surplus, nothing of the caller's stack read, "
        "stack balanced (C28_arity_safe); the window never leaves the stack (C28_call_in_bounds); each way of being incompatible is a "
        "concrete hazard (misaligned receiver, required parameter reading the filler, constructor evaluating to its last argument). "
        "Proved on the table REGENERATED from the live type environment and runtime classes on every run: the rows rejected by the Coq "
        "definition `compatible` are exactly the rows the harness rejects (C28_exceptions_are_the_incompatible_rows, vm_compute), hence "
        "every other row is safe for every admitted count (C28_table_calls_safe). The check fails unless every rejected row is a recorded "
        "known finding. NOT proved, only sampled by executing generated programs (c28.calls): that the native function bodies index args "
        "within the registered count, that results are instances of the declared return type and thrown errors are covered by the declared "
        "throw type; membership is the simple structural one described in the stream rule (generics and structural interfaces accept "
        "everything). The protocol model is hand-written from vm/thread.go and types/checker/method.go; named arguments and post-rest "
        "parameters are represented only by the slot count.")
    ctx.trusted_base += [
        "harness/cmd/c28gen: reflection over types.NewGlobalEnvironment() and value.RootModule after the package initialisers of the elk binary",
        "the call-protocol model (hand-written from vm/thread.go callNativeMethod/populateMissingParametersOnStack/opInstantiate and "
        "types/checker/method.go argument normalisation)",
        "c28.calls: receiver/argument catalogue, program template, and the structural type-membership test in checks/C28.py",
    ]
    import time
    t0 = time.time()
    tab = regenerate(ctx)
    t1 = time.time()
    ctx.run_proof_gate()
    t2 = time.time()
    ctx.extra["timing_s"] = {"regenerate": round(t1 - t0, 1), "proof_gate": round(t2 - t1, 1)}
    if tab is None:
        return
    # ---- replay: restrict everything to the rows named in the replay file
    only_keys = None
    if ctx.replay:
        import json
        case = (json.load(open(ctx.replay)).get("case") or {})
        only_keys = set(case.get("rows") or []) | ({case["row"]} if case.get("row") else set())
        ctx.extra["replay_rows"] = sorted(only_keys)
    # ---- table pre-check: every incompatible row must be a known finding
    bad_rows = {}
    byclass = {}
    for r in tab.rows:
        if only_keys is not None and r["key"] not in only_keys:
            continue
        if not compatible(r):
            k = class_key(r, tab)
            bad_rows[r["idx"]] = k
            byclass.setdefault(k, []).append(r)
    elk = vlib.build_elk()
    t3 = time.time()
    confirmed = stream_calls(ctx, tab, elk, set(bad_rows), only_keys)
    ctx.extra["timing_s"].update({"build_elk": round(t3 - t2, 1), "calls": round(time.time() - t3, 1)})
    for k in sorted(byclass):
        rs = byclass[k]
        r = rs[0]
        conf = confirmed.get(k)
        what = "%s: declared %s(%s) required=%d optional=%d rest=%d named-rest=%d; runtime %s" % (
            r["key"], r["name"], ", ".join("%s: %s" % (p[0], p[2]) for p in r["plist"]), r["req"], r["opt"], r["rest"], r["nrest"],
            ("%s parameterCount=%d optionalParameterCount=%d" % (r["rkind"], r["pc"], r["opc"])) if r["found"] else "method not found (" + (r["rwhere"] or "lookup failed") + ")")
        if len(rs) > 1:
            what += " [+%d more rows of this class]" % (len(rs) - 1)
        if conf:
            what += " | executed: %s -> %s" % (conf["call"], conf["observed"])
        ctx.fail(k, what, stream="c28.table", case=dict(rows=[x["key"] for x in rs[:40]], row=r["key"], call=(conf or {}).get("call")),
                 impl=(conf or {}).get("observed", "not executed (no receiver/argument catalogue entry)"), model="compatible = false",
                 oracle="every declared method is callable on instances with every admitted argument count (Model/C28_Arity.v compatible)")
    found = [r for r in tab.rows if r["found"]]
    dist = {}
    for r in tab.rows:
        c = ("found:" + r["rkind"]) if r["found"] else ("unfound:" + ("abstract-or-no-instances" if compatible(r) else "incompatible"))
        dist[r["kind"] + ":" + c] = dist.get(r["kind"] + ":" + c, 0) + 1
    ctx.stream("c28.table", len(tab.rows), len(found),
               "one row per method declared in a std namespace (own) and per non-abstract method a concrete std class inherits in the type "
               "environment (inh); runtime side = lookup on the runtime class / singleton of the same name; `compatible` evaluated by the "
               "harness, by this script and (proved equal on the whole table) by the Coq definition; non-trivial = rows with a runtime method",
               [{"input": r["key"], "observed": "req=%d opt=%d rest=%d nrest=%d | %s pc=%d opc=%d" % (
                   r["req"], r["opt"], r["rest"], r["nrest"], r["rkind"], r["pc"], r["opc"])} for r in (found[:1] + found[-1:])],
               dist, incompatible_rows=len(bad_rows), incompatible_classes=len(byclass))
    # ---- reports (not gating)
    ctx.extra["report_incompatible_classes"] = {k: len(v) for k, v in sorted(byclass.items())}
    ctx.extra["report_runtime_natives_without_declaration"] = {
        "count": len(tab.undecl), "sample": ["%s#%s(%s params)" % (u[0], u[1], u[2]) for u in tab.undecl[:40]]}
    ctx.extra["report_mixins_declared_but_not_included_at_runtime"] = {
        "count": len(tab.mixins), "pairs": ["%s <- %s" % m for m in tab.mixins[:120]]}
    ctx.extra["report_optional_count_differs"] = len(
        [r for r in tab.rows if r["found"] and r["pc"] == r["total"] and r["opc"] != r["opt"] and r["rkind"] == "native"])


def setup_gen():
    """called by setup.sh: write coq/Gen/C28_Headers.v before the full make"""
    regenerate(vlib.Ctx("C28", "quick", 1))
