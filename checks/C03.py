"""C03 - the front end is total: every input gets diagnostics, never a crash or a hang."""
import hashlib
import os
import re
import vlib

STAGES = ("lex", "parse", "check", "regex", "render")
FIELD_SPLIT = re.compile(r";(?=(?:lex|parse|check|regex|render|note)=)")

FRONT_RULE = (
    "FUZZING, not proof. Byte strings from seven seeded generators (the letter is the id prefix): "
    "g = random grammar of Elk expressions/statements/declarations (closures with and without arrow, `a ?? b`/`a || b`/`a && b` "
    "directly as call arguments, regex literals with odd bodies such as `(?#`, string interpolation, macros/quote/unquote, "
    "switch patterns, generics, type annotations); m = token-level mutations (lex a valid program, delete/duplicate/swap/replace "
    "1-3 tokens, re-join); t = REPL-style truncations (byte offset, line end, token boundary, middle slice) of valid programs = every "
    ".elk/.elh file <= 20 kB of the repo and every source:/input: string of vm/, parser/ and types/checker/ Go tests, harvested at "
    "run time; r = raw random bytes / punctuation soup of length 1..40 and random regex-body fragments; x = 1..3 token inputs over a "
    "25-token alphabet (quick: a seeded sample making up 1/5 of the inputs; thorough: all 16 275, once joined with a space and once with "
    "nothing, in addition to the generated inputs); "
    "p = EVERY-BYTE-POSITION prefix truncation (what the REPL lexes and parses after each keystroke): for each base text b and "
    "each 0 < i <= len(b) the inputs b[:i] and b[:i]+newline (so that the cut element also ENDS A SOURCE LINE: the diagnostic excerpt "
    "of that line is re-lexed without its newline), deduplicated; bases = every input: string of lexer/*_test.go (all of them, both "
    "tiers), input:/source: strings of parser/*_test.go (quick: a seeded sample of n/12; thorough: all) and snippets of a LITERAL "
    "grammar (n/8 snippets quick, n/12 thorough) covering every literal kind the lexer has a scanner or a mode for - ints in every base with "
    "valid/invalid digits, underscores and suffixes, floats/exponents, strings/raw strings/chars with every escape form cut short, "
    "interpolation, symbols, quoted identifiers, regex literals, ranges, comments, and the collection literals %w[ %s[ %x[ %b[ and "
    "their ^ and backslash forms with valid and INVALID elements, any separator, closed / closed with capacity / not closed; the "
    "same literal grammar also feeds the atoms of g (hence m and t); stages lex, parse, render only; "
    "d = DECLARATION-LEVEL programs for the checker (n/10 quick, n/4 thorough; harness/cmd/c03/decl.go): a graph of 1-4 named entities - "
    "typedefs (plain/generic), classes (plain/generic), mixins, interfaces, modules, constants - placed in the root namespace, in a "
    "container M (module/class/mixin/interface), a nested M::N or a sibling K (containers opened nested, reopened, as `class M::N`, or "
    "everything declared flat as `class M::A`); each entity refers to others in its typedef body (through unions, nilable, "
    "intersections, generic arguments, bounds and defaults of type parameters, closure types, unary type operators), as superclass, "
    "include / implement / using, instance variable / getter / method signature types, nested typedef / class / constant, constant "
    "initialisers (other constants, constructor and method calls, macro calls) and method bodies calling m0..m2 of itself or of the "
    "referenced entities (instance, singleton, default arguments), optionally a macro; every reference is printed in a seeded NAME "
    "FORM - plain `A`, qualified `M::N::A`, absolute `::M::N::A`, partially qualified `N::A`, a path through another namespace, a missing "
    "name (a per-program style: plain only / always qualified / mostly qualified / anything); graph shapes: a CYCLE of length 1-3 (half "
    "of the programs), forward chain, chain with missing names, random edges, plus duplicate names; declaration order shuffled; then "
    "every entity is USED 1-2 times at the root (`var x: T = 1`, nilable/union/ArrayList[T] annotations, `1 as T`, a method over T, a typedef "
    "over T, `T()`, `T.m0()`, `T::mac!(1)`, `T::foo!()`, subclass / include / implement of T, `using T::*`, object patterns, `println(C)`), "
    "in 1/8 of the programs BEFORE the declarations; stages lex, parse, check, render with 1 s / 3 s of CPU; about 9 in 10 parse, so the "
    "checker really runs; "
    "c = corpus/C03.front.txt replayed first. Each input runs in one of 8 worker subprocesses through lexer.Lex, parser.Parse, "
    "checker.CheckSource (fresh global environment per input, ~30 ms; it only does work when the parser accepts the input, "
    "which is the case for about 1 input in 5, otherwise it returns the parser's diagnostics: recorded as check=skip) and "
    "regex.Transpile(input as a regex body, 10 flag bytes) and the render stage = the REPORTING step of `elk run`/the REPL: the "
    "diagnostics of parser.Parse and of the checker stage printed by DiagnosticList.HumanStringWithSourceMap(style, lexer.Colorizer) "
    "(each excerpt line is re-lexed by lexer.Colorize) plus lexer.Colorize on the whole input and on each of its lines; "
    "every stage under its own recover(). Watchdog: 2 s of CPU on one input "
    "(or 20 s wall) abandons it; it is retried alone in a fresh worker with 6 s CPU / 60 s wall and only a second expiry counts as "
    "a timeout (site = deepest frame common to 8 stack samples); a dead worker's in-flight input is likewise retried alone; inputs of "
    "generator p have 0.5 s / 1.5 s of CPU and, in a run that has already seen 12 first-round expiries at one site, the remaining p "
    "inputs are not run (counted as prefix_inputs_skipped_after_site_cap; such a run fails). "
    "Gating observable: no stage panics, no worker dies, no timeout. non-trivial = the input produced at least one diagnostic "
    "or was accepted by the parser; distinct by input bytes.")


def regex_part(ctx):
    """proof gate + stream c03.regex (Coq model of the regex lexer/parser vs regex.Transpile)"""
    # filled in by b-c21-c03
    ctx.trusted_base += [
        "c03.regex: the regex front end is modelled over code points (UTF-8 decoding happens in the driver, Go's DecodeRune rules); "
        "unicode.IsLetter inside \\p{...} is approximated outside ASCII; spans/messages of diagnostics are not modelled, only "
        "'diagnostics vs. transpiled text'",
    ]
    ctx.run_proof_gate()
    stream = "c03.regex"
    try:
        h = vlib.build_harness("c21")          # generator of regex sources x flag sets, shared with C21
        m = vlib.build_model_exact("C03")
    except vlib.BuildError as e:
        ctx.broke("c03.regex build: " + str(e)[:300], str(e))
        return
    corpus = os.path.join(vlib.ROOT, "corpus", "C03.regex.txt")
    cmd = [h, "-seed", str(ctx.sseed(stream)), "-n", str(ctx.n(1500, 20000)), "-tier", ctx.tier]
    if os.path.exists(corpus):
        cmd += ["-input", corpus]
    rc, out = vlib.sh(cmd, timeout=3000, env=vlib.elk_env())
    ids, inputs, obs = vlib.parse_case_lines(out)
    if rc != 0 or not ids:
        ctx.broke("correspondence %s: harness exited %d" % (stream, rc), out[-3000:])
        if not ids:
            return
    rc2, exp, mout = vlib.run_model(m, ids, inputs, timeout=3000)
    if rc2 != 0:
        ctx.broke("correspondence %s: model driver exited %d" % (stream, rc2), mout[-3000:])

    def fld(inp, k):
        for p in inp.split(" "):
            if p.startswith(k + "="):
                return p[len(k) + 1:]
        return ""

    def impl_class(o):
        if "unterminated-comment" in o or "HANG" in o or o.startswith("timeout"):
            return "hang", ""
        if o.startswith("parse-error") or "text=ERR" in o:
            return "diag", ""
        t = fld(o.replace(";", " "), "text")
        return "ok", t

    dist = {}
    distinct = set()
    fails = []
    mism = 0
    for i in ids:
        inp = inputs[i]
        src = fld(inp, "src")
        try:
            txt = bytes.fromhex(src).decode("utf-8", "replace")
        except ValueError:
            txt = src
        ic, itext = impl_class(obs[i])
        e = exp.get(i)
        if e is None or e.startswith("driver-error"):
            ctx.broke("correspondence %s: model gave no answer for %r (%s)" % (stream, txt[:80], e))
            continue
        mc, mtext = ("diag", "") if e == "diag" else (("fuel", "") if e == "out-of-fuel" else ("ok", e[5:]))
        dist[ic] = dist.get(ic, 0) + 1
        if ic != "ok" or any(ch in txt for ch in "([{\\|"):
            distinct.add((fld(inp, "f"), src))
        if mc == "fuel":
            mism += 1
            fails.append((len(src), "regex:model-out-of-fuel", "the proved fuel bound was exceeded on %r" % txt, inp, obs[i], e))
        elif ic != mc:      # the TEXT is C21's business (c21.text); C03 gates on the outcome class only
            mism += 1
            if ic == "hang":
                key = "regex:hang:unterminated-comment-group"
            else:
                key = "regex:%s-vs-model-%s" % (ic, mc) + (":comment-group" if "(?#" in txt else "") + \
                      (":x" if "x" in fld(inp, "f") else "")
            fails.append((len(src), key, "regex.Transpile(%r, %s): implementation %s, model %s" % (txt[:120], fld(inp, "f"), obs[i][:160], e[:160]),
                          "f=%s src=%s" % (fld(inp, "f"), src), obs[i][:400], e[:400]))
    fails.sort(key=lambda x: (x[0], x[1]))
    seen = {}
    for sz, key, what, case, impl, model in fails:
        seen[key] = seen.get(key, 0) + 1
        if seen[key] <= 3:
            ctx.fail(key, what, stream=stream, case=case, impl=impl, model=model,
                     oracle="regex.Transpile must finish, with diagnostics or with a text, as the proved model does")
    ctx.stream(stream, len(ids), len(distinct),
               "regex sources (generated trees printed to text + character-level mutations + corpus of unterminated constructs) x flag "
               "sets through regex.Transpile (3 s watchdog against the `(?#` hang) vs the Coq lexer+parser+transpiler "
               "(Model/C03_RegexFront.transpile_source): outcome class (diagnostics | text | hang) must agree - the text itself is compared by c21.text; non-trivial = not a plain literal",
               [{"input": inputs[i][:300], "observed": obs[i][:200]} for i in ids[:2] + ids[-2:]], dist,
               mismatches=mism, failing_keys=sorted(seen))


def parse_observed(obs):
    """-> dict stage->result, plus '_whole' = (kind, stage, site, msg) for timeout/fatal lines and 'note'."""
    d = {}
    if obs.startswith("skipped:site-cap:"):
        d["_skipped"] = obs[len("skipped:site-cap:"):]
        return d
    for kind in ("timeout-unretried", "timeout", "fatal"):
        if obs.startswith(kind + ":"):
            p = obs[len(kind) + 1:].split(":", 3)
            p += [""] * (4 - len(p))
            d["_whole"] = (kind, p[0], p[1] + ":" + p[2], p[3])
            return d
    for f in FIELD_SPLIT.split(obs):
        if "=" in f:
            k, v = f.split("=", 1)
            d[k] = v
    return d


def show_input(b):
    """an input as a corpus line: text:<escaped> when printable, else hex:<..>"""
    try:
        s = b.decode("utf-8")
    except UnicodeDecodeError:
        return "hex:" + b.hex()
    if all(c in "\n\t\r" or (c.isprintable()) for c in s):
        return "text:" + s.replace("\\", "\\\\").replace("\n", "\\n").replace("\t", "\\t").replace("\r", "\\r")
    return "hex:" + b.hex()


def outcome_class(d):
    if "_skipped" in d:
        return "skipped_after_site_cap"
    if "_whole" in d:
        return d["_whole"][0]
    if any(d.get(s, "").startswith("panic:") for s in STAGES):
        return "panic"
    if d.get("parse") == "ok":
        return {"ok": "accepted", "diag": "check_diag", "off": "parse_ok_unchecked"}.get(d.get("check"), "parse_ok")
    if d.get("lex") == "diag":
        return "lex_diag"
    return "parse_diag"


def front_stream(ctx):
    stream = "c03.front"
    h = vlib.build_harness("c03")
    corpus = os.path.join(vlib.ROOT, "corpus", "C03.front.txt")
    cmd = [h, "-seed", str(ctx.sseed(stream)), "-n", str(ctx.n(3000, 30000)), "-tier", ctx.tier]
    if os.path.exists(corpus):
        cmd += ["-input", corpus]
    rc, out = vlib.sh(cmd, timeout=3000, env=vlib.elk_env({"VERIF_REPO": vlib.REPO}), cwd=ctx.workdir)
    ids, inputs, obs = vlib.parse_case_lines(out)
    if rc != 0 or not ids:
        ctx.broke("stream %s: harness exited %d" % (stream, rc), out[-3000:])
        if not ids:
            return
    dist = {}
    distinct = set()
    fails = []      # (size, key, what, case, impl)
    checker_ran = 0
    regex_diag = 0
    skipped = {}    # hang site -> p inputs not run after 12 first-round expiries there

    def bump(k):
        dist[k] = dist.get(k, 0) + 1

    for i in ids:
        try:
            b = bytes.fromhex(inputs[i])
        except ValueError:
            ctx.broke("stream %s: malformed harness line %s" % (stream, i))
            continue
        d = parse_observed(obs[i])
        gen = re.match(r"[a-z]+", i)
        bump("gen:" + (gen.group(0) if gen else "?"))
        bump("outcome:" + outcome_class(d))
        case = show_input(b)
        if "_skipped" in d:
            skipped[d["_skipped"]] = skipped.get(d["_skipped"], 0) + 1
            continue
        if "_whole" in d:
            kind, stage, site, msg = d["_whole"]
            if kind == "timeout-unretried":
                continue      # same site already confirmed 3 times in this run; counted, not reported again
            key = "front:%s:%s:%s" % (stage, kind, site)
            nonterm = kind == "timeout" or site.endswith("~rec") or (kind == "fatal" and ("stack overflow" in msg or "stack exceeds" in msg))
            if nonterm and stage == "check":
                # non-termination of the checker: the frame in which the watchdog or Go's stack overflow catches it
                # differs from run to run, so the finding is identified by the input itself (the site stays in `what`)
                key = "front:check:nonterm:input-" + hashlib.sha1(b).hexdigest()[:12]
            elif site.endswith("~rec"):
                # runaway recursion: whether it ends in the CPU watchdog or in Go's stack overflow, and in which
                # frame, depends on timing; the class is named by the recursion cycle (harness: recursionSite)
                key = "front:%s:recursion:%s" % (stage, site[:-4])
            elif kind == "fatal" and ("stack overflow" in msg or "stack exceeds" in msg):
                key += ":stack-overflow"      # unbounded recursion (not recoverable), as opposed to a panic in a goroutine of the checker
            what = ("%s: %s in stage %s at %s%s" % (case[:200], "does not terminate (CPU budget exceeded twice, the second time alone in a fresh process with three times the budget)"
                                                      if kind == "timeout" else "kills the process", stage, site, (": " + msg) if msg else ""))
            fails.append((len(b), key, what, case, obs[i]))
            continue
        if d.get("check") in ("ok", "diag") or d.get("check", "").startswith("panic:"):
            checker_ran += 1
        if d.get("regex") == "diag":
            regex_diag += 1
        if d.get("parse") == "ok" or any(d.get(s) == "diag" for s in STAGES):
            distinct.add(b)
        for s in STAGES:
            v = d.get(s, "")
            if v.startswith("panic:"):
                p = v.split(":", 3)
                p += [""] * (4 - len(p))
                key = "front:%s:panic:%s:%s" % (s, p[1], p[2])
                if s == "render":     # the printer has one big function: keep different kinds of crash apart
                    m = re.match(r"runtime error: ([a-z ]+?)( \[|:|$)", p[3])
                    key += ":" + (m.group(1).replace(" ", "-") if m else "other")
                fails.append((len(b), key, "%s: stage %s panics at %s:%s: %s" % (case[:200], s, p[1], p[2], p[3]), case, v))
        note = d.get("note", "")
        if note.startswith("first-round-died:"):
            p = note[len("first-round-died:"):].split(":", 3)
            p += [""] * (4 - len(p))
            bump("worker_died_unreproduced")
            if p[1] != "unknown":
                key = "front:%s:fatal-unattributed:%s:%s" % (p[0], p[1], p[2])
                fails.append((len(b), key, "a worker died (%s) while %s was in flight; the input alone does not reproduce it, so an "
                              "earlier input of the same worker left a goroutine behind that crashed" % (p[3], case[:200]), case, note))
        elif note.startswith("first-round-timeout:"):
            bump("slow_in_first_round_ok_on_retry")
    fails.sort(key=lambda x: (x[0], x[1]))
    seen = {}
    for sz, key, what, case, impl in fails:
        seen[key] = seen.get(key, 0) + 1
        bump("FAIL " + key)
        if seen[key] <= 3:
            ctx.fail(key, what, stream=stream, case=case, impl=impl, oracle="no panic, no timeout")
    for site, cnt in sorted(skipped.items()):
        if not any(k.endswith(":timeout:" + site.split(":", 1)[1]) for k in seen):
            ctx.broke("stream %s: %d prefix inputs were skipped after 12 first-round watchdog expiries at %s, but no expiry there "
                      "was confirmed on retry" % (stream, cnt, site))
    pick = [i for i in ids if i[0] != "c"]
    samples = [{"input": show_input(bytes.fromhex(inputs[i]))[:300], "observed": obs[i][:300]} for i in ids[:1] + pick[:2] + pick[-2:]]
    ctx.stream(stream, len(ids) - sum(skipped.values()), len(distinct), FRONT_RULE, samples, dist,
               checker_stage_ran=checker_ran, regex_stage_diagnostics=regex_diag, failing_keys=sorted(seen),
               prefix_inputs_skipped_after_site_cap=sum(skipped.values()))


def run(ctx):
    ctx.explanation = (
        "PROVED (see c03.regex / Props/C03.v, filled in by regex_part): termination and diagnostics-only behaviour of a fuelled Coq model "
        "of the REGEX lexer and parser. NOT PROVED, FUZZED ONLY: the Elk lexer, the 8 000-line Elk parser, the macro expander and the "
        "type checker are not modelled at all; stream c03.front is fuzzing, not proof: generated, mutated and truncated inputs are "
        "pushed through lexer.Lex, parser.Parse, checker.CheckSource, regex.Transpile and the diagnostic printer (HumanString with "
        "lexer.Colorizer, which re-lexes every excerpt line) in watchdogged subprocesses and the only thing "
        "observed is 'no panic, no fatal error, no hang'. Since the strengthening pass the stream also contains EVERY byte-position prefix "
        "(with and without a trailing newline) of all lexer test inputs, of parser test inputs and of snippets of a literal grammar "
        "that covers every literal kind / lexer mode with invalid elements (generator p): this is an implementation-level oracle "
        "(CPU-time watchdog + recover), NOT a model - the scanners of the Elk lexer (e.g. scanIntCollectionLiteral, where a loop that "
        "does not test advanceChar's ok result at end of input would spin) are not modelled in Coq. Since the second strengthening pass "
        "the stream has a DECLARATION-LEVEL generator for the checker stage (generator d: small graphs of typedefs / classes / mixins / "
        "interfaces / modules / constants referring to each other in every name form - plain, M::X, ::M::X, nested - with cycles of "
        "length 1-3, forward references, duplicates and missing names on purpose, every declared entity used afterwards); again an "
        "implementation-level oracle (watchdog, recover, worker death), NOT a model: name resolution, the on-demand type definition check "
        "and cycle detection of the checker are not modelled in Coq. On the unchanged tree this class crashes or hangs the checker at more "
        "than a dozen sites (known findings keyed by site; hang sites are the deepest frame common to 8 stack samples and may vary between "
        "runs for one and the same defect). A pass of c03.front means no "
        "crashing or hanging input was found among the inputs tried, nothing more.")
    ctx.trusted_base += [
        "c03.front: Go harness harness/cmd/c03 (generators, worker pool, CPU-time watchdog reading /proc/<pid>/stat, stack-sample site extraction); "
        "the checker stage uses checker.CheckSource with a fresh global environment, the entry cmd/elk's CheckFile shares (newChecker + CheckProgram); "
        "the REPL's incremental (*Checker).CheckSource path is not exercised; the render stage prints with the source map entry of the "
        "input itself (as the REPL does; `elk run` re-reads the file), diagnostics located in other files are not printed",
    ]
    regex_part(ctx)
    try:
        front_stream(ctx)
    except vlib.BuildError as e:
        ctx.broke("harness build: " + str(e)[:300], str(e))
