"""C06 — Int arithmetic is exact and independent of integer representation."""
import os
import vlib

OPSYM = {"add": "+", "sub": "-", "mul": "*", "div": "/", "mod": "%", "pow": "**", "lt": "<", "le": "<=",
         "gt": ">", "ge": ">=", "eq": "==", "ne": "!=", "cmp": "<=>", "shl": "<<", "shr": ">>",
         "and": "&", "or": "|", "xor": "^", "andnot": "&~"}
BOOL_OPS = ("lt", "le", "gt", "ge", "eq", "ne")
NOHASH_OPS = BOOL_OPS + ("cmp",)     # `<=>` is typed Int?, Bool results: only inspect is observed
BIT_OPS = ("and", "or", "xor", "andnot")
MIN64, MAX64 = -2 ** 63, 2 ** 63 - 1


def sign(z):
    z = int(z)
    return "neg" if z < 0 else ("zero" if z == 0 else "pos")


def rep(z):
    return "S" if MIN64 <= int(z) <= MAX64 else "B"


def opclass(op, a, b):
    """canonical class of a case: operator + representation and sign of both operands
    (+ size class of a shift amount)"""
    a, b = int(a), int(b)
    k = "%s:%s%s/%s%s" % (op, rep(a), sign(a), rep(b), sign(b))
    if op.split(".")[0] in ("shl", "shr"):
        k += ":amt" + ("<64" if abs(b) < 64 else (">=64" if MIN64 < b <= MAX64 else "huge"))
    return k


def keyfn(inp, obs, exp):
    f = inp.split()
    return "%s:%s%s" % (opclass(f[0], f[2], f[4]), obs.split()[0], ":operand-mutated" if obs.endswith("MUT") else "")


# ---------------------------------------------------------------- c06.vm

def lit(z):
    return str(z) if z >= 0 else "(%d)" % z


def boundary(r):
    z = 2 ** r.choice([0, 1, 7, 8, 16, 31, 32, 53, 62, 63, 64, 65, 100, 128]) + r.range(-3, 3)
    if r.chance(1, 2):
        z = -z
    return r.range(-3, 3) if r.chance(1, 12) else z


def randbits(r, bits):
    z = 0
    for _ in range((bits + 63) // 64):
        z = (z << 64) | r.next()
    z >>= ((bits + 63) // 64) * 64 - bits
    return -z if r.chance(1, 2) else z


def gen_vm_case(r):
    """(op, a, b): many cases produce a SMALL result through BIG intermediate values"""
    op = r.choice(["add", "sub", "mul", "div", "mod", "pow", "neg", "lt", "le", "gt", "ge", "eq", "ne", "cmp",
                   "shl", "shr", "shl", "shr", "and", "or", "xor", "andnot"])
    a = boundary(r) if r.chance(1, 2) else randbits(r, r.range(1, 160))
    b = boundary(r) if r.chance(1, 2) else randbits(r, r.range(1, 160))
    if r.chance(1, 3):   # small result out of big operands
        c = randbits(r, r.range(64, 150)) or 2 ** 70
        d = r.range(-1000, 1000)
        if op == "sub":
            a, b = c + d, c
        elif op == "add":
            a, b = c, -c + d
        elif op == "div":
            a, b = c * d, c
        elif op == "mod":
            a, b = c * 3 + (abs(d) if c > 0 else -abs(d)), c
        elif op == "xor":
            a, b = c, c ^ d
        elif op == "and":
            a, b = c, abs(d)
        elif op == "andnot":
            a, b = c, c ^ abs(d)
        elif op == "shr":
            a, b = c, r.range(60, 160)
        elif op == "shl":
            a, b = c, -r.range(60, 160)
    if op in ("div", "mod") and b == 0:
        b = 7
    if op == "pow":
        b = r.range(0, 66)
        if abs(a) >= 2 ** 40:
            a = r.range(-12, 12)
    if op in ("shl", "shr"):
        if not r.chance(1, 3) or abs(b) > 2 ** 80:
            b = r.choice([r.range(-3, 3), r.range(-70, 70), r.range(-200, 200), r.choice([62, 63, 64, 65, -63, -64, -65])])
        # keep the exact result materialisable: left by at most 300 bits unless the operand is 0
        left = b if op == "shl" else -b
        if left > 300 and a != 0:
            b = -b
    if op in ("eq", "ne", "le", "ge", "lt", "gt", "cmp") and r.chance(1, 3):
        b = a + r.range(-1, 1)
    if op == "neg":
        b = 0
        if r.chance(1, 3):
            a = r.choice([2 ** 63, -2 ** 63, 2 ** 63 - 1, -2 ** 63 + 1, 2 ** 63 + 1, -2 ** 63 - 1])
    return op, a, b


SHAPES = ("L", "T", "G")


def shape_code(i, sh, op, a, b, exp):
    """Elk statements for one case in one shape; prints '<i> <shape> <inspect> <==expected> <hash==> <left operand afterwards>'"""
    v = "%s%d" % (sh.lower(), i)
    if op == "cmp" and sh != "G":
        return None         # the checker rejects `.inspect` on `Int <=> Int` (typed/literal operands); only the union shape compiles
    if sh == "L":
        x, y, decl = lit(a), lit(b), ""
    elif sh == "T":
        x, y = "a" + v, "b" + v
        decl = "var %s: Int = %s\nvar %s: Int = %s\n" % (x, lit(a), y, lit(b))
    else:
        x, y = "a" + v, "b" + v
        if op in BIT_OPS:
            return None     # no union of builtin types admits & | ^ &~: the generic opcode is unreachable
        if op in ("shl", "shr"):
            decl = "var %s: Int | Int64 = %s\nvar %s: Int = %s\n" % (x, lit(a), y, lit(b))
        else:
            decl = "var %s: Int | Float = %s\nvar %s: Int | Float = %s\n" % (x, lit(a), y, lit(b))
    expr = "-%s" % x if op == "neg" else "%s %s %s" % (x, OPSYM[op], y)
    code = decl + "r%s := %s\n" % (v, expr)
    after = '"-"' if sh == "L" else x + ".inspect"    # the left operand must not have been changed by the operation
    if op in NOHASH_OPS:
        code += 'println("%d %s " + r%s.inspect + " - - " + %s)\n' % (i, sh, v, after)
    else:
        code += 'println("%d %s " + r%s.inspect + " " + (r%s == %s).inspect + " " + (r%s.hash == %s.hash).inspect + " " + %s)\n' % (
            i, sh, v, v, lit(exp), v, lit(exp), after)
    return code


def vm_stream(ctx, elk, model):
    stream = "c06.vm"
    r = ctx.rng(stream)
    cases = []
    corpus = os.path.join(vlib.ROOT, "corpus", "C06.vm.txt")
    if os.path.exists(corpus):
        for l in open(corpus):
            f = l.split("#")[0].split()
            if len(f) == 3:
                cases.append((f[0], int(f[1]), int(f[2])))
    ncorpus = len(cases)
    for _ in range(ctx.n(330, 9000)):
        cases.append(gen_vm_case(r))
    ids = [str(i) for i in range(len(cases))]
    inputs = {str(i): "%s %s %d %s %d" % (c[0], rep(c[1]), c[1], rep(c[2]), c[2]) for i, c in enumerate(cases)}
    rc, spec, mout = vlib.run_model(model, ids, inputs, args=["spec"])
    if rc != 0 or len(spec) != len(ids):
        ctx.broke("c06.vm: model driver (spec mode) failed", mout[-2000:])
        return
    expected = {}
    for i, c in enumerate(cases):
        e = spec[str(i)]
        expected[i] = {"T": "true", "F": "false"}.get(e, e)
    B = 30
    progs, members = [], {}
    starts = ([0] if ncorpus else []) + list(range(ncorpus, len(cases), B))     # the corpus is a batch of its own
    for bi, p0 in enumerate(starts):
        p1 = starts[bi + 1] if bi + 1 < len(starts) else len(cases)
        src = []
        for i in range(p0, p1):
            op, a, b = cases[i]
            for sh in SHAPES:
                code = shape_code(i, sh, op, a, b, 0 if op in NOHASH_OPS else int(expected[i]))
                if code:
                    src.append(code)
        name = "p%d" % p0
        progs.append((name, "".join(src)))
        members[name] = range(p0, p1)
    wd = os.path.join(ctx.workdir, "vm")
    res = vlib.run_programs(elk, progs, wd, timeout=240)
    got = {}         # (i, shape) -> (inspect, eq, hash) | ("CRASH", outcome, first line)
    rerun = []
    for name, (rc, out, cls) in res.items():
        if cls == "ok":
            for l in out.splitlines():
                f = l.split(" ")
                if len(f) == 6 and f[0].isdigit():
                    got[(int(f[0]), f[1])] = (f[2], f[3], f[4], f[5])
        else:
            rerun.append(name)
    # a failing batch is re-run one case and shape per program to isolate the culprit
    budget = ctx.n(2, 40)
    singles = []
    for name in sorted(rerun, key=lambda s: int(s[1:]))[:budget]:
        for i in members[name]:
            op, a, b = cases[i]
            for sh in SHAPES:
                code = shape_code(i, sh, op, a, b, 0 if op in NOHASH_OPS else int(expected[i]))
                if code:
                    singles.append(("s%d%s" % (i, sh), code))
    skipped = max(0, len(rerun) - budget)
    if singles:
        res2 = vlib.run_programs(elk, singles, wd, timeout=120)
        for name, (rc, out, cls) in res2.items():
            i, sh = int(name[1:-1]), name[-1]
            if cls == "ok":
                for l in out.splitlines():
                    f = l.split(" ")
                    if len(f) == 6 and f[0].isdigit():
                        got[(int(f[0]), f[1])] = (f[2], f[3], f[4], f[5])
            else:
                msg = next((x for x in out.splitlines() if "panic" in x or "error" in x.lower() or "FAIL" in x), out[:200])
                got[(i, sh)] = ("CRASH", cls, msg.strip()[:160])
    evals, distinct, dist, mism, timeouts = 0, set(), {}, 0, 0
    samples = []
    for i, (op, a, b) in enumerate(cases):
        for sh in SHAPES:
            if sh == "G" and op in BIT_OPS:
                continue
            g = got.get((i, sh))
            if g is None:
                continue      # member of a failing batch beyond the re-run budget
            evals += 1
            dist[op + "/" + sh] = dist.get(op + "/" + sh, 0) + 1
            if abs(a) > 4 or abs(b) > 4:
                distinct.add((op, a, b, sh))
            if len(samples) < 3:
                samples.append({"input": "%s %d %d shape=%s" % (op, a, b, sh), "observed": " ".join(g)})
            kind = None
            if g[0] == "CRASH" and g[1] == "timeout":
                timeouts += 1       # machine load, not a verdict
                continue
            if g[0] == "CRASH":
                kind = "crash-" + g[1]
            elif g[0] != expected[i]:
                kind = "value"
            elif g[1] == "false":
                kind = "not-equal-to-same-integer"
            elif g[2] == "false":
                kind = "hash-differs-from-same-integer"
            elif g[3] not in ("-", str(a)):
                kind = "operand-mutated"
            if kind:
                mism += 1
                if mism <= 300:
                    ctx.fail("vm:%s:%s:%s" % (opclass(op, a, b), sh, kind),
                             "%s %s %s in shape %s (L=literals/folded, T=typed Int locals, G=union-typed locals): elk gives %s, exact result %s"
                             % (lit(a), OPSYM.get(op, "-@"), lit(b), sh, " ".join(g), expected[i]),
                             stream=stream, case="%s %d %d" % (op, a, b), impl=" ".join(g), model=expected[i],
                             oracle="inspect of the result must be the exact integer; result == literal and result.hash == literal.hash must be true; the left operand must be unchanged")
    if skipped:
        ctx.extra["c06.vm.failing_batches_not_isolated"] = skipped
    if timeouts:
        ctx.extra["c06.vm.timeouts_ignored"] = timeouts
    ctx.stream(stream, evals, len(distinct),
               "seeded operand pairs (boundary clusters, random 1-160 bit values, big operands with small results) x 21 "
               "operators x 3 program shapes run on `elk run` (30 cases per program); gating observables: inspect of the "
               "result, result == <exact literal>, result.hash == <exact literal>.hash; %d corpus cases first; "
               "non-trivial = some operand outside [-4,4]" % ncorpus,
               samples, dist, mismatches=mism, programs=len(progs) + len(singles))


def run(ctx):
    ctx.explanation = (
        "Proved (Coq, all canonical Int pairs over unbounded Z, model mirrors value/small_int.go and value/big_int.go after "
        "fixes/C06-int-shift-negate-andnot.patch): + - * / % exact with ZeroDivisionError iff divisor 0; unary minus; ** for "
        "exponent >= 0; > >= < <= == <=>; & | ^ &~; << >> for every SmallInt amount except MinSmallInt unconditionally, and for "
        "MinSmallInt/BigInt amounts under a guard excluding only unrepresentable values (non-zero value shifted left by >= 2^63 "
        "bits; operand longer than a >= 2^63-bit right shift); every result canonical (Small iff it fits), hence == / hash / "
        "inspect cannot depend on the representation; shifts never panic. NOT proved, only differential-tested: that the Go code "
        "equals the model (c06.val: value.*Val and value.*Ints entry points incl. operand-mutation detection; c06.vm: folded, "
        "typed-opcode and generic-opcode program shapes on the real binary). math/big and xxhash are trusted; memory exhaustion "
        "for left shifts beyond ~2^31 bits and ** with negative exponents (Go's Exp returns 1) are outside the claim.")
    ctx.trusted_base += ["math/big modelled as Z (Add/Sub/Mul/Quo/Rem/Exp/Lsh/Rsh/And/Or/Xor/AndNot/Cmp/IsInt64) - validated by the streams, not proved",
                         "Elk's Int#hash and inspect taken as functions of the canonical value (xxhash, strconv trusted)"]
    ctx.run_proof_gate()
    h = vlib.build_harness("c06")
    m = vlib.build_model_exact("C06")
    vlib.value_stream(ctx, "c06.val", h, m, ctx.n(6000, 250000), keyfn,
                      "seeded operands from boundary clusters (0, +-1, +-2^k+-3 for k in 0..128) and random 1-200 bit values, "
                      "x 19 operators x 2 entry points (value.*Val / value.*Ints); shift amounts around 0, 63-66, 127-129, "
                      "+-300 and amounts beyond 64 bits; result value AND representation AND operand immutability compared "
                      "with the extracted model; non-trivial = at least one operand outside [-4,4]; distinct by full input",
                      corpus=os.path.join(vlib.ROOT, "corpus", "C06.val.txt"),
                      nontrivial=lambda i, o: any(abs(int(x)) > 4 for x in (i.split()[2], i.split()[4])))
    elk = vlib.build_elk()
    vm_stream(ctx, elk, m)
