"""C06 — Int arithmetic is exact and independent of integer representation."""
import os
import vlib


def sign(z):
    z = int(z)
    return "neg" if z < 0 else ("zero" if z == 0 else "pos")


def keyfn(inp, obs, exp):
    f = inp.split()
    op, ra, a, rb, b = f[:5]
    return "%s:%s%s/%s%s:%s" % (op, ra, sign(a), rb, sign(b), obs.split()[0])


def run(ctx):
    ctx.explanation = ("Theorems over all pairs of canonical Ints (unbounded Z) for + - * / % on the Go-mirroring model; "
                       "the tie runs value.*Val on the same operands (small/big representations, boundary clusters) "
                       "and compares result value AND representation with the extracted model.")
    ctx.trusted_base += ["math/big modelled as Z (Add/Sub/Mul/Quo/Rem/IsInt64) - validated by the stream, not proved"]
    ctx.run_proof_gate()
    h = vlib.build_harness("c06")
    m = vlib.build_model("C06")
    vlib.value_stream(ctx, "c06.val", h, m, ctx.n(4000, 400000), keyfn,
                      "seeded operands from boundary clusters (0, +-1, +-2^k+-3 for k in 0..128) and random 1-200 bit values, "
                      "x 5 operators; non-trivial = at least one operand outside [-4,4]; distinct by full input",
                      corpus=os.path.join(vlib.ROOT, "corpus", "C06.val.txt"),
                      nontrivial=lambda i, o: any(abs(int(x)) > 4 for x in (i.split()[2], i.split()[4])))
