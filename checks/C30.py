"""C30 — pattern matching selects the first matching case and binds correctly.

Stream c30.prog: seeded pattern shapes (depth <= 3) x value sets built to hit and to miss each
sub-pattern; every case is a `switch` over an `any`-typed parameter with one clause per pattern;
the clause body prints the clause index and every variable of the pattern (via `.inspect`).
Expected output comes from the extracted Coq matcher (ocaml/C30), the actual one from `elk run`.

Internal representation = the s-expression fed to the model, as nested Python lists of strings:
  atom  ['i','5'] ['s','1'] ['y','2'] 'n' 't' 'f'
  value atom | ['l', v...] | ['u', v...] | ['m', [k, v]...] | ['r', [k, v]...]
  pat   ['lit', atom] | ['cmp', op, n] | ['rng', kind, lo|'_', hi|'_'] | ['b', x] | 'w'
      | ['seq', 'l'|'u', [p...], 'none'|'anon'|['named', x], [p...]] | ['dict', 'm'|'r', [k, p]...]
      | ['or', p, q] | ['and', p, q] | ['as', p, x]
"""
import os
import re
import vlib

STREAM = "c30.prog"

# ------------------------------------------------------------------ s-expressions

def sx_parse(s):
    toks = re.findall(r"\(|\)|[^\s()]+", s)
    pos = [0]

    def item():
        t = toks[pos[0]]
        pos[0] += 1
        if t == "(":
            acc = []
            while toks[pos[0]] != ")":
                acc.append(item())
            pos[0] += 1
            return acc
        return t
    return item()


def sx_str(x):
    if isinstance(x, str):
        return x
    return "(" + " ".join(sx_str(y) for y in x) + ")"


# ------------------------------------------------------------------ printing to Elk

def elk_atom(a):
    if a == "n":
        return "nil"
    if a == "t":
        return "true"
    if a == "f":
        return "false"
    k, n = a
    if k == "i":
        return n
    if k == "s":
        return '"s%s"' % n
    if k == "y":
        return ":k%s" % n
    raise ValueError(a)


def is_atom(v):
    return isinstance(v, str) or v[0] in ("i", "s", "y")


def elk_value(v):
    if is_atom(v):
        return elk_atom(v)
    k = v[0]
    if k == "l":
        return "[" + ", ".join(elk_value(x) for x in v[1:]) + "]"
    if k == "u":
        return "%[" + ", ".join(elk_value(x) for x in v[1:]) + "]"
    body = ", ".join("%s => %s" % (elk_atom(e[0]), elk_value(e[1])) for e in v[1:])
    if k == "m":
        return "{" + body + "}"
    # Every record literal is built inside its own closure: two static symbol-keyed record
    # literals in one function crash the compiler's value pool (AddValue compares uncomparable
    # NativeKeyHashRecord structs) - a literal-compilation defect outside this property.
    return "(-> %{" + body + "}).()"


def elk_pat(p):
    if p == "w":
        return "_"
    k = p[0]
    if k == "lit":
        return elk_atom(p[1])
    if k == "cmp":
        return {"lt": "<", "le": "<=", "gt": ">", "ge": ">="}[p[1]] + " " + p[2]
    if k == "rng":
        kind, lo, hi = p[1], p[2], p[3]
        if hi == "_":
            return lo + ("..." if kind in ("c", "ro") else "<..")
        op = {"c": "...", "o": "<.<", "lo": "<..", "ro": "..<"}[kind]
        return lo + op + hi
    if k == "b":
        return "v" + p[1]
    if k == "seq":
        els = [elk_pat(x) for x in p[2]]
        if p[3] == "anon":
            els.append("*")
        elif p[3] != "none":
            els.append("*v" + p[3][1])
        els += [elk_pat(x) for x in p[4]]
        return ("[" if p[1] == "l" else "%[") + ", ".join(els) + "]"
    if k == "dict":
        body = ", ".join("%s => %s" % (elk_atom(e[0]), elk_pat(e[1])) for e in p[2:])
        return ("{" if p[1] == "m" else "%{") + body + "}"
    if k == "or":
        return "(" + elk_pat(p[1]) + " || " + elk_pat(p[2]) + ")"
    if k == "and":
        return "(" + elk_pat(p[1]) + " && " + elk_pat(p[2]) + ")"
    if k == "as":
        return "(" + elk_pat(p[1]) + " as v" + p[2] + ")"
    raise ValueError(p)


def pat_vars(p):
    """variables in binding order, first occurrences only (same order as the model driver)"""
    out = []

    def go(p):
        if p == "w":
            return
        k = p[0]
        if k == "b":
            out.append(p[1])
        elif k == "seq":
            for x in p[2]:
                go(x)
            if isinstance(p[3], list):
                out.append(p[3][1])
            for x in p[4]:
                go(x)
        elif k == "dict":
            for e in p[2:]:
                go(e[1])
        elif k in ("or", "and"):
            go(p[1])
            go(p[2])
        elif k == "as":
            out.append(p[2])
            go(p[1])
    go(p)
    seen = []
    for x in out:
        if x not in seen:
            seen.append(x)
    return seen


PRELUDE = """def ins(x: any): String
  switch x
  case ::Std::Value() as y then y.inspect
  else "?"
  end
end
"""


def program(clauses, values):
    """one switch inside `t`, which returns %[<clause index>, <variables...>] (%[-1] from else); the
    top level prints one line per value. No call is made inside `t`: a method that has extra locals
    and evaluates a call as an operand crashes the VM on the unchanged tree ("tried to call an
    invalid method", DESIGN section 6 #11 class) - unrelated to patterns, so it is kept out of the way."""
    lines = [PRELUDE, "def t(v: any): any", "  switch v"]
    for i, p in enumerate(clauses):
        lines.append("  case " + elk_pat(p) + " then %[" + ", ".join([str(i)] + ["v" + x for x in pat_vars(p)]) + "]")
    lines.append("  else %[-1]")
    lines.append("  end")
    lines.append("end")
    for v in values:
        lines.append("println(ins(t(" + elk_value(v) + ")))")
    return "\n".join(lines) + "\n"


# ------------------------------------------------------------------ parsing `.inspect` output

class InspectError(Exception):
    pass


def parse_inspect(s):
    """Elk inspect text -> canonical value: ('i',n) ('s',str) ('y',str) 'n' 't' 'f' 'undefined'
    ('l',(..)) ('u',(..)) ('m',frozenset) ('r',frozenset). List capacity suffix `:N` is dropped."""
    pos = [0]
    n = len(s)

    def ws():
        while pos[0] < n and s[pos[0]] == " ":
            pos[0] += 1

    def lit(t):
        if s.startswith(t, pos[0]):
            pos[0] += len(t)
            return True
        return False

    def seq(close):
        acc = []
        ws()
        if lit(close):
            return acc
        while True:
            acc.append(val())
            ws()
            if lit(","):
                continue
            if lit(close):
                return acc
            raise InspectError(s)

    def entries(close):
        acc = []
        ws()
        if lit(close):
            return acc
        while True:
            k = val()
            ws()
            if not lit("=>"):
                raise InspectError(s)
            v = val()
            acc.append((k, v))
            ws()
            if lit(","):
                continue
            if lit(close):
                return acc
            raise InspectError(s)

    def val():
        ws()
        if lit("%["):
            return ("u", tuple(seq("]")))
        if lit("%{"):
            return ("r", frozenset(entries("}")))
        if lit("["):
            els = seq("]")
            m = re.match(r":\d+", s[pos[0]:])
            if m:
                pos[0] += len(m.group(0))
            return ("l", tuple(els))
        if lit("{"):
            return ("m", frozenset(entries("}")))
        m = re.match(r'"([^"\\]*)"', s[pos[0]:])
        if m:
            pos[0] += len(m.group(0))
            return ("s", m.group(1))
        m = re.match(r":([A-Za-z_][A-Za-z0-9_]*)", s[pos[0]:])
        if m:
            pos[0] += len(m.group(0))
            return ("y", m.group(1))
        m = re.match(r"-?\d+", s[pos[0]:])
        if m:
            pos[0] += len(m.group(0))
            return ("i", int(m.group(0)))
        for w, r in (("nil", "n"), ("true", "t"), ("false", "f"), ("undefined", "undefined")):
            if lit(w):
                return r
        raise InspectError(s)

    v = val()
    ws()
    if pos[0] != n:
        raise InspectError(s)
    return v


def canon(v):
    """model value (nested lists) -> the canonical form produced by parse_inspect"""
    if v == "unbound":
        return "n"      # reference semantics: a variable the match did not assign reads as nil
    if isinstance(v, str):
        return v
    k = v[0]
    if k == "i":
        return ("i", int(v[1]))
    if k == "s":
        return ("s", "s" + v[1])
    if k == "y":
        return ("y", "k" + v[1])
    if k in ("l", "u"):
        return (k, tuple(canon(x) for x in v[1:]))
    return (k, frozenset((canon(e[0]), canon(e[1])) for e in v[1:]))


# ------------------------------------------------------------------ generator

INTS = ["-3", "-1", "0", "1", "2", "3", "4", "5", "7", "9", "10", "12"]


class Gen:
    def __init__(self, rng):
        self.r = rng
        self.nvar = 0
        self.dist = {}

    def count(self, k):
        self.dist[k] = self.dist.get(k, 0) + 1

    def fresh(self):
        self.nvar += 1
        return str(self.nvar)

    def atom(self):
        c = self.r.below(10)
        if c < 4:
            return ["i", self.r.choice(INTS)]
        if c < 6:
            return ["s", str(self.r.range(1, 3))]
        if c < 8:
            return ["y", str(self.r.range(1, 3))]
        return self.r.choice(["n", "t", "f"])

    def key(self):
        c = self.r.below(6)
        if c < 3:
            return ["y", str(self.r.range(1, 3))]
        if c < 5:
            return ["s", str(self.r.range(1, 3))]
        return ["i", str(self.r.range(0, 3))]

    def value(self, depth):
        c = self.r.below(10)
        if depth <= 0 or c < 4:
            return self.atom()
        if c < 6:
            return ["l"] + [self.value(depth - 1) for _ in range(self.r.below(4))]
        if c < 8:
            return ["u"] + [self.value(depth - 1) for _ in range(self.r.below(4))]
        kind = "m" if c == 8 else "r"
        return [kind] + self.entries(lambda: self.value(depth - 1), self.r.below(3))

    def entries(self, mk, n):
        keys = []
        out = []
        for _ in range(n):
            k = self.key()
            if k in keys:
                continue
            keys.append(k)
            out.append([k, mk()])
        return out

    def pat(self, depth, binders=True):
        c = self.r.below(20)
        if depth <= 0:
            c = self.r.below(9)
        if c < 3:
            self.count("lit")
            return ["lit", self.atom()]
        if c < 4:
            self.count("cmp")
            return ["cmp", self.r.choice(["lt", "le", "gt", "ge"]), self.r.choice(INTS)]
        if c < 6:
            self.count("range")
            lo = self.r.range(-3, 6)
            hi = "_" if self.r.chance(1, 5) else str(lo + self.r.range(0, 4))
            return ["rng", self.r.choice(["c", "o", "lo", "ro"]), str(lo), hi]
        if c < 8:
            if not binders:
                self.count("wild")
                return "w"
            self.count("bind")
            return ["b", self.fresh()]
        if c < 9:
            self.count("wild")
            return "w"
        if c < 13:
            self.count("seq")
            kind = self.r.choice(["l", "u"])
            pre = [self.pat(depth - 1, binders) for _ in range(self.r.below(3))]
            rc = self.r.below(5)
            post = []
            if rc < 2:
                rest = "none"
            else:
                rest = "anon" if (rc == 2 or not binders) else ["named", self.fresh()]
                post = [self.pat(depth - 1, binders) for _ in range(self.r.below(3))]
            return ["seq", kind, pre, rest, post]
        if c < 16:
            self.count("dict")
            kind = self.r.choice(["m", "r"])
            return ["dict", kind] + self.entries(lambda: self.pat(depth - 1, binders), self.r.range(0, 2))
        if c < 18:
            self.count("or")
            # balanced by construction: alternatives bind no variables, or both sides are `x`-shaped
            # patterns binding the same single variable
            if binders and self.r.chance(1, 2):
                x = self.fresh()
                return ["or", self.single(depth - 1, x), self.single(depth - 1, x)]
            return ["or", self.pat(depth - 1, False), self.pat(depth - 1, False)]
        if c < 19:
            self.count("and")
            return ["and", self.pat(depth - 1, binders), self.pat(depth - 1, binders)]
        self.count("as")
        x = self.fresh() if binders else None
        inner = self.pat(depth - 1, binders)
        return ["as", inner, x] if binders else inner

    def single(self, depth, x):
        """a pattern binding exactly the variable x"""
        c = self.r.below(4)
        if depth <= 0 or c == 0:
            return ["b", x]
        if c == 1:
            return ["as", self.pat(depth - 1, False), x]
        if c == 2:
            pre = [self.pat(depth - 1, False) for _ in range(self.r.below(2))]
            post = [self.pat(depth - 1, False) for _ in range(self.r.below(2))]
            return ["seq", self.r.choice(["l", "u"]), pre + [["b", x]] + post, "none", []]
        return ["dict", self.r.choice(["m", "r"]), [self.key(), ["b", x]]]

    # -- values aimed at a pattern
    def hit(self, p, depth=3):
        if p == "w":
            return self.value(1)
        k = p[0]
        if k == "lit":
            return p[1]
        if k == "cmp":
            z = int(p[2])
            d = self.r.below(3)
            return ["i", str({"lt": z - 1 - d, "le": z - d, "gt": z + 1 + d, "ge": z + d}[p[1]])]
        if k == "rng":
            lo = int(p[2])
            hi = lo + 6 if p[3] == "_" else int(p[3])
            return ["i", str(self.r.range(lo, max(lo, hi)))]
        if k == "b":
            return self.value(2)
        if k == "seq":
            mid = []
            if p[3] != "none":
                mid = [self.value(1) for _ in range(self.r.below(3))]
            els = [self.hit(x, depth - 1) for x in p[2]] + mid + [self.hit(x, depth - 1) for x in p[4]]
            kind = "l" if (p[1] == "l" or self.r.chance(1, 3)) else "u"
            return [kind] + els
        if k == "dict":
            es = [[e[0], self.hit(e[1], depth - 1)] for e in p[2:]]
            have = [e[0] for e in es]
            for extra in self.entries(lambda: self.value(1), self.r.below(2)):
                if extra[0] not in have:
                    es.append(extra)
            self.r.shuffle(es)
            kind = "m" if (p[1] == "m" or self.r.chance(1, 3)) else "r"
            return [kind] + es
        if k == "or":
            return self.hit(p[1] if self.r.chance(1, 2) else p[2], depth)
        if k == "and":
            return self.hit(p[1] if self.r.chance(1, 2) else p[2], depth)
        if k == "as":
            return self.hit(p[1], depth)
        raise ValueError(p)

    def mutate(self, v):
        """a value close to v: one node changed"""
        if is_atom(v):
            if not isinstance(v, str) and v[0] == "i" and self.r.chance(2, 3):
                return ["i", str(int(v[1]) + self.r.choice([-1, 1]))]
            return self.value(1)
        k = v[0]
        body = list(v[1:])
        c = self.r.below(6)
        if c == 0:      # container kind flips: list<->tuple, map<->record
            return [{"l": "u", "u": "l", "m": "r", "r": "m"}[k]] + body
        if c == 1 and body:
            del body[self.r.below(len(body))]
            return [k] + body
        if c == 2:
            if k in ("l", "u"):
                body.insert(self.r.below(len(body) + 1), self.value(1))
            else:
                keys = [e[0] for e in body]
                for e in self.entries(lambda: self.value(1), 1):
                    if e[0] not in keys:
                        body.append(e)
            return [k] + body
        if body:
            i = self.r.below(len(body))
            if k in ("l", "u"):
                body[i] = self.mutate(body[i])
            else:
                body[i] = [body[i][0], self.mutate(body[i][1])]
            return [k] + body
        return self.value(1)


def gen_case(rng):
    """-> (clauses, values, dist)"""
    g = Gen(rng)
    ncl = rng.range(2, 5)
    clauses = [g.pat(rng.range(1, 3)) for _ in range(ncl)]
    values = []
    for p in clauses:
        h = g.hit(p)
        values.append(h)
        values.append(g.mutate(h))
        if rng.chance(1, 2):
            values.append(g.mutate(g.hit(p)))
    values.append(g.value(2))
    return clauses, values, g.dist


# ------------------------------------------------------------------ running and comparing

def segments(out):
    """one output line per evaluated value: %[idx, bindings...] -> ['C<idx>', binding...] / ['E']"""
    segs = []
    for l in out.splitlines():
        if not l.startswith("%["):
            break
        segs.append(l)
    return segs, None


def decode_segment(line):
    v = parse_inspect(line)
    if not (isinstance(v, tuple) and v[0] == "u" and v[1] and isinstance(v[1][0], tuple) and v[1][0][0] == "i"):
        raise InspectError(line)
    idx = v[1][0][1]
    return (None if idx < 0 else idx), list(v[1][1:])


def classify_panic(out):
    if "listOrTuplePattern" in out and "nil pointer dereference" in out:
        return "compile-panic:listOrTuplePattern:two-rest-patterns-at-one-nesting-level"
    if "tried to call an invalid method" in out:
        return "foreign:invalid-method"
    if "comparing uncomparable type" in out:
        return "foreign:value-pool-uncomparable"
    m = re.search(r"compiler\.\(\*BytecodeCompiler\)\.(\w*[pP]attern\w*)", out)
    if m:
        return "compile-panic:" + m.group(1)
    m = re.search(r"\n([\w./*()]+)\(.*\n\t/repo/", out)
    return "go-panic:" + (m.group(1).split("/")[-1] if m else "unknown")


def has_unbalanced_or(p):
    if isinstance(p, str):
        return False
    k = p[0]
    if k == "or":
        return sorted(pat_vars(p[1])) != sorted(pat_vars(p[2])) or has_unbalanced_or(p[1]) or has_unbalanced_or(p[2])
    if k == "seq":
        return any(has_unbalanced_or(x) for x in p[2] + p[4])
    if k == "dict":
        return any(has_unbalanced_or(e[1]) for e in p[2:])
    if k in ("and", "as"):
        return any(has_unbalanced_or(x) for x in p[1:] if not isinstance(x, str) or x == "w")
    return False


def has_map_pattern(p):
    if isinstance(p, str):
        return False
    k = p[0]
    if k == "dict":
        return p[1] == "m" or any(has_map_pattern(e[1]) for e in p[2:])
    if k == "seq":
        return any(has_map_pattern(x) for x in p[2] + p[4])
    if k in ("or", "and"):
        return has_map_pattern(p[1]) or has_map_pattern(p[2])
    if k == "as":
        return has_map_pattern(p[1])
    return False


def top(p):
    return "wild" if p == "w" else p[0]


def mismatch_key(clauses, exp, got_sel, got_vals):
    """canonical class of a disagreement (exp = parsed model result)"""
    if exp == "else":
        return "wrong-clause:model-else:impl-" + top(clauses[got_sel])
    esel = int(exp[1])
    if got_sel is None:
        return "wrong-clause:model-%s:impl-else" % top(clauses[esel])
    if got_sel != esel:
        return "wrong-clause:model-%s:impl-%s" % (top(clauses[esel]), top(clauses[got_sel]))
    p = clauses[esel]
    for (x, mv), gv in zip([(e[0], e[1]) for e in exp[2:]], got_vals):
        if canon(mv) != gv:
            if mv == "unbound":
                return "unbalanced-or:unassigned-variable-reads-" + ("undefined" if gv == "undefined" else "stale-value")
            if gv == "undefined" and has_map_pattern(p):
                return "map-pattern:missing-key-binds-undefined"
            if gv == "undefined":
                return "wrong-binding:undefined"
            return "wrong-binding:" + top(p)
    return "wrong-binding:arity"


def run_cases(ctx, elk, cases, m, tag):
    """cases: list of (cid, clauses, values). Returns stats dict; reports failures to ctx."""
    progs = [(cid, program(cl, vs)) for cid, cl, vs in cases]
    ids, inputs = [], {}
    for cid, cl, vs in cases:
        for j, v in enumerate(vs):
            i = "%s.%d" % (cid, j)
            ids.append(i)
            inputs[i] = sx_str(["case", cl, v])
    rc, exp, mout = vlib.run_model(m, ids, inputs)
    if rc != 0:
        ctx.broke("correspondence %s: model driver exited %d" % (STREAM, rc), mout[-2000:])
    res = vlib.run_programs(elk, progs, os.path.join(ctx.workdir, tag), timeout=60, env={"GOMAXPROCS": "4"})
    # a timeout on a loaded machine is not a verdict: rerun those alone, generously
    slow = [(cid, src) for cid, src in progs if res[cid][2] == "timeout"]
    if slow:
        res.update(vlib.run_programs(elk, slow, os.path.join(ctx.workdir, tag + "_slow"), workers=2, timeout=300, env={"GOMAXPROCS": "4"}))
    st = dict(programs=len(progs), evaluations=0, rejected=0, foreign=0, mismatches=0, selected=0, else_=0,
              bindings=0, reject_reasons={}, foreign_reasons={}, distinct=set())
    for cid, cl, vs in cases:
        rc_, out, cls = res[cid]
        if cls in ("go_panic", "go_fatal", "signal", "timeout"):
            key = classify_panic(out) if cls != "timeout" else "timeout"
            if key.startswith("foreign:"):
                st["foreign"] += 1
                st["foreign_reasons"][key] = st["foreign_reasons"].get(key, 0) + 1
                continue
            ctx.fail(key, "switch with clauses %s: %s (%s)" % ([elk_pat(p) for p in cl], cls, out.strip().splitlines()[0][:160]),
                     stream=STREAM, case=sx_str(["case", cl, vs[0]]), impl=cls, model="runs",
                     oracle="an accepted pattern must compile and run (Go panic in pattern compilation)")
            st["mismatches"] += 1
            continue
        segs, tail = segments(out)
        if rc_ != 0 and len(segs) < len(vs):
            if "[FAIL]" in out:
                st["rejected"] += 1
                m_ = re.search(r"\[FAIL\] ([^\n]*)", out)
                why = re.sub(r"`[^`]*`", "`..`", m_.group(1))[:80] if m_ else "?"
                st["reject_reasons"][why] = st["reject_reasons"].get(why, 0) + 1
                continue
            ctx.fail("runtime-error:" + (re.sub(r"[^A-Za-z:]+", "-", out.strip().splitlines()[-1])[:60] if out.strip() else "empty"),
                     "switch with clauses %s stopped with an error: %s" % ([elk_pat(p) for p in cl], out.strip()[-300:]),
                     stream=STREAM, case=sx_str(["case", cl, vs[min(len(segs), len(vs) - 1)]]), impl=out[-300:], model="runs",
                     oracle="matching never raises")
            st["mismatches"] += 1
            continue
        for j, v in enumerate(vs):
            cidj = "%s.%d" % (cid, j)
            e = exp.get(cidj)
            if e is None or e.startswith("bad-input"):
                ctx.broke("correspondence %s: model gave no answer for %s (%s)" % (STREAM, inputs[cidj], e))
                continue
            st["evaluations"] += 1
            st["distinct"].add(inputs[cidj])
            e = "else" if e == "else" else sx_parse(e)
            seg = segs[j] if j < len(segs) else "<missing>"
            got_sel, got_vals, bad = None, [], None
            try:
                got_sel, got_vals = decode_segment(seg)
            except InspectError as ex:
                bad = "unparsable output %r" % (str(ex),)
            if bad:
                ctx.fail("output:unparsable", "%s: %s: %r" % (inputs[cidj], bad, seg), stream=STREAM, case=inputs[cidj],
                         impl=seg, model=sx_str(e) if e != "else" else e, oracle="model/implementation disagreement")
                st["mismatches"] += 1
                continue
            if e == "else":
                ok = got_sel is None
                st["else_"] += 1
            else:
                st["selected"] += 1
                st["bindings"] += len(e) - 2
                ok = got_sel == int(e[1]) and len(got_vals) == len(e) - 2 and \
                    all(canon(b[1]) == g for b, g in zip(e[2:], got_vals))
            if not ok:
                st["mismatches"] += 1
                key = mismatch_key(cl, e, got_sel, got_vals)
                ctx.fail(key, "switch %s on %s: implementation %s, reference matcher %s" % (
                    [elk_pat(p) for p in cl], elk_value(v), seg, sx_str(e) if e != "else" else e),
                    stream=STREAM, case=inputs[cidj], impl=seg, model=sx_str(e) if e != "else" else e,
                    oracle="selected clause and bindings differ from the proved reference matcher")
            # second oracle, on the implementation's own output: the number of printed bindings
            # equals the number of distinct variables of the clause it selected
            if got_sel is not None and got_sel < len(cl) and len(got_vals) != len(pat_vars(cl[got_sel])):
                ctx.fail("output:binding-count", "%s: clause %d printed %d values for %d variables" % (
                    inputs[cidj], got_sel, len(got_vals), len(pat_vars(cl[got_sel]))), stream=STREAM, case=inputs[cidj],
                    impl=seg, model="", oracle="one value per pattern variable")
    return st


def load_corpus(path):
    out = []
    if os.path.exists(path):
        for n, line in enumerate(open(path)):
            line = line.strip()
            if not line or line.startswith("#"):
                continue
            x = sx_parse(line)
            out.append(("k%d" % n, x[1], [x[2]]))
    return out


def run(ctx):
    ctx.explanation = (
        "Proved in Coq for ALL clause lists, patterns and values of the reference matcher (Model/C30_Pattern.v): switch "
        "selects exactly the least matching index (and else iff nothing matches); a match binds only pattern variables, "
        "exactly bound_vars p when alternatives are balanced (vars p without alternatives); every bound value is a part of "
        "the scrutinee; rest elements split the sequence as prefix++rest++suffix; selection is independent of map entry "
        "order. The compiled matching code of the implementation is NOT proved: it is compared with the extracted matcher "
        "by running real `switch` programs (elk run) on seeded pattern shapes up to depth 3 against values built to hit and "
        "to miss each sub-pattern. Not modelled: floats, big ints, chars, regex/object/type/set patterns, `==`-style unary "
        "patterns, beginless ranges (the checker rejects them), guards (Elk has no case guards), match/catch/for "
        "destructuring entry points (they call the same `pattern` compiler). The checker has no exhaustiveness rule for "
        "switch (a switch without else yields nil), so no exhaustiveness theorem is stated.")
    ctx.trusted_base += [
        "Python generator/printer (pattern and value -> Elk source) and the parser of `.inspect` output (checks/C30.py)",
        "values are observed through `.inspect` inside an `ins(x: any)` helper that itself uses `case ::Std::Value() as y`",
        "strings and symbols are modelled as opaque atoms (only equality), Int as Z",
    ]
    ctx.run_proof_gate()
    elk = vlib.build_elk()
    m = vlib.build_model("C30")
    rng = ctx.rng(STREAM)
    corpus = load_corpus(os.path.join(vlib.ROOT, "corpus", "C30.prog.txt"))
    nprog = ctx.n(200, 2000)
    cases = []
    dist = {}
    for i in range(nprog):
        cl, vs, d = gen_case(rng)
        for k, v in d.items():
            dist[k] = dist.get(k, 0) + v
        cases.append(("g%d" % i, cl, vs))
    st_c = run_cases(ctx, elk, corpus, m, "corpus") if corpus else None
    st = run_cases(ctx, elk, cases, m, "gen")
    samples = [{"clauses": [elk_pat(p) for p in cl], "values": [elk_value(v) for v in vs[:3]]} for _, cl, vs in cases[:3]]
    distribution = dict(pattern_nodes=dist, programs=st["programs"], checker_rejected_programs=st["rejected"],
                        reject_reasons=st["reject_reasons"], foreign_crash_programs=st["foreign"],
                        foreign_reasons=st["foreign_reasons"], selected=st["selected"], fell_to_else=st["else_"],
                        bindings_compared=st["bindings"], mismatches=st["mismatches"],
                        corpus_cases=(st_c["evaluations"] if st_c else 0), corpus_mismatches=(st_c["mismatches"] if st_c else 0))
    ctx.stream(STREAM, st["evaluations"] + (st_c["evaluations"] if st_c else 0),
               len(st["distinct"] | (st_c["distinct"] if st_c else set())),
               "seeded switch programs: 2-5 clauses, patterns of depth <= 3 over lit/cmp/range/bind/_/list/tuple/map/record/"
               "||/&&/as; per clause one value built to match, mutations of it (int +-1, element added/dropped, list<->tuple, "
               "map<->record, sub-value replaced) and random values; evaluation = one (switch, value) pair whose selected "
               "clause and all bindings are compared with the extracted matcher; non-trivial = distinct (clauses, value) "
               "input that was actually executed (programs the checker rejects or that die of unrelated crashes are "
               "counted separately, not as evaluations)",
               samples, distribution)
    # the stream must not go blind
    if st["programs"] and (st["rejected"] + st["foreign"]) * 2 > st["programs"]:
        ctx.broke("correspondence %s: more than half of the programs were not executed (%d rejected, %d foreign crashes of %d)"
                  % (STREAM, st["rejected"], st["foreign"], st["programs"]))
