"""C02 - static types describe runtime values.

Streams
  c02.sub    type pairs (sigma, tau): the REAL checker's verdict on `def f(y: sigma); var x: tau = y; end`
             (checker.CheckSource in process, harness/cmd/c02) against the extracted `subtype`.
  c02.cls    class hierarchies + narrowing by <: :> <<: :>> (lib/c02cls.py, Model/C02_Classes.v): checker's static
             types from the typed AST vs extracted kannot (value sets), runtime class in static type, dispatch of `name`.
  c02.probe  seeded well-typed programs of the modelled core (declarations, assignment, if with narrowing,
             && || ?? and arithmetic; a share with while loops and closures). Every probe `var tK: T = e`
             carries the static type T the MODEL's checker infers for e; the real checker must accept the
             program (so its own type of e is <= T), a tightened annotation must be accepted/rejected as
             the model's subtype says, and at run time the printed class/inspect of tK must equal the
             model interpreter's value and be a member of [[T]] (extracted `mem`).
  c02.subhist, c02.ifc   generic classes / generic interfaces / implicit implementation (lib/c02ifc.py,
             Model/C02_Iface.v): HISTORIES of subtype questions inside one checker run vs the extracted isub and vs
             the same question alone in a fresh checker; programs passing generic class instances through
             interface-typed parameters, runtime class of `s.m(..)` against the static return type.
Internal representation = the s-expressions of ocaml/C02/main.ml as nested Python lists of strings.
"""
import os
import re
from fractions import Fraction
import vlib
import c02cls
import c02ifc

SUB = "c02.sub"
PROBE = "c02.probe"

# ------------------------------------------------------------------ s-expressions

def sx_parse(s):
    toks = re.findall(r"\(|\)|[^\s()]+", s)
    pos = [0]

    def item():
        t = toks[pos[0]]
        pos[0] += 1
        if t == "(":
            acc = []
            while toks[pos[0]] != ")":
                acc.append(item())
            pos[0] += 1
            return acc
        return t
    return item()


def sx_str(x):
    if isinstance(x, str):
        return x
    return "(" + " ".join(sx_str(y) for y in x) + ")"


# ------------------------------------------------------------------ printing to Elk

def float_text(m, e):
    f = Fraction(int(m), 2 ** int(e))
    t = repr(float(f))
    assert Fraction(float(t)) == f
    return t


def elk_type(t):
    if isinstance(t, str):
        return t
    k = t[0]
    if k == "i":
        return t[1]
    if k == "f":
        return float_text(t[1], t[2])
    if k == "s":
        return '"%s"' % (t[1] if len(t) > 1 else "")
    if k == "opt":
        return "(" + elk_type(t[1]) + ")?"
    if k == "or":
        return "(" + elk_type(t[1]) + " | " + elk_type(t[2]) + ")"
    raise ValueError(t)


BINOPS = {"add": "+", "sub": "-", "mul": "*", "lt": "<", "le": "<=", "eq": "=="}


def elk_expr(e, top=True):
    if e == "t":
        return "true"
    if e == "f":
        return "false"
    if e == "n":
        return "nil"
    k = e[0]
    if k == "i":
        return e[1] if top or not e[1].startswith("-") else "(" + e[1] + ")"
    if k == "f":
        t = float_text(e[1], e[2])
        return t if top or not t.startswith("-") else "(" + t + ")"
    if k == "s":
        return '"%s"' % (e[1] if len(e) > 1 else "")
    if k == "v":
        return "v" + e[1]
    if k == "bin":
        return "(" + elk_expr(e[2], False) + " " + BINOPS[e[1]] + " " + elk_expr(e[3], False) + ")"
    if k == "neg":
        return "(-" + elk_expr(e[1], False) + ")"
    if k == "not":
        return "(!" + elk_expr(e[1], False) + ")"
    if k == "isnil":
        return "(" + elk_expr(e[1], False) + " == nil)"
    if k == "notnil":
        return "(" + elk_expr(e[1], False) + " != nil)"
    if k in ("and", "or", "nilco"):
        op = {"and": "&&", "or": "||", "nilco": "??"}[k]
        return "(" + elk_expr(e[1], False) + " " + op + " " + elk_expr(e[2], False) + ")"
    raise ValueError(e)


def elk_cond(e):
    s = elk_expr(e, True)
    return s[1:-1] if s.startswith("(") and s.endswith(")") and e[0] in ("isnil", "notnil", "bin") else s


PRELUDE = """def pr(x: any): String
  switch x
  case ::Std::Value() as y then y.class.name + " " + y.inspect
  else "?"
  end
end
"""


def stmts_of(s):
    if s == "skip":
        return []
    if s[0] == "seq":
        out = []
        for x in s[1:]:
            out += stmts_of(x)
        return out
    return [s]


def elk_stmt(s, types, ind, out, override=None):
    """types: probe id -> type sx; override: (probe id, type sx) replaces one annotation.
    Every branch / loop body ends with a `nil` line so that its type is never `never`
    (checkIfExpressionNode switches to in-place narrowing when the then-branch has type never)."""
    pad = "  " * ind
    k = s[0]
    if k == "decl":
        out.append("%svar v%s: %s = %s" % (pad, s[1], elk_type(s[2]), elk_expr(s[3])))
    elif k == "infer":
        out.append("%sv%s := %s" % (pad, s[1], elk_expr(s[2])))
    elif k == "assign":
        out.append("%sv%s = %s" % (pad, s[1], elk_expr(s[2])))
    elif k == "probe":
        t = types[s[1]]
        if override and override[0] == s[1]:
            t = override[1]
        out.append("%svar t%s: %s = %s" % (pad, s[1], elk_type(t), elk_expr(s[2])))
        out.append('%sprintln("P%s " + pr(t%s))' % (pad, s[1], s[1]))
    elif k == "if":
        out.append("%sif %s" % (pad, elk_cond(s[1])))
        for x in stmts_of(s[2]):
            elk_stmt(x, types, ind + 1, out, override)
        out.append(pad + "  nil")
        out.append(pad + "else")
        for x in stmts_of(s[3]):
            elk_stmt(x, types, ind + 1, out, override)
        out.append(pad + "  nil")
        out.append(pad + "end")
    elif k == "while":
        out.append("%swhile %s" % (pad, elk_cond(s[1])))
        for x in stmts_of(s[2]):
            elk_stmt(x, types, ind + 1, out, override)
        out.append(pad + "  nil")
        out.append(pad + "end")
    elif k == "closure":
        out.append("%sf%s := ->" % (pad, s[1]))
        for x in stmts_of(s[2]):
            elk_stmt(x, types, ind + 1, out, override)
        out.append(pad + "  nil")
        out.append(pad + "end")
    elif k == "call":
        out.append("%sf%s.()" % (pad, s[1]))
    else:
        raise ValueError(s)


def elk_body(prog, types, override=None):
    out = []
    for s in stmts_of(prog):
        elk_stmt(s, types, 0, out, override)
    return "\n".join(out) + "\n"


# ------------------------------------------------------------------ generator

DECL_TYPES = [
    ["opt", "Int"], ["opt", "Int"], ["opt", "String"], ["opt", "Float"], ["opt", "bool"],
    ["or", "Int", "String"], ["or", "Int", ["or", "String", "nil"]], ["or", "Int", "Float"],
    ["or", ["opt", "Int"], "Float"], ["or", "Int", ["or", "nil", "false"]], ["or", ["i", "1"], ["i", "2"]],
    ["or", ["s", "a"], "nil"], ["opt", ["or", "String", "bool"]], "Int", "String", "Float", "bool", "any",
    ["or", "bool", "Int"], ["opt", ["i", "7"]], ["or", ["f", "5", "1"], "nil"],
]


def atoms_of(t):
    """flattened member atoms of a type sx (strings for classes, tuples for literals)"""
    if isinstance(t, str):
        return {"true", "false"} if t == "bool" else {t}
    if t[0] == "opt":
        return atoms_of(t[1]) | {"nil"}
    if t[0] == "or":
        return atoms_of(t[1]) | atoms_of(t[2])
    return {tuple(t)}


def atom_kind(a):
    if isinstance(a, tuple):
        return {"i": "Int", "f": "Float", "s": "String"}[a[0]]
    return a


class Gen:
    def __init__(self, rng, flow):
        self.r = rng
        self.flow = flow
        self.nvar = 0
        self.nprobe = 0
        self.vars = {}     # id -> dict(decl=set(atoms), cur=set(atoms))
        self.closures = []
        self.dist = {}

    def count(self, k):
        self.dist[k] = self.dist.get(k, 0) + 1

    def fresh(self):
        self.nvar += 1
        return str(self.nvar)

    # ---- expressions
    def lit_of_atom(self, a):
        if isinstance(a, tuple):
            return list(a)
        if a == "Int":
            return ["i", str(self.r.range(-9, 20))]
        if a == "Float":
            return ["f", str(self.r.range(-20, 40)), str(self.r.range(1, 2))]
        if a == "String":
            return ["s", self.r.choice(["a", "b", "ab", "xyz"])]
        if a in ("true", "false"):
            return a[0]
        if a == "nil":
            return "n"
        if a == "Bool":
            return self.r.choice(["t", "f"])
        if a == "any":
            return self.lit_of_atom(self.r.choice(["Int", "String", "nil", "true", "Float"]))
        raise ValueError(a)

    def vars_of_kind(self, kind):
        return [x for x, d in self.vars.items() if d["cur"] and all(atom_kind(a) == kind for a in d["cur"])]

    def num(self, kind, depth):
        """expression of static kind Int / Float / String"""
        c = self.r.below(10)
        vs = self.vars_of_kind(kind)
        if vs and c < 4:
            return ["v", self.r.choice(vs)]
        if depth <= 0 or c < 6:
            return self.lit_of_atom(kind)
        if kind == "String":
            return ["bin", "add", self.num("String", depth - 1), self.num("String", depth - 1)]
        if c == 6 and vs:
            return ["neg", ["v", self.r.choice(vs)]]
        op = self.r.choice(["add", "sub", "mul"])
        if kind == "Float" and self.r.chance(1, 3):
            a, b = self.num("Int", depth - 1), self.num("Float", depth - 1)
            if self.r.chance(1, 2):
                a, b = b, a
            return ["bin", op, a, b]
        return ["bin", op, self.num(kind, depth - 1), self.num(kind, depth - 1)]

    def boolc(self, depth):
        c = self.r.below(6)
        if c < 2:
            k = self.r.choice(["Int", "Float"])
            return ["bin", self.r.choice(["lt", "le", "eq"]), self.num(k, depth - 1), self.num(k, depth - 1)]
        if c == 2:
            return ["bin", "eq", self.num("String", 0), self.num("String", 0)]
        if c == 3 and self.vars:
            return [self.r.choice(["isnil", "notnil"]), ["v", self.r.choice(list(self.vars))]]
        if c == 4:
            return ["not", self.expr(depth - 1)]
        return ["bin", "lt", self.num("Int", 1), self.num("Int", 1)]

    def expr(self, depth):
        c = self.r.below(14)
        if c < 3 and self.vars:
            self.count("e:var")
            return ["v", self.r.choice(list(self.vars))]
        if c < 6:
            self.count("e:arith")
            return self.num(self.r.choice(["Int", "Int", "Float", "String"]), depth)
        if c < 7:
            self.count("e:lit")
            return self.lit_of_atom(self.r.choice(["Int", "Float", "String", "true", "false", "nil"]))
        if c < 9:
            self.count("e:bool")
            return self.boolc(depth)
        if self.vars and depth > 0:
            x = self.r.choice(list(self.vars))
            k = self.r.choice(["and", "or", "nilco"])
            self.count("e:" + k)
            saved = self.vars[x]["cur"]
            # the right operand is generated under the narrowed view of x
            if k == "and":
                self.vars[x]["cur"] = {a for a in saved if a not in ("nil", "false")}
            elif k == "or":
                self.vars[x]["cur"] = {a for a in saved if a in ("nil", "false")}
            else:
                self.vars[x]["cur"] = {"nil"}
            rhs = self.expr(depth - 1) if self.r.chance(1, 2) else self.lit_of_atom(self.r.choice(["Int", "String", "Float"]))
            self.vars[x]["cur"] = saved
            return [k, ["v", x], rhs]
        return self.num("Int", depth)

    def expr_for(self, atoms):
        """an expression whose static type is (most likely) a subtype of the union of `atoms`"""
        atoms = sorted(atoms, key=str)
        a = self.r.choice(atoms)
        kind = atom_kind(a)
        if not isinstance(a, tuple) and kind in ("Int", "Float", "String") and self.r.chance(1, 2):
            return self.num(kind, 1)
        if a == "any" and self.r.chance(1, 2):
            return self.expr(1)
        cands = [x for x, d in self.vars.items() if d["cur"] and d["cur"] <= set(atoms)]
        if cands and self.r.chance(1, 4):
            return ["v", self.r.choice(cands)]
        return self.lit_of_atom(a)

    # ---- statements
    def cond(self):
        c = self.r.below(10)
        pref = [x for x, d in self.vars.items() if len(d["cur"]) > 1 and "Bool" not in d["cur"] and "any" not in d["cur"]]
        pool = pref or [x for x, d in self.vars.items() if "Bool" not in d["cur"] and "any" not in d["cur"]]
        if pool and c < 7:
            x = self.r.choice(pool)
            form = self.r.choice(["truthy", "truthy", "not", "isnil", "notnil", "notnot"])
            cur = self.vars[x]["cur"]
            nf = {a for a in cur if a not in ("nil", "false")}
            nt = {a for a in cur if a in ("nil", "false")}
            nl = {a for a in cur if a == "nil"}
            self.count("cond:" + form)
            if form == "truthy":
                return ["v", x], x, nf, nt
            if form == "not":
                return ["not", ["v", x]], x, nt, nf
            if form == "notnot":
                return ["not", ["not", ["v", x]]], x, nf, nt
            if form == "isnil":
                return ["isnil", ["v", x]], x, nl, cur
            return ["notnil", ["v", x]], x, cur, nl
        self.count("cond:bool")
        return self.boolc(1), None, None, None

    def block(self, depth, n):
        out = []
        for _ in range(n):
            out += self.stmt(depth)
        return ["seq"] + out

    def probe(self, e=None):
        k = str(self.nprobe)
        self.nprobe += 1
        self.count("s:probe")
        return ["probe", k, e if e is not None else self.expr(2)]

    def stmt(self, depth):
        c = self.r.below(20)
        if c < 4 or not self.vars:
            x = self.fresh()
            if self.r.chance(2, 3):
                t = self.r.choice(DECL_TYPES)
                e = self.expr_for(atoms_of(t))
                self.count("s:decl")
                # the initialiser is generated before x exists
                self.vars[x] = dict(decl=atoms_of(t), cur=set(atoms_of(t)))
                return [["decl", x, t, e]]
            e = self.num(self.r.choice(["Int", "Float", "String"]), 1) if self.r.chance(2, 3) else self.lit_of_atom(self.r.choice(["true", "nil", "Int"]))
            self.count("s:infer")
            kind = None
            if e[0] in ("i", "bin", "v", "neg", "f", "s"):
                kind = None
            self.vars[x] = dict(decl=set(), cur=set())   # unknown to the generator: not used for directed picks
            return [["infer", x, e]]
        if c < 8:
            x = self.r.choice(list(self.vars))
            d = self.vars[x]
            if not d["decl"]:
                return [self.probe(["v", x])]
            e = self.expr_for(d["decl"])
            self.count("s:assign")
            d["cur"] = set(d["decl"])
            out = [["assign", x, e]]
            if self.r.chance(1, 3):
                out.append(self.probe(["v", x]))
            return out
        if c < 13 and depth > 0:
            ce, x, tt, ff = self.cond()
            self.count("s:if")
            saved = {y: set(d["cur"]) for y, d in self.vars.items()}
            names = set(self.vars)
            if x is not None:
                self.vars[x]["cur"] = set(tt)
            a = []
            if x is not None and self.r.chance(2, 3):
                a.append(self.probe(["v", x]))
            a += self.block(depth - 1, self.r.range(0, 2))[1:]
            after_a = {y: set(self.vars[y]["cur"]) for y in names}
            for y in list(self.vars):
                if y not in names:
                    del self.vars[y]
            for y in names:
                self.vars[y]["cur"] = set(saved[y])
            if x is not None:
                self.vars[x]["cur"] = set(ff)
            b = []
            if x is not None and self.r.chance(1, 2):
                b.append(self.probe(["v", x]))
            b += self.block(depth - 1, self.r.range(0, 2))[1:]
            for y in list(self.vars):
                if y not in names:
                    del self.vars[y]
            for y in names:
                # after the if: the pre-if view, widened to the declared type where a branch assigned
                changed = after_a[y] != (set(tt) if y == x else saved[y]) or self.vars[y]["cur"] != (set(ff) if y == x else saved[y])
                self.vars[y]["cur"] = set(self.vars[y]["decl"]) if changed else set(saved[y])
            return [["if", ce, ["seq"] + a, ["seq"] + b]]
        if self.flow and c < 15 and depth > 0:
            # counted loop: i := 0; while i < K; body; i = i + 1; end
            self.count("s:while")
            i = self.fresh()
            names = set(self.vars)
            body = self.block(depth - 1, self.r.range(1, 3))[1:]
            for y in list(self.vars):
                if y not in names:
                    del self.vars[y]
            for y in names:
                self.vars[y]["cur"] = set(self.vars[y]["decl"]) if self.vars[y]["decl"] else self.vars[y]["cur"]
            self.vars[i] = dict(decl=set(), cur=set())
            return [["infer", i, ["i", "0"]],
                    ["while", ["bin", "lt", ["v", i], ["i", str(self.r.range(1, 3))]],
                     ["seq"] + body + [["assign", i, ["bin", "add", ["v", i], ["i", "1"]]]]]]
        if self.flow and c < 17 and self.closures and depth >= 0:
            self.count("s:call")
            return [["call", self.r.choice(self.closures)]]
        return [self.probe()]

    def closure(self):
        """top-level closure assigning one or two outer variables (types are widened at definition time)"""
        cands = [x for x, d in self.vars.items() if d["decl"]]
        if not cands:
            return []
        f = self.fresh()
        body = []
        for _ in range(self.r.range(1, 2)):
            x = self.r.choice(cands)
            body.append(["assign", x, self.lit_of_atom(self.r.choice(sorted(self.vars[x]["decl"], key=str)))])
            self.vars[x]["cur"] = set(self.vars[x]["decl"])
        self.closures.append(f)
        self.count("s:closure")
        return [["closure", f, ["seq"] + body]]

    def program(self):
        out = []
        for _ in range(self.r.range(2, 3)):
            x = self.fresh()
            t = self.r.choice(DECL_TYPES)
            e = self.expr_for(atoms_of(t))
            self.vars[x] = dict(decl=atoms_of(t), cur=set(atoms_of(t)))
            out.append(["decl", x, t, e])
            self.count("s:decl")
        if self.flow and self.r.chance(2, 3):
            out += self.closure()
        for _ in range(self.r.range(3, 6)):
            out += self.stmt(2)
        out.append(self.probe(["v", self.r.choice(list(self.vars))]))
        return ["seq"] + out


def directed_family():
    """narrowing context x mutation site x use: the shapes DESIGN.md 'Search' asks for (small, deterministic)."""
    progs = []
    decls = [(["opt", "Int"], ["i", "1"]), (["or", "Int", ["or", "String", "nil"]], ["i", "4"]), (["opt", "bool"], "t")]
    conds = [("truthy", lambda v: (v, True)), ("notnil", lambda v: (["notnil", v], None)),
             ("not-else", lambda v: (["not", v], False)), ("isnil-else", lambda v: (["isnil", v], False))]
    for t, init in decls:
        for cname, mk in conds:
            c, then_branch = mk(["v", "1"])
            for mut in ("closure", "loop", "assign", "nested-if", "none"):
                use = [["probe", "0", ["v", "1"]]]
                pre = [["decl", "1", t, init]]
                if mut == "closure":
                    pre.append(["closure", "9", ["seq", ["assign", "1", "n"]]])
                    body = [["call", "9"]] + use
                elif mut == "loop":
                    pre.append(["infer", "2", ["i", "0"]])
                    body = [["while", ["bin", "lt", ["v", "2"], ["i", "2"]],
                             ["seq"] + use + [["assign", "1", "n"], ["assign", "2", ["bin", "add", ["v", "2"], ["i", "1"]]]]]]
                elif mut == "assign":
                    body = [["assign", "1", "n"]] + use
                elif mut == "nested-if":
                    body = [["if", ["bin", "lt", ["i", "1"], ["i", "2"]], ["seq", ["assign", "1", "n"]], "skip"]] + use
                else:
                    body = use
                if then_branch is False:
                    s = ["if", c, "skip", ["seq"] + body]
                else:
                    s = ["if", c, ["seq"] + body, "skip"]
                progs.append(["seq"] + pre + [s, ["probe", "1", ["v", "1"]]])
    return progs


def tighten(rng, t):
    """candidate annotation that is usually strictly smaller than t"""
    if isinstance(t, str):
        return {"Int": ["i", "7777"], "Float": ["f", "1", "1"], "String": ["s", "q"], "bool": "true", "Bool": "true",
                "any": rng.choice(["Int", ["opt", "String"]]), "nil": "never", "true": "never", "false": "never",
                "never": "never"}[t]
    k = t[0]
    if k == "opt":
        return t[1] if rng.chance(2, 3) else "nil"
    if k == "or":
        c = rng.below(4)
        if c == 0:
            return t[1]
        if c == 1:
            return t[2]
        if c == 2:
            return ["or", tighten(rng, t[1]), t[2]]
        return ["or", t[1], tighten(rng, t[2])]
    if k == "i":
        return ["i", str(int(t[1]) + 1)]
    if k == "f":
        return ["f", str(int(t[1]) + 2), t[2]]
    if k == "s":
        return ["s", (t[1] if len(t) > 1 else "") + "q"]
    return "never"


# ------------------------------------------------------------------ observing

LINE_RE = re.compile(r"^P(\d+) (Std::\w+) (.*)$")
CLASS_OF = {"i": "Std::Int", "f": "Std::Float", "s": "Std::String", "t": "Std::True", "f_": "Std::False", "n": "Std::Nil"}


def parse_observed(cls, ins):
    """-> value sx or None"""
    if cls == "Std::Int" and re.match(r"^-?\d+$", ins):
        return ["i", ins]
    if cls == "Std::Float":
        try:
            f = Fraction(float(ins))
        except ValueError:
            return None
        e = f.denominator.bit_length() - 1
        if f.denominator != 1 << e:
            return None
        return ["f", str(f.numerator), str(e)]
    if cls == "Std::String" and re.match(r'^"[a-z]*"$', ins):
        return ["s", ins[1:-1]] if len(ins) > 2 else ["s"]
    if cls == "Std::True" and ins == "true":
        return "t"
    if cls == "Std::False" and ins == "false":
        return "f"
    if cls == "Std::Nil" and ins == "nil":
        return "n"
    return None


def same_value(a, b):
    if isinstance(a, str) or isinstance(b, str):
        return a == b
    if a[0] != b[0]:
        return False
    if a[0] == "f":
        return Fraction(int(a[1]), 2 ** int(a[2])) == Fraction(int(b[1]), 2 ** int(b[2]))
    return a[1:] == b[1:]


def type_shape(t):
    if isinstance(t, str):
        return t
    return t[0] if t[0] in ("opt", "or") else "lit"


def has(prog, kind):
    if isinstance(prog, str):
        return False
    if prog and prog[0] == kind:
        return True
    return any(has(x, kind) for x in prog if isinstance(x, list))


def c08_float_opcodes(prog):
    """the program uses - < <= and has a Float somewhere: until fixes/C08-typed-float-opcodes.patch is applied
    SUBTRACT_FLOAT / LESS_FLOAT / LESS_EQUAL_FLOAT read the int view of their left operand (C08's defect, a
    wrong VALUE of the right type). Value mismatches of such programs are counted, not reported here; the
    membership oracle still applies to them."""
    def ops(x):
        if isinstance(x, str):
            return False
        if x and x[0] == "bin" and x[1] in ("sub", "lt", "le"):
            return True
        return any(ops(y) for y in x if isinstance(y, list))
    return ops(prog) and has(prog, "f")


def stale_key(prog):
    if has(prog, "call"):
        return "narrow-stale:closure-assigns-narrowed-local"
    if has(prog, "while"):
        return "narrow-stale:loop-body-assigns-local-narrowed-outside"
    return None


def sub_key(inp, obs, exp):
    x = sx_parse(inp)
    return "subtype:impl-%s:model-%s:%s<=%s" % (obs.split(":")[0], exp, type_shape(x[1]), type_shape(x[2]))


# ------------------------------------------------------------------ the probe stream

def run_probe_stream(ctx, elk, h, m, progs, tag):
    """progs: list of (id, prog sx, origin). Returns stats."""
    st = dict(programs=len(progs), model_rejected=0, executed=0, evaluations=0, stale=0, tight_checked=0,
              tight_rejects=0, tight_accepts=0, model_stuck=0, distinct=set(), flow=0, simple=0, member_checks=0, foreign_c08=0)
    ids = [p[0] for p in progs]
    inputs = {p[0]: sx_str(["prog", p[1]]) for p in progs}
    rc, ans, mout = vlib.run_model(m, ids, inputs)
    if rc != 0:
        ctx.broke("correspondence %s: model driver exited %d" % (PROBE, rc), mout[-2000:])
    accepted = []
    for pid, prog, origin in progs:
        a = ans.get(pid)
        if a is None or a.startswith("bad-input") or a.startswith("check-failed"):
            ctx.broke("correspondence %s: model gave no usable answer for %s (%s)" % (PROBE, inputs[pid][:300], a))
            continue
        if a == "rejected":
            st["model_rejected"] += 1
            continue
        x = sx_parse(a)
        simple = x[1] == "simple"
        types = {e[0]: e[1] for e in x[2][1:]}
        status = x[3][1]
        log = [(e[0], e[1], e[2], e[3]) for e in x[4][1:]]
        accepted.append((pid, prog, simple, types, status, log))
    # tightened annotations: expected verdict from the model's subtype
    rng = ctx.rng(PROBE + ".tight." + tag)
    tight = []
    for pid, prog, simple, types, status, log in accepted:
        ks = sorted(types, key=int)
        rng.shuffle(ks)
        for k in ks[:1]:
            sigma = tighten(rng, types[k])
            tight.append((pid + ".T" + k, pid, k, sigma, types[k], prog, types))
    q_ids = [t[0] for t in tight]
    q_in = {t[0]: sx_str(["sub", t[4], t[3]]) for t in tight}
    rc, tans, mout = vlib.run_model(m, q_ids, q_in)
    lines = ["prelude\t" + PRELUDE.replace("\\", "\\\\").replace("\n", "\\n")]
    for tid, pid, k, sigma, tau, prog, types in tight:
        body = elk_body(prog, types, override=(k, sigma))
        lines.append(tid + "\t" + body.replace("\\", "\\\\").replace("\t", "\\t").replace("\n", "\\n"))
    rc, out = vlib.sh([h, "-extra", "checkbatch"], inp="\n".join(lines) + "\n", timeout=3000, env=vlib.elk_env())
    got = {}
    for l in out.splitlines():
        p = l.split("\t")
        if len(p) >= 3:
            got[p[0]] = p[2]
    if rc != 0:
        ctx.broke("correspondence %s: harness checkbatch exited %d" % (PROBE, rc), out[-2000:])
    for tid, pid, k, sigma, tau, prog, types in tight:
        e, g = tans.get(tid), got.get(tid)
        if e is None or g is None:
            ctx.broke("correspondence %s: no verdict for tightened probe %s" % (PROBE, tid))
            continue
        st["tight_checked"] += 1
        gv = "ok" if g == "ok" else ("reject" if g.startswith("reject:") and "cannot be assigned" in g else g)
        st["tight_rejects" if e == "reject" else "tight_accepts"] += 1
        if gv != e:
            ctx.fail("static-type:tightened-annotation:model-%s:impl-%s:%s" % (e, gv.split(":")[0], type_shape(tau)),
                     "probe t%s of static type %s (model) re-annotated as %s: model subtype says %s, the real checker %s\n%s"
                     % (k, elk_type(tau), elk_type(sigma), e, g, elk_body(prog, types, (k, sigma))),
                     stream=PROBE, case=inputs[pid], impl=g, model=e,
                     oracle="the checker's static type of the probed expression equals the model's (acceptance of annotations)")
    # run the programs
    srcs = [(pid, PRELUDE + elk_body(prog, types)) for pid, prog, simple, types, status, log in accepted]
    res = vlib.run_programs(elk, srcs, os.path.join(ctx.workdir, tag), timeout=90, env={"GOMAXPROCS": "4"})
    slow = [(pid, src) for pid, src in srcs if res[pid][2] == "timeout"]
    if slow:
        res.update(vlib.run_programs(elk, slow, os.path.join(ctx.workdir, tag + "_slow"), workers=2, timeout=400, env={"GOMAXPROCS": "4"}))
    mem_q = []
    pending = []
    for pid, prog, simple, types, status, log in accepted:
        rc_, out, cls = res[pid]
        case = inputs[pid]
        src = elk_body(prog, types)
        st["flow" if not simple else "simple"] += 1
        skey = stale_key(prog)
        predicted_out = [e for e in log if e[3] == "out"]
        if simple and (predicted_out or status != "done"):
            ctx.broke("model contradicts C02_preservation_partial on a loop/closure-free program", case)
            continue
        if cls in ("go_panic", "go_fatal", "signal"):
            if skey and (predicted_out or status == "stuck"):
                st["stale"] += 1
                ctx.fail(skey, "accepted program crashes the VM after a value left its static type:\n" + src + out.strip()[:300],
                         stream=PROBE, case=case, impl=cls, model="value outside static type predicted",
                         oracle="a value reaches an instruction chosen for a different type")
            elif "opEqualInt" in out and has(prog, "f"):
                ctx.fail("typed-opcode:float-equality-compiled-to-EQUAL_INT",
                         "`==` with a Float receiver runs opEqualInt and dies:\n" + src + out.strip()[:300], stream=PROBE, case=case,
                         impl=cls, model=status, oracle="a value reaches an instruction chosen for a different type")
            else:
                m_ = re.search(r"\n([\w./*()]+)\(.*\n\t/repo/", out)
                ctx.fail("go-panic:" + (m_.group(1).split("/")[-1] if m_ else "unknown"),
                         "accepted program crashes:\n" + src + out.strip()[:400], stream=PROBE, case=case, impl=cls,
                         model=status, oracle="accepted programs of the fragment run")
            continue
        if cls == "timeout":
            ctx.broke("correspondence %s: program timed out twice" % PROBE, src)
            continue
        if "[FAIL]" in out:
            m_ = re.search(r"\[FAIL\] ([^\n]*)", out)
            why = re.sub(r"`[^`]*`", "`..`", m_.group(1))[:70] if m_ else "?"
            ctx.fail("static:model-accepts:impl-rejects:" + why,
                     "the model's checker accepts (with these probe types) what the real checker rejects:\n" + src + out.strip()[:400],
                     stream=PROBE, case=case, impl="rejected", model="accepted",
                     oracle="model checker and real checker agree on the fragment")
            continue
        obs = []
        bad_line = None
        for l in out.splitlines():
            mm = LINE_RE.match(l)
            if mm:
                obs.append((mm.group(1), mm.group(2), mm.group(3)))
            elif l.strip():
                bad_line = l
        if rc_ != 0 or bad_line:
            if skey and (predicted_out or status == "stuck"):
                st["stale"] += 1
                ctx.fail(skey, "accepted program fails at run time after a value left its static type:\n" + src + out.strip()[-300:],
                         stream=PROBE, case=case, impl=out.strip()[-200:], model="value outside static type predicted",
                         oracle="a value reaches an instruction chosen for a different type")
            else:
                ctx.fail("runtime-error:" + re.sub(r"[^A-Za-z:]+", "-", (bad_line or out.strip()[-60:]))[:60],
                         "accepted program stops with an error:\n" + src + out.strip()[-400:], stream=PROBE, case=case,
                         impl=out.strip()[-300:], model=status, oracle="accepted programs of the fragment run")
            continue
        st["executed"] += 1
        if status != "done":
            st["model_stuck"] += 1
        # oracle 1: same probes, same values as the reference interpreter
        if status == "done":
            if len(obs) != len(log) or any(o[0] != e[0] for o, e in zip(obs, log)):
                ctx.fail("trace:probe-sequence-differs", "executed probes differ: implementation %s, model %s\n%s"
                         % ([o[0] for o in obs], [e[0] for e in log], src), stream=PROBE, case=case,
                         impl=str(obs)[:300], model=str(log)[:300], oracle="reference interpreter")
                continue
        for j, o in enumerate(obs):
            k, cname, ins = o
            v = parse_observed(cname, ins)
            tau = types.get(k)
            st["evaluations"] += 1
            st["distinct"].add((case, j))
            if v is None or tau is None:
                ctx.fail("output:unparsable", "probe t%s printed %r %r\n%s" % (k, cname, ins, src), stream=PROBE, case=case,
                         impl=cname + " " + ins, model="", oracle="printed class/inspect is a value of the fragment")
                continue
            qid = "%s.m%d" % (pid, j)
            mem_q.append((qid, sx_str(["mem", tau, v])))
            pending.append((qid, pid, prog, src, case, k, tau, v, cname, ins, skey))
            if status == "done" and j < len(log):
                ev = log[j][2]
                if not same_value(v, ev) and c08_float_opcodes(prog) and cname in ("Std::Float", "Std::True", "Std::False"):
                    st["foreign_c08"] += 1
                elif not same_value(v, ev):
                    ctx.fail("value:%s-vs-%s" % (type_shape(v) if not isinstance(v, str) else v, type_shape(ev) if not isinstance(ev, str) else ev),
                             "probe t%s: implementation %s %s, reference interpreter %s\n%s" % (k, cname, ins, sx_str(ev), src),
                             stream=PROBE, case=case, impl=cname + " " + ins, model=sx_str(ev), oracle="reference interpreter")
    # oracle 2: membership of the OBSERVED value in the static type, decided by the extracted `mem`
    rc, mans, mout = vlib.run_model(m, [q[0] for q in mem_q], dict(mem_q))
    for qid, pid, prog, src, case, k, tau, v, cname, ins, skey in pending:
        a = mans.get(qid)
        st["member_checks"] += 1
        if a == "in":
            continue
        if a != "out":
            ctx.broke("correspondence %s: membership query failed (%s)" % (PROBE, a))
            continue
        if skey:
            st["stale"] += 1
            ctx.fail(skey, "probe t%s has static type %s (accepted by the real checker) but holds %s %s at run time:\n%s"
                     % (k, elk_type(tau), cname, ins, src), stream=PROBE, case=case, impl=cname + " " + ins,
                     model="not a member of " + elk_type(tau), oracle="runtime value is a member of the static type")
        else:
            ctx.fail("member:%s-not-in-%s" % (cname, type_shape(tau)),
                     "probe t%s has static type %s but holds %s %s at run time:\n%s" % (k, elk_type(tau), cname, ins, src),
                     stream=PROBE, case=case, impl=cname + " " + ins, model="not a member of " + elk_type(tau),
                     oracle="runtime value is a member of the static type")
    return st


def load_corpus(path):
    out = []
    if os.path.exists(path):
        for n, line in enumerate(open(path)):
            line = line.strip()
            if not line or line.startswith("#"):
                continue
            x = sx_parse(line)
            out.append(("k%d" % n, x[1], "corpus"))
    return out


def run(ctx):
    ctx.explanation = (
        "Proved in Coq (Model/C02_Types.v) for ALL types/values/programs of the model: subtype (mirror of isSubtype on Int "
        "Float String bool Std::Bool nil any never, literal types, t?, a|b) is sound for the value-set semantics; every "
        "narrowing function (t&~nil&~false, t&(nil|false), t&nil, t&~nil) and every narrowing condition form (`x`, `!c`, "
        "`x == nil`, `x != nil`) keeps the value of the narrowed local inside the narrowed type in the branch it guards; "
        "preservation for all expressions of the fragment (arithmetic, comparisons, ! - == nil, && || ?? with narrowing); "
        "preservation for statements (declarations, shadow-chain assignment, if/else with narrowing, probes) for programs "
        "WITHOUT loops, closure definitions and closure calls. With closures or loops the faithful rule is unsound: "
        "C02_narrow_closure_refuted and C02_narrow_loop_refuted exhibit accepted programs whose probe of static type Int "
        "holds nil. NOT proved: that the real checker/compiler equal the model - that is the correspondence: c02.sub "
        "compares the model's subtype with the real checker on generated type pairs; c02.probe runs generated programs "
        "with the real binary and compares static acceptance (probe annotations inferred by the model, one tightened "
        "annotation per program), the probe values with the reference interpreter, and membership of the observed value in "
        "the static type. CLASSES (Model/C02_Classes.v, a separate fragment): for ALL single-inheritance class tables, "
        "with [[C]] = instances of C or a subclass and [[exact C]] = direct instances, proved: each of the four narrowing "
        "operators `x <: C`, `C :> x`, `x <<: C`, `C :>> x` (dispatched as narrowBinary does, then = C / exact C, else = "
        "T & ~C / T & ~exact C) keeps the tested value inside the narrowed type in the branch taken; the same for "
        "conditions built with ! && ||; preservation for nested if/else programs over such conditions; a receiver type "
        "that compileCallMethod binds statically (exact C, or a class without children) only contains direct instances "
        "of C, so the bound method is the dynamically dispatched one. The instance-of else-branch AS FOUND (T & ~C) is "
        "refuted (C02_cls_instance_of_else_refuted) and proved sound only when no local holds an instance of a proper "
        "subclass of an instance-of operand (C02_cls_preservation_partial). Correspondence c02.cls: generated class "
        "hierarchies (2-3 levels, overridden `name`) and narrowing programs; the REAL checker's static type of every "
        "probed local is read from the typed AST and compared as a value set (extracted kmem over all classes of the "
        "program, Int, nil) with the extracted kannot; each executed probe's runtime class must be a member of the "
        "checker's static type and `v.name` must be the override dynamic dispatch selects (extracted resolve). "
        "GENERICS / INTERFACES (Model/C02_Iface.v, a third fragment): for ALL tables of classes K[T] (one field @item: T, "
        "methods whose body is @item / a literal / the argument and fits the declared signature - ctab_ok) and interfaces "
        "I[T] (method signatures over T, unions and Int String Float nil), proved: isub (K[s] <: K[t] and I[s] <: I[t] "
        "with INVARIANT arguments as isSubtypeOfGenericNamespace does; K[s] <: I[t] and J[s] <: I[t] by the IMPLICIT "
        "structural rule of isImplicitSubtypeOfInterface/checkMethodCompatibility: same-named method, same arity, "
        "parameter contravariant, return covariant after substitution) is sound for value sets in which [[I[t]]] is "
        "defined BEHAVIOURALLY (objects that answer every method of I[t] with a value of the declared return type) - "
        "C02_iface_subtype_sound; a call s.m(x) through s: I[t] returns a value of the substituted return type "
        "(C02_iface_call_preservation, C02_iface_pass_call_sound for any argument type the checker accepts for s); "
        "the executable membership used by the streams decides those value sets (C02_iface_gmem_decided); the "
        "specification answers the k-th question of a history as if asked alone (C02_iface_history_independent - "
        "trivial for the model, it is the property the REAL checker is tested against). Correspondence c02.subhist: "
        "generated tables and 4-10 related questions (same class instantiation against the same interface with "
        "several arguments...) asked inside ONE CheckSource run in three orders and alone in a fresh checker: every "
        "verdict must equal the extracted isub and must not depend on earlier questions. c02.ifc: generated programs "
        "pass K::[s](item) to `def w(s: I[t])`, the probes `var t: R[t] = s.m(x)` carry the static type computed by "
        "the extracted ret_atoms; accepted as the model says (one model-rejected call appended after the accepted "
        "ones must be rejected), run by the binary, values vs extracted gcall, membership by extracted bmem/gmem_b. "
        "NOT in that fragment: inheritance between generic classes, explicit `implement`, mixins, bounded/variant "
        "type parameters, several type parameters, methods whose signature mentions class or interface types "
        "(so the checker's recursion guard for self-referential interfaces is outside the model), closures. "
        "Not modelled: mixins, assignment inside class-narrowed branches (narrowIsA replaces the "
        "local's type by C without intersecting, so `var a: Bar; if a <: Foo; a = Foo(); end` is accepted and leaves a Foo "
        "in a Bar-typed local - seen by reading, outside the stream), the real normalisation of intersections (only "
        "value sets are compared), narrowing by `==` with non-nil operands, std-library return types (C28 covers "
        "declared-vs-actual return classes; no c02.std stream here).")
    ctx.trusted_base += [
        "Python generator/printer (program -> Elk source) and parser of `class inspect` lines (checks/C02.py)",
        "values are observed through `pr(x: any)` = `case ::Std::Value() as y then y.class.name + \" \" + y.inspect`",
        "Float values restricted to small dyadic rationals (exact in binary64); strings to [a-z]*",
        "c02.cls: Python generator/printer of class programs (lib/c02cls.py), the conversion of the checker's types.Type "
        "tree to the model's type syntax (harness/cmd/c02 tySx), runtime class observed through `y.class.name`",
        "c02.subhist / c02.ifc: Python generator/printer of tables, questions and programs (lib/c02ifc.py), attribution "
        "of checker diagnostics to questions by source line (harness/cmd/c02 -extra diags), a verdict is `reject` when "
        "the message says cannot be assigned / does not implement interface / expected type .. for parameter",
        "the model's assignment rule additionally requires the outer chain levels to accept the assigned type (never fails on chains built by narrowing)",
    ]
    ctx.run_proof_gate()
    h = vlib.build_harness("c02")
    m = vlib.build_model_exact("C02")
    elk = vlib.build_elk()

    # ---- c02.sub
    vlib.value_stream(ctx, SUB, h, m, ctx.n(1200, 20000), sub_key,
                      "seeded type pairs over Int Float String bool Bool nil any never true false, int/float/string literal "
                      "types, t?, a|b (depth <= 3; tau drawn independently or as a widening/narrowing mutation of sigma, "
                      "both directions); observable = the real checker accepts `def f(y: sigma); var x: tau = y; end` "
                      "(in-process checker.CheckSource, 40 definitions per run, failures attributed by line) vs extracted "
                      "subtype; non-trivial = distinct pair",
                      corpus=os.path.join(vlib.ROOT, "corpus", "C02.sub.txt"),
                      classify=lambda inp, obs: obs.split(":")[0])

    # ---- c02.probe
    rng = ctx.rng(PROBE)
    corpus = load_corpus(os.path.join(vlib.ROOT, "corpus", "C02.probe.txt"))
    fam = [("d%d" % i, p, "directed") for i, p in enumerate(directed_family())]
    if ctx.quick():
        fam = fam[:40]      # the Int? and Int|String|nil contexts; the thorough tier runs all of them
    gen = []
    dist = {}
    nprog = ctx.n(45, 400)
    for i in range(nprog):
        g = Gen(rng, flow=(i % 3 == 2))
        p = g.program()
        for k, v in g.dist.items():
            dist[k] = dist.get(k, 0) + v
        gen.append(("g%d" % i, p, "generated"))
    stc = run_probe_stream(ctx, elk, h, m, corpus, "corpus") if corpus else None
    stf = run_probe_stream(ctx, elk, h, m, fam, "family")
    stg = run_probe_stream(ctx, elk, h, m, gen, "gen")
    parts = [s for s in (stc, stf, stg) if s]
    tot = lambda k: sum(s[k] for s in parts)
    samples = [{"program": elk_body(p, {str(k): "any" for k in range(50)})[:600]} for _, p, _ in gen[:2]]
    ctx.stream(PROBE, tot("evaluations"), len(set().union(*[s["distinct"] for s in parts])),
               "programs of the modelled core: 2-3 declared locals (Int? String? Float? bool? unions, literal types, any), "
               "then 3-6 statements of decl / := / assignment / if-else with conditions x, !x, !!x, x == nil, x != nil or a "
               "comparison / probes of expressions (+ - * < <= == on Int Float String, unary - !, && || ?? on a local); every "
               "third program also has counted while loops and top-level closures assigning outer locals, called later; plus "
               "the directed family narrowing-form x mutation-site (closure call, loop back edge, direct assignment, nested "
               "if) x use, plus corpus. evaluation = one executed probe whose printed class/inspect is compared with the "
               "reference interpreter and tested for membership in its static type; per program one tightened annotation is "
               "compared (accept/reject) with the model's subtype; non-trivial = distinct (program, executed probe)",
               samples,
               dict(statement_and_expression_nodes=dist, programs_generated=len(gen), directed_family=len(fam), corpus=len(corpus),
                    model_rejected=tot("model_rejected"), executed=tot("executed"), loop_closure_programs=tot("flow"),
                    simple_programs=tot("simple"), tightened_annotations=tot("tight_checked"),
                    tightened_expected_reject=tot("tight_rejects"), tightened_expected_accept=tot("tight_accepts"),
                    membership_checks=tot("member_checks"), stale_narrowing_reports=tot("stale"), model_stuck=tot("model_stuck"),
                    value_mismatches_attributed_to_C08_typed_float_opcodes=tot("foreign_c08")))
    # ---- c02.cls
    c02cls.run_stream(ctx, elk, h, m)
    # ---- c02.subhist, c02.ifc
    c02ifc.run_streams(ctx, elk, h, m)
    if stg["programs"] and stg["executed"] * 4 < stg["programs"]:
        ctx.broke("correspondence %s: fewer than a quarter of the generated programs were executed (%d of %d; model rejected %d)"
                  % (PROBE, stg["executed"], stg["programs"], stg["model_rejected"]))
