"""C32 — uncaught errors report the active call chain with correct lines."""
import os
import re
import vlib

FILE_ID = 7          # id of the (only) source file in the model scenarios
CLOSURE_ID = 900     # `<closure>`
SCRIPT_ID = 901      # the top-level script frame (named after the file)


# ----------------------------------------------------------------- c32.rle

def rle_key(inp, obs, exp):
    ops = inp.split()
    kinds = "".join(sorted(set(t[0] for t in ops)))
    o = obs.split()[0] + ("" if not obs.startswith("panic") else obs.split()[1])
    e = exp.split()[0] + ("" if not exp.startswith("panic") else exp.split()[1])
    return "rle:%s:impl-%s:model-%s" % (kinds, o, e)


def rle_class(inp, obs):
    if obs.startswith("panic"):
        return obs
    return "ok " + obs.split()[-1]


# ----------------------------------------------------------------- c32.lines

LINES_META = re.compile(r"^lines case=(.*?);fn=(.*?);pl=(\d+)(?:;mk=(\d+))? ::")


def lines_key(meta, obs, exp):
    """canonical class: first failing implementation-level oracle (fixed priority total > straddle > span >
    marker > run), else the kind of model disagreement; plus the prologue the function carries"""
    pl = {"0": "none", "2": "PREP_LOCALS8", "3": "PREP_LOCALS16"}.get(meta[2], meta[2])
    if obs.startswith("panic") or exp.startswith("panic"):
        return "lines:panic:prologue=%s" % pl
    o = obs.rsplit(" o=", 1)[-1]
    if o != "1":
        return "lines:%s:prologue=%s" % (o.split(":", 1)[-1], pl)
    n_i = obs.split()[1] if len(obs.split()) > 1 else "?"
    n_m = exp.split()[1] if len(exp.split()) > 1 else "?"
    return "lines:model-%s:prologue=%s" % ("total" if n_i != n_m else "lines", pl)


def lines_stream(ctx, h, m):
    stream = "c32.lines"
    corpus = os.path.join(vlib.ROOT, "corpus", "C32.lines.txt")
    nwide, nhuge, nshape, nprog = ctx.n(220, 4000), ctx.n(1, 12), ctx.n(40, 400), ctx.n(40, 3000)
    extra = "lines,wide=%d,huge=%d,shapes=%d" % (nwide, nhuge, nshape)
    cmd = [h, "-seed", str(ctx.sseed(stream)), "-n", str(nprog), "-tier", ctx.tier, "-extra", extra, "-input", corpus]
    rc, out = vlib.sh(cmd, timeout=6000, env=vlib.elk_env())
    ids, inputs, obs = vlib.parse_case_lines(out)
    if rc != 0 or not ids:
        ctx.broke("correspondence %s: harness exited %d" % (stream, rc), out[-3000:])
        if not ids:
            return
    usable = [i for i in ids if not obs[i].startswith("unusable")]
    rc2, exp, mout = vlib.run_model(m, usable, inputs, timeout=6000)
    if rc2 != 0:
        ctx.broke("correspondence %s: model driver exited %d" % (stream, rc2), mout[-3000:])
    dist, distinct, samples = {}, set(), []
    mism = unusable = 0
    wide_cases = {}
    cases_seen, cases_unusable = set(), set()
    for i in ids:
        mt = LINES_META.match(inputs[i])
        meta = mt.groups() if mt else ("?", "?", "0", "0")
        spec = meta[0]
        kind = spec.split(":", 1)[0]
        cases_seen.add(i.split(".")[0])
        if obs[i].startswith("unusable"):
            unusable += 1
            cases_unusable.add(i.split(".")[0])
            k = "unusable:%s:%s" % (kind, obs[i].split()[1])
            dist[k] = dist.get(k, 0) + 1
            if len([x for x in samples if "unusable" in x]) < 2:
                samples.append({"case": spec, "unusable": obs[i][:200]})
            continue
        ops = inputs[i].split(" ::", 1)[1]
        nops = ops.count(" ")
        if nops >= 3:
            distinct.add(hash(ops))
        cont = ""
        if kind == "wide":
            cont = ":" + dict(kv.split("=") for kv in spec[5:].split(","))["cont"]
            wide_cases.setdefault(i.split(".")[0], [0, 0])
            wide_cases[i.split(".")[0]][0] += int(meta[3] or "0")          # markers found in the program
            wide_cases[i.split(".")[0]][1] += 1 if meta[2] != "0" else 0     # functions with a prologue
        for k in ("%s%s" % (kind, cont), "prologue=%s" % meta[2], "size>=%d" % (10 ** len(str(nops)) // 10)):
            dist[k] = dist.get(k, 0) + 1
        if len(samples) < 3 and meta[2] == "3":
            samples.append({"case": spec, "fn": meta[1], "ops": ops[:160] + " ...", "observed": obs[i][:200]})
        e = exp.get(i)
        if e is None:
            ctx.broke("correspondence %s: model gave no answer for %s fn=%s" % (stream, spec, meta[1]))
        elif e != obs[i]:
            mism += 1
            if mism <= 200:
                ctx.fail(lines_key(meta, obs[i], e),
                         "%s, function %s (prologue bytes %s): line table of the compiled function %s; the table the "
                         "proved operations give for its instruction stream: %s" % (spec, meta[1], meta[2], obs[i][:300], e[:300]),
                         stream=stream,
                         case={"spec": spec, "function": meta[1], "ops": ops[:2000],
                               "replay": "wide specs: a line of corpus/C32.lines.txt; others: h_c32 -extra %s,src=%s -n %d -seed %d"
                                         % (extra, i.split(".")[0], nprog, ctx.sseed(stream))},
                         impl=obs[i][:2000], model=e[:2000],
                         oracle="every byte offset of the function must answer GetLineNumber like the table the model builds "
                                "from (line, size) of each decoded instruction plus the prologue (C32_rle_refines with "
                                "OpPrologue, C32_prologue_shift); o= is the implementation-only verdict: table bytes = "
                                "len(Instructions), no instruction on two lines, lines inside the function's source span, "
                                "marker calls/literals on the line they name")
    if len(cases_unusable) * 10 > len(cases_seen):
        ctx.broke("c32.lines: %d of %d programs were rejected or undecodable" % (len(cases_unusable), len(cases_seen)),
                  str([s for s in samples if "unusable" in s][:2]))
    wide_fn = len(wide_cases)
    wide_marked = len([1 for a, b in wide_cases.values() if a > 0])
    if wide_fn == 0 or wide_marked * 10 < wide_fn * 9:
        ctx.broke("c32.lines: only %d of %d wide programs carry a line marker (generator no longer reaches the class)" % (wide_marked, wide_fn))
    ctx.stream(stream, len(ids) - unusable, len(distinct),
               "every function of compiled programs (checker.CheckSource in process): wide shapes = 7 containers x 0-3 "
               "parameters x local counts sweeping the highest slot through 250-260 (PREP_LOCALS8/16 boundary), controls "
               "with 0-5 locals, shapes with 65530+ locals, call/throw layouts with the line encoded in callee/literal "
               "names; plus the C29 corpus generators (cfgx.Shapes, cfgx.Program). Per function: instruction starts decoded "
               "with the real disassembler, operations a<line>:<size>.. p<prologue bytes> handed to the extracted model, "
               "GetLineNumber compared at every offset -1..len+1 and the table's byte total; second oracle o= on the "
               "implementation alone (total, straddle, span, marker, run). distinct = distinct operation sequences with "
               ">= 3 instructions",
               samples, dist, mismatches=mism, unusable=unusable, programs=len(cases_seen),
               wide_programs=wide_fn, wide_programs_with_markers=wide_marked)


# ----------------------------------------------------------------- c32.prog generator

class Prog:
    """One generated program: a call chain script -> F1 -> ... -> FN, FN throws.
    Everything is derived from (seed, depth, force)."""

    def __init__(self, seed, depth, force=""):
        self.spec = "seed=%d depth=%d force=%s" % (seed, depth, force)
        r = vlib.SplitMix(seed * 1000003 + depth * 101 + sum(map(ord, force)))
        self.r = r
        n = depth
        # kinds of F1..FN
        kinds = []
        for i in range(1, n + 1):
            prev = kinds[-1] if kinds else "def"
            if prev in ("mod", "inst"):
                # receiverless calls from module/class bodies crash the VM (unrelated defect): stay qualified
                k = r.choice(["mod", "inst"])
            else:
                k = r.choice(["def", "def", "mod", "inst", "async", "gen"])
            if k == "gen" and (i == n or i != 1):
                # generators only as F1: a `for` loop needs locals, and a function with locals must not
                # contain calls to not-yet-compiled methods (unrelated VM crash, see final report)
                k = "def"
            kinds.append(k)
        # how Fi (i = 0 is the script) reaches Fi+1
        vias = []
        for i in range(0, n):
            callee = kinds[i]
            caller = "script" if i == 0 else kinds[i - 1]
            if callee == "async":
                v = "await"
            elif callee == "gen":
                v = "for"
            else:
                opts = ["direct", "direct", "closure", "closure_ml", "map"]
                if caller not in ("script", "async", "gen"):
                    opts += ["tail", "tail", "closure_tail"]
                v = r.choice(opts)
                if force in opts and i == n - 1:
                    v = force
            vias.append(v)
        if force in ("for", "await") and (n >= 2 or force == "await"):
            # force the first link to be a generator / async boundary
            kinds[0] = "gen" if force == "for" else "async"
            vias[0] = force
            if n >= 2 and vias[1] in ("tail", "closure_tail"):
                vias[1] = "direct"
        if n >= 2 and kinds[0] == "gen" and vias[1] not in ("direct", "await"):
            # a closure inside a generator body makes the checker reject the following `yield`
            # (checker context not restored; unrelated defect) - keep generator bodies closure-free
            vias[1] = "direct"
        self.kinds, self.vias = kinds, vias
        # force "wide": some functions (and sometimes the script) declare 247-258 locals on one line, so that their
        # highest slot is around the PREP_LOCALS8/16 boundary; in them the call sits on a continuation line
        # (`1 +` newline `f(x)`: the call is the last instruction generated for its line).  Drawn only for the
        # wide forces, so programs of the other forces are unchanged per seed.
        self.wide = {}
        if force.startswith("wide"):
            for i in range(0, n + 1):
                if r.chance(1, 2 if i else 3):
                    self.wide[i] = r.range(247, 258)
            if not [i for i in self.wide if i]:
                self.wide[r.range(1, n)] = r.range(247, 258)
            if force == "wide16":
                for i in self.wide:
                    self.wide[i] = r.range(300, 700)
        self.lines = []          # source lines
        self.entries = []        # expected trace: threads -> list of (name, line, tcc)
        self.layouts = []
        self.build()

    # -- naming
    def fname(self, i):
        k = self.kinds[i - 1]
        return {"def": "Std::Kernel::f%d", "async": "Std::Kernel::f%d", "gen": "Std::Kernel::f%d",
                "mod": "M%d::f%%d" % i, "inst": "K%d.:f%%d" % i}[k] % i

    def callee_expr(self, i, arg, layout):
        """(list of text lines, index of the line where the call expression starts)"""
        k = self.kinds[i - 1]
        if k in ("def", "async", "gen"):
            recv, meth = None, "f%d" % i
        elif k == "mod":
            recv, meth = "M%d" % i, "f%d" % i
        else:
            recv, meth = "K%d()" % i, "f%d" % i
        if layout == "dot" and recv is None:
            layout = "args"
        if layout == "one":
            return [(recv + "." if recv else "") + "%s(%s)" % (meth, arg)]
        if layout == "args":
            return [(recv + "." if recv else "") + meth + "(", "  " + arg, ")"]
        if layout == "dot":
            return [recv, "  .%s(%s)" % (meth, arg)]
        if layout == "dotargs":
            if recv is None:
                return [meth + "(", "  " + arg, ")"]
            return [recv, "  .%s(" % meth, "    " + arg, "  )"]
        raise ValueError(layout)

    def pad(self, out, indent):
        r = self.r
        for _ in range(r.choice([0, 0, 0, 1, 1, 2, 3])):
            out.append("" if r.chance(1, 2) else indent + "# " + r.choice(["note", "todo", "x := 1", "end"]))

    def build(self):
        r = self.r
        n = len(self.kinds)
        bodies = {}     # i -> list of body lines (without def header), plus positions we need
        marks = {}      # (i, what) -> index into body lines
        for i in range(1, n + 1):
            body = []
            ind = "  "
            self.pad(body, ind)
            if self.kinds[i - 1] == "gen":
                body.append(ind + "yield 1")
                self.pad(body, ind)
            if i in self.wide:
                body.append(ind + ";".join("v%d := %d" % (j, j % 10) for j in range(self.wide[i])))
                self.pad(body, ind)
            safe_locals = i == n or self.vias[i] in ("closure", "closure_tail", "map")
            if safe_locals and r.chance(1, 2):
                body.append(ind + "w := x + %d" % r.range(1, 9))
                self.pad(body, ind)
            if i == n:
                marks[(i, "site")] = len(body)
                body.append(ind + 'throw unchecked "boom"')
                self.layouts.append("throw")
            else:
                via = self.vias[i]
                layout = r.choice(["one", "one", "args", "dot", "dotargs"])
                pre_plus = r.chance(1, 4) or i in self.wide
                self.layouts.append(via + "/" + layout + ("/plus" if pre_plus else "") + ("/wide" if i in self.wide else ""))
                self.emit_call(body, marks, i, i + 1, via, layout, pre_plus, ind,
                               in_gen=self.kinds[i - 1] == "gen", in_async=self.kinds[i - 1] == "async")
            bodies[i] = body
        # assemble the file, definitions in random order, script call last
        order = list(range(1, n + 1))
        r.shuffle(order)
        out = []
        defline = {}
        for i in order:
            self.pad(out, "")
            k = self.kinds[i - 1]
            head = {"def": "def f%d(x: Int): Int", "async": "async def f%d(x: Int): Int",
                    "gen": "def *f%d(x: Int): Int", "mod": "def f%d(x: Int): Int", "inst": "def f%d(x: Int): Int"}[k] % i
            wrap = None
            if k == "mod":
                wrap = "module M%d" % i
            elif k == "inst":
                wrap = "class K%d" % i
            ind = "  " if wrap else ""
            if wrap:
                out.append(wrap)
            out.append(ind + head)
            defline[i] = len(out)          # 0-based index of first body line
            for l in bodies[i]:
                out.append((ind + l) if l else l)
            out.append(ind + "end")
            if wrap:
                out.append("end")
        self.pad(out, "")
        # script
        sbody = []
        smarks = {}
        layout = r.choice(["one", "args", "dot", "dotargs"])
        pre_plus = r.chance(1, 4) or 0 in self.wide
        self.layouts.insert(0, self.vias[0] + "/" + layout + ("/plus" if pre_plus else "") + ("/wide" if 0 in self.wide else ""))
        if 0 in self.wide:
            sbody.append(";".join("v%d := %d" % (j, j % 10) for j in range(self.wide[0])))
        self.emit_call(sbody, smarks, 0, 1, self.vias[0], layout, pre_plus, "", in_gen=False, in_async=False, script=True)
        base0 = len(out)
        out += sbody
        out.append("println(r.inspect)")
        self.lines = out

        def line_of(i, what):
            if i == 0:
                return base0 + smarks[(0, what)] + 1
            return defline[i] + marks[(i, what)] + 1

        # ---- expected chain (threads outermost first; each entry (name id, line, tcc))
        threads = [[]]
        tcc = 0
        name = SCRIPT_ID
        for i in range(0, n):
            via = self.vias[i]
            cur = threads[-1]
            if via == "direct":
                cur.append((name, line_of(i, "site"), tcc)); tcc = 0
            elif via == "tail":
                tcc = tcc + 1
            elif via in ("closure", "closure_ml", "map"):
                cur.append((name, line_of(i, "outer"), tcc))
                cur.append((CLOSURE_ID, line_of(i, "site"), 0)); tcc = 0
            elif via == "closure_tail":
                cur.append((name, line_of(i, "outer"), tcc)); tcc = 1
            elif via == "await":
                cur.append((name, line_of(i, "site"), tcc)); tcc = 0
                threads.append([])
            elif via == "for":
                cur.append((name, line_of(i, "site"), tcc)); tcc = 0
            name = i + 1
        threads[-1].append((name, line_of(n, "site"), tcc))
        self.threads = threads
        self.expected = [e for t in threads for e in t]

    def emit_call(self, body, marks, i, j, via, layout, pre_plus, ind, in_gen, in_async, script=False):
        """append to `body` the statements with which function i reaches function j.
        Inside functions (not the script) the forms whose own bytecode contains the method call use
        no local variables: a function with locals that calls a not-yet-compiled method crashes the VM
        (prepLocals shifts the bytecode after the deferred call offset was recorded; unrelated to C32)."""
        r = self.r
        arg = "x" if not script else str(r.range(1, 9))
        res = "r := " if script else ("yield " if in_gen else "")

        def put_expr(prefix, lines):
            # returns the index of the line where the call expression starts
            if pre_plus:
                body.append(ind + prefix + "1 +")
                start = len(body)
                for l in lines:
                    body.append(ind + "  " + l)
            else:
                start = len(body)
                body.append(ind + prefix + "1 + " + lines[0])
                for l in lines[1:]:
                    body.append(ind + l)
            return start

        def finish_with_r():
            if script:
                return
            self.pad(body, ind)
            if in_gen:
                body.append(ind + "yield r")
                body.append(ind + "3")
            else:
                body.append(ind + "r + 1")

        if via == "direct":
            marks[(i, "site")] = put_expr(res, self.callee_expr(j, arg, layout))
            if in_gen:
                body.append(ind + "3")
        elif via == "tail":
            lines = self.callee_expr(j, arg, layout)
            marks[(i, "site")] = len(body)
            for l in lines:
                body.append(ind + l)
        elif via in ("closure", "closure_tail"):
            lines = self.callee_expr(j, "y", "one")
            marks[(i, "site")] = len(body)
            body.append(ind + "c := |y: Int|: Int -> " + ("1 + " if via == "closure" else "") + lines[0])
            self.pad(body, ind)
            marks[(i, "outer")] = len(body)
            body.append(ind + "r := 1 + c.(%s)" % arg)
            finish_with_r()
        elif via == "closure_ml":
            body.append(ind + "c := |y: Int|: Int ->")
            self.pad(body, ind + "  ")
            lines = self.callee_expr(j, "y", layout)
            marks[(i, "site")] = len(body)
            body.append(ind + "  1 + " + lines[0])
            for l in lines[1:]:
                body.append(ind + "  " + l)
            body.append(ind + "end")
            self.pad(body, ind)
            if r.chance(1, 2):
                marks[(i, "outer")] = len(body)
                body.append(ind + "r := 1 + c.(%s)" % arg)
            else:
                body.append(ind + "r := 1 +")
                marks[(i, "outer")] = len(body)
                body.append(ind + "  c.(")
                body.append(ind + "    %s" % arg)
                body.append(ind + "  )")
            finish_with_r()
        elif via == "map":
            lines = self.callee_expr(j, "y", "one")
            if r.chance(1, 2):
                marks[(i, "outer")] = len(body)
                marks[(i, "site")] = len(body)
                body.append(ind + "l := [%s, 2].map |y: Int|: Int -> 1 + %s" % (arg, lines[0]))
            else:
                marks[(i, "outer")] = len(body)
                body.append(ind + "l := [%s, 2].map |y: Int|: Int ->" % arg)
                self.pad(body, ind + "  ")
                marks[(i, "site")] = len(body)
                body.append(ind + "  1 + " + lines[0])
                body.append(ind + "end")
            self.pad(body, ind)
            body.append(ind + "r := l[0]")
            finish_with_r()
        elif via == "await":
            kw = "await" if in_async else "await_sync"
            if script and r.chance(1, 2):
                body.append(ind + "p := " + self.callee_expr(j, arg, "one")[0])
                self.pad(body, ind)
                marks[(i, "site")] = len(body)
                body.append(ind + "r := 1 + %s p" % kw)
            else:
                marks[(i, "site")] = len(body)
                body.append(ind + res + "1 + %s %s" % (kw, self.callee_expr(j, arg, "one")[0]))
                if in_gen:
                    body.append(ind + "3")
        elif via == "for":
            assert script
            body.append(ind + "r := 0")
            self.pad(body, ind)
            marks[(i, "site")] = len(body)
            body.append(ind + "for v in " + self.callee_expr(j, arg, "one")[0])
            body.append(ind + "  r += v")
            body.append(ind + "end")

    def source(self):
        return "\n".join(self.lines) + "\n"

    # -- the scenario handed to the extracted model: every expected entry becomes a frame whose
    #    line table is built by compiler operations; ip-1 falls inside the bytes of the call site
    def scenario(self):
        r = vlib.SplitMix(self.r.next())
        th_txt = []
        for t in reversed(self.threads):     # thrower first, then awaiters innermost first
            frames = ["E"]
            for k, (name, line, tcc) in enumerate(t):
                ops, off = [], 0
                for _ in range(r.range(0, 4)):
                    b = r.range(1, 4); ops.append("a%d:%d" % (max(1, line + r.range(-6, 6)), b)); off += b
                if r.chance(1, 3):   # a removed opcode just before the call (compiler.removeOpcode)
                    ops.append("a%d:1" % (line + 1)); ops.append("r1")
                b = r.range(1, 3); ops.append("a%d:%d" % (line, b)); off += b
                if r.chance(1, 2):
                    e = r.range(1, 4); ops.append("b%d" % e); off += e
                ip = off
                for _ in range(r.range(0, 3)):
                    ops.append("a%d:%d" % (line + r.range(1, 5), r.range(1, 4)))
                tag = "C" if k == len(t) - 1 else "B"
                frames.append("%s,%d,%d,%d,%d,%s" % (tag, name, FILE_ID, ip, tcc, ".".join(ops)))
                if tag == "B" and r.chance(1, 5):
                    frames.append("E")
            th_txt.append(";".join(frames))
        return "trace " + "|".join(th_txt)


# ----------------------------------------------------------------- c32.prog third generation: thrown value kind x
# boundary kind x earlier (swallowed / caught) errors

# (name, literal or None for an error created by native code, class of the value)
VKINDS = [
    ("string", '"boom"', "reference"), ("error", 'E1("x")', "reference"),
    ("bigint", "100000000000000000000000000", "reference"), ("bigfloat", "1.5bf", "reference"),
    ("list", "[1]", "reference"),
    ("symbol", ":boom", "inline"), ("stop_sym", ":stop_iteration", "inline"), ("smallint", "7", "inline"),
    ("float", "2.5", "inline"), ("true", "true", "inline"), ("false", "false", "inline"), ("nil", "nil", "inline"),
    ("char", "`c`", "inline"), ("i8", "3i8", "inline"), ("u8", "3u8", "inline"), ("i16", "3i16", "inline"),
    ("u16", "3u16", "inline"), ("i32", "3i32", "inline"), ("u32", "3u32", "inline"), ("i64", "3i64", "inline"),
    ("u64", "3u64", "inline"), ("uint", "3u", "inline"), ("f32", "2.5f32", "inline"), ("f64", "2.5f64", "inline"),
    ("native_stop", None, "inline"), ("native_zerodiv", None, "reference"),
]
VK = {k[0]: k for k in VKINDS}
CALLBACKS = ["cb:map", "cb:filter", "cb:fold", "cb:tmap", "cb:smap", "cb:mapvalues", "cb:times"]
TRAMPS = ["tr:interp", "tr:eq", "tr:contains", "tr:splat", "tr:add"]
# links at which the error leaves a nested run of the VM and is handed back by native code
NESTED = set(CALLBACKS) | {"tr:eq", "tr:contains", "tr:splat", "tr:for", "gnext", "gsplat", "for"}
PHASE1 = ["for_gen", "for_iter", "splat_gen", "splat_iter", "next_catch", "catch_cb", "catch_await", "catch_gen_for"]
BOUNDARIES = CALLBACKS + TRAMPS + ["tr:for", "closure", "direct", "tail", "await", "gnext", "gsplat", "for"]
TRAMP_BASE = 1000    # name id of trampoline class T<i>
PH1_BASE = 2000      # name ids of phase-1 functions


def link_family(via):
    if via.startswith("cb:"):
        return "native-callback"
    return {"tr:eq": "native-equal", "tr:contains": "native-equal", "tr:splat": "user-next", "tr:for": "user-next",
            "gnext": "generator", "gsplat": "generator", "for": "generator", "tr:interp": "interpolation",
            "tr:add": "operator", "await": "await", "await_sync": "await"}.get(via, via)


class VProg:
    """script -> F1 -> ... -> FN; FN throws a value of kind `vkind` (or triggers an error created by native code);
    every link is one of BOUNDARIES; optionally an earlier error (phase 1) is swallowed or caught first.
    Everything is derived from (seed, depth, vkind, boundary, ph1)."""

    def __init__(self, seed, depth, vkind, boundary="", ph1="none"):
        self.spec = "v=1 seed=%d depth=%d vkind=%s boundary=%s ph1=%s" % (seed, depth, vkind, boundary, ph1)
        r = vlib.SplitMix(seed * 1000003 + depth * 101 + sum(map(ord, vkind + "/" + boundary + "/" + ph1)) * 7919)
        self.r, self.vkind, self.ph1, self.boundary = r, vkind, ph1, boundary
        self.wide = {}
        n = depth
        kinds = [r.choice(["def", "def", "def", "inst", "mod", "async", "gen"]) for _ in range(n)]
        forced_at = r.range(0, n - 1)
        if boundary in ("for", "tr:for"):
            forced_at = 0
        if boundary in ("await",):
            kinds[forced_at] = "async"
        elif boundary in ("gnext", "gsplat", "for"):
            kinds[forced_at] = "gen"
        elif boundary:
            if kinds[forced_at] in ("async", "gen"):
                kinds[forced_at] = "def"
            if boundary == "tail" and forced_at == 0:
                forced_at = min(1, n - 1)
                if kinds[forced_at] in ("async", "gen"):
                    kinds[forced_at] = "def"
        vias = []
        for i in range(n):
            caller = "script" if i == 0 else kinds[i - 1]
            callee = kinds[i]
            if callee == "async":
                v = "await"
            elif callee == "gen":
                v = r.choice(["gnext", "gsplat"] + (["for"] if caller == "script" else []))
            else:
                opts = ["direct", "direct"] + TRAMPS
                if caller != "gen":       # a closure inside a generator body breaks the checker (unrelated)
                    opts += CALLBACKS + ["closure"]
                if caller == "script":
                    opts += ["tr:for"]
                if caller not in ("script", "async", "gen"):
                    opts += ["tail"]
                v = r.choice(opts)
            if i == forced_at and boundary:
                ok = (boundary in ("await",) and callee == "async") or \
                     (boundary in ("gnext", "gsplat", "for") and callee == "gen" and (boundary != "for" or caller == "script")) or \
                     (callee not in ("async", "gen") and boundary in CALLBACKS + ["closure"] and caller != "gen") or \
                     (callee not in ("async", "gen") and boundary in TRAMPS + ["direct"]) or \
                     (callee not in ("async", "gen") and boundary == "tr:for" and caller == "script") or \
                     (callee not in ("async", "gen") and boundary == "tail" and caller not in ("script", "async", "gen"))
                if ok:
                    v = boundary
            if vkind in ("stop_sym", "native_stop") and v in ("gsplat", "for", "tr:splat", "tr:for"):
                # a :stop_iteration that reaches a native iteration ends the loop, it is not an error
                v = "gnext" if callee == "gen" else "direct"
            vias.append(v)
        self.kinds, self.vias = kinds, vias
        self.layouts = []
        self.names = {}
        self.build()

    # -- names
    def fname(self, i):
        k = self.kinds[i - 1]
        return {"def": "Std::Kernel::f%d", "async": "Std::Kernel::f%d", "gen": "Std::Kernel::f%d",
                "mod": "M%d::f%%d" % i, "inst": "K%d.:f%%d" % i}[k] % i

    def call(self, j, arg):
        k = self.kinds[j - 1]
        if k == "mod":
            return "M%d.f%d(%s)" % (j, j, arg)
        if k == "inst":
            return "K%d().f%d(%s)" % (j, j, arg)
        return "f%d(%s)" % (j, arg)

    def pad(self, out, indent):
        r = self.r
        for _ in range(r.choice([0, 0, 0, 1, 1, 2])):
            out.append("" if r.chance(1, 2) else indent + "# " + r.choice(["note", "todo", "x := 1", "end"]))

    def link(self, i, arg, ind, body, tramps):
        """statements with which frame i (0 = script) reaches F(i+1), appended to body; the LAST appended expression
        is an Int valued expression statement without its prefix (the caller adds `1 + `, `r := 1 + `...).
        Returns (prefix statements already in body, expression lines, marks) where marks maps
        'site' / 'outer' to (which, index): which = 'pre' (index into body as it is now) or 'expr' (line of the expression)"""
        r = self.r
        via = self.vias[i]
        j = i + 1
        c = self.call(j, "y")
        ml = r.chance(1, 3)

        def closure(ret, expr, params="y: Int"):
            if ml:
                return ["|%s|: %s ->" % (params, ret), "  " + expr, "end"], 1
            return ["|%s|: %s -> %s" % (params, ret, expr)], 0

        def wrap(head, clo, tail):
            lines = [head + clo[0]] + clo[1:]
            lines[-1] = lines[-1] + tail
            return lines

        if via == "direct":
            return [self.call(j, arg)], {"site": 0}
        if via == "tail":
            return [self.call(j, arg)], {"site": 0, "tail": True}
        if via in CALLBACKS:
            m = via[3:]
            if m == "map":
                clo, k = closure("Int", "1 + " + c); lines = wrap("[%s, 2].map(" % arg, clo, ").length")
            elif m == "filter":
                clo, k = closure("bool", "1 + %s > 0" % c); lines = wrap("[%s, 2].filter(" % arg, clo, ").length")
            elif m == "fold":
                clo, k = closure("Int", "s + " + c, "s: Int, y: Int"); lines = wrap("[%s, 2].fold(0, " % arg, clo, ")")
            elif m == "tmap":
                clo, k = closure("Int", "1 + " + c); lines = wrap("%%[%s, 2].map(" % arg, clo, ").length")
            elif m == "smap":
                clo, k = closure("Int", "1 + " + c); lines = wrap("^[%s, 2].map(" % arg, clo, ").length")
            elif m == "mapvalues":
                clo, k = closure("Int", "1 + " + c); lines = wrap("{ 1 => %s }.map_values(" % arg, clo, ").length")
            else:   # times: a statement of its own, the value follows
                clo, k = closure("Int", "1 + " + c)
                pre = wrap("2.times(", clo, ")")
                return ["3"], {"outer_pre": 0, "site_pre": k, "pre": pre}
            return lines, {"outer": 0, "site": k, "closure": True}
        if via == "closure":
            clo, k = closure("Int", "1 + " + c)
            pre = wrap("c := ", clo, "")
            return ["c.(%s)" % arg], {"outer": 0, "site_pre": k, "pre": pre, "closure": True}
        if via.startswith("tr:"):
            t = via[3:]
            T = "T%d" % j
            inner = self.call(j, "@v")
            if t == "interp":
                tramps.append((j, "inspect", "def inspect: String", "(1 + %s).to_string" % inner, ""))
                return ['"a#{%s(%s)}b".length' % (T, arg)], {"outer": 0, "tramp": "inspect"}
            if t == "eq":
                tramps.append((j, "==", "def ==(other: any): bool", "1 + %s > 0" % inner, ""))
                return ["(if [%s(%s)] == [%s(%s)] then 1 else 2)" % (T, arg, T, arg)], {"outer": 0, "tramp": "=="}
            if t == "contains":
                tramps.append((j, "==", "def ==(other: any): bool", "1 + %s > 0" % inner, ""))
                return ["(if [%s(%s)].contains(%s(%s)) then 1 else 2)" % (T, arg, T, arg)], {"outer": 0, "tramp": "=="}
            if t == "splat":
                tramps.append((j, "next", "def next: Int ! :stop_iteration", "1 + %s" % inner, "  include Iterator::Base[Int]"))
                return ["[0, *%s(%s)].length" % (T, arg)], {"outer": 0, "tramp": "next"}
            if t == "add":
                tramps.append((j, "+", "def +(o: Int): Int", "1 + %s" % inner, ""))
                return ["(%s(%s) + 1)" % (T, arg)], {"outer": 0, "tramp": "+"}
            if t == "for":
                tramps.append((j, "next", "def next: Int ! :stop_iteration", "1 + %s" % inner, "  include Iterator::Base[Int]"))
                return ["q"], {"outer_pre": 1, "pre": ["q := 0", "for v in %s(%s)" % (T, arg), "  q += v", "end"], "tramp": "next"}
        if via == "await":
            kw = "await" if (i > 0 and self.kinds[i - 1] == "async") else "await_sync"
            return ["(%s %s)" % (kw, self.call(j, arg))], {"site": 0, "await": True}
        if via == "gnext":
            return ["(try %s.next)" % self.call(j, arg)], {"site": 0}
        if via == "gsplat":
            return ["[0, *%s].length" % self.call(j, arg)], {"site": 0}
        if via == "for":
            return ["q"], {"site_pre": 1, "pre": ["q := 0", "for v in %s" % self.call(j, arg), "  q += v", "end"]}
        raise ValueError(via)

    def emit_frame(self, i, ind, prefix, arg, tramps):
        """body lines of frame i (without header) and the marks {what: line index in body}"""
        r = self.r
        body, marks = [], {}
        self.pad(body, ind)
        expr, mk = self.link(i, arg, ind, body, tramps)
        if "pre" in mk:
            base = len(body)
            for l in mk["pre"]:
                body.append(ind + l)
            for w in ("outer_pre", "site_pre"):
                if w in mk:
                    marks[w[:-4]] = base + mk[w]
            self.pad(body, ind)
        if mk.get("tail"):
            base = len(body)
            body.append(ind + expr[0])
        else:
            plus = r.chance(1, 3)
            if plus:
                body.append(ind + prefix + "1 +")
                base = len(body)
                for l in expr:
                    body.append(ind + "  " + l)
            else:
                base = len(body)
                body.append(ind + prefix + "1 + " + expr[0])
                for l in expr[1:]:
                    body.append(ind + l)
            self.layouts.append("plus" if plus else "one")
        for w in ("outer", "site"):
            if w in mk and w not in marks:
                marks[w] = base + mk[w]
        self.layouts.append(self.vias[i] + ("/ml" if len(expr) > 1 or len(mk.get("pre", [])) > 1 else ""))
        return body, marks, mk

    def thrower(self, ind):
        r = self.r
        body = []
        self.pad(body, ind)
        if r.chance(1, 2):
            body.append(ind + "w := x + %d" % r.range(1, 9))
            self.pad(body, ind)
        lit = VK[self.vkind][1]
        if lit is not None:
            site = len(body)
            body.append(ind + "throw unchecked " + lit)
        elif self.vkind == "native_stop":
            body.append(ind + "it := [x].iter")
            body.append(ind + "p := try it.next")
            self.pad(body, ind)
            site = len(body)
            body.append(ind + "q := try it.next")
            body.append(ind + "p + q")
        else:
            site = len(body)
            body.append(ind + "1 + x / (x - x)")
        return body, site

    def phase1(self):
        """(definition lines, script lines, model episodes)"""
        lit = VK[self.vkind][1]
        if lit is None:
            lit1 = ":stop_iteration" if self.vkind == "native_stop" else 'E1("y")'
        else:
            lit1 = lit
        v = self.vcode(lit1 == ":stop_iteration" and "stop" or self.vkind)
        stop = "i5"
        gen = ["def *pg(x: Int): Int", "  yield 1", "  3", "end"]
        it = ["class PI", "  include Iterator::Base[Int]", "  var @c: Int", "  init", "    @c = 0", "  end",
              "  def next: Int ! :stop_iteration", "    throw :stop_iteration if @c >= 2", "    @c++", "  end", "end"]
        p = self.ph1
        A, B = PH1_BASE, PH1_BASE + 1
        if p == "for_gen":
            return gen, ["s0 := 0", "for v0 in pg(1)", "  s0 += v0", "end"], [("S", stop, "D", [[(A, 2, 0), (B, 3, 0)]])]
        if p == "for_iter":
            return it, ["s0 := 0", "for v0 in PI()", "  s0 += v0", "end"], [("S", stop, "D", [[(A, 2, 0), (B, 8, 0)]])]
        if p == "splat_gen":
            return gen, ["l0 := [0, *pg(1)]"], [("S", stop, "D", [[(A, 1, 0), (B, 3, 0)]])]
        if p == "splat_iter":
            return it, ["l0 := [0, *PI()]"], [("S", stop, "D", [[(A, 1, 0), (B, 8, 0)]])]
        if p == "next_catch":
            return gen, ["g0 := pg(1)", "do", "  g0.next", "  g0.next", "  g0.next", "catch e0", "  println(\"c\")", "end"], \
                [("C", stop, "D", [[(A, 5, 0), (B, 3, 0)], [(A, 5, 0)]])]
        if p == "catch_cb":
            return ["def pt(x: Int): Int", "  throw unchecked " + lit1, "end"], \
                ["do", "  [1, 2].map |y: Int|: Int -> 1 + pt(y)", "catch e0", "  println(\"c\")", "end"], \
                [("C", v, "D", [[(A, 2, 0), (CLOSURE_ID, 2, 0), (B, 2, 0)], [(A, 2, 0)]])]
        if p == "catch_await":
            return ["async def pa(x: Int): Int", "  throw unchecked " + lit1, "end"], \
                ["do", "  await_sync pa(1)", "catch e0", "  println(\"c\")", "end"], []
        if p == "catch_gen_for":
            return ["def *pq(x: Int): Int", "  yield 1", "  throw unchecked " + lit1, "end"], \
                ["s0 := 0", "do", "  for v0 in pq(1)", "    s0 += v0", "  end", "catch e0", "  println(\"c\")", "end"], \
                [("S" if lit1 == ":stop_iteration" else "C", v, "D", [[(A, 3, 0), (B, 3, 0)], [(A, 3, 0)]])]   # NEXT takes a :stop_iteration for the end
        return [], [], []

    def vcode(self, kind):
        if kind == "stop":
            return "i5"
        idx = [k[0] for k in VKINDS].index(kind)
        return ("r%d" if VK[kind][2] == "reference" else "i%d") % (100 + idx)

    def build(self):
        r = self.r
        n = len(self.kinds)
        tramps = []
        bodies, marks, mks = {}, {}, {}
        for i in range(1, n):
            k = self.kinds[i - 1]
            ind = "  "
            # a generator reaches the next function at its FIRST resumption (`.next` resumes it once)
            b, m, mk = self.emit_frame(i, ind, "yield " if k == "gen" else "", "x", tramps)
            bodies[i] = b + ([ind + "3"] if k == "gen" else [])
            marks[i] = m
            mks[i] = mk
        tb, tsite = self.thrower("  ")
        bodies[n] = tb + (["  yield 2", "  3"] if self.kinds[n - 1] == "gen" and VK[self.vkind][1] is not None else [])
        marks[n] = {"site": tsite}
        # script frame
        sb, sm, smk = self.emit_frame(0, "", "r := ", str(r.range(1, 9)), tramps)
        mks[0] = smk
        d1, s1, self.episodes = self.phase1()
        # assemble: definitions in random order
        units = []
        for i in range(1, n + 1):
            k = self.kinds[i - 1]
            head = {"def": "def f%d(x: Int): Int", "async": "async def f%d(x: Int): Int", "gen": "def *f%d(x: Int): Int",
                    "mod": "def f%d(x: Int): Int", "inst": "def f%d(x: Int): Int"}[k] % i
            wrapl = {"mod": "module M%d" % i, "inst": "class K%d" % i}.get(k)
            units.append(("f", i, wrapl, head, bodies[i]))
        for (j, mname, head, expr, incl) in tramps:
            units.append(("t", j, "class T%d" % j, head, expr, incl, mname))
        if d1:
            units.append(("p", d1))
        r.shuffle(units)
        out = ["class E1 < Error; end"]
        defline, trampline = {}, {}
        for u in units:
            self.pad(out, "")
            if u[0] == "p":
                out += u[1]
            elif u[0] == "f":
                _, i, wrapl, head, body = u
                ind = "  " if wrapl else ""
                if wrapl:
                    out.append(wrapl)
                out.append(ind + head)
                defline[i] = len(out)
                for l in body:
                    out.append((ind + l) if l else l)
                out.append(ind + "end")
                if wrapl:
                    out.append("end")
            else:
                _, j, cls, head, expr, incl, mname = u
                out.append(cls)
                if incl:
                    out.append(incl)
                out += ["  var @v: Int", "  init(v: Int)", "    @v = v", "  end"]
                self.pad(out, "  ")
                out.append("  " + head)
                self.pad(out, "    ")
                trampline[j] = len(out) + 1
                out.append("    " + expr)
                out += ["  end", "end"]
                self.names["T%d.:%s" % (j, mname)] = TRAMP_BASE + j
        self.pad(out, "")
        out += s1
        self.pad(out, "")
        base0 = len(out)
        out += sb
        out.append("println(r.inspect)")
        self.lines = out
        for i in range(1, n + 1):
            self.names[self.fname(i)] = i

        def line_of(i, what):
            if i == 0:
                return base0 + sm[what] + 1
            return defline[i] + marks[i][what] + 1

        threads, cuts = [[]], [[]]
        tcc = 0
        name = SCRIPT_ID
        for i in range(0, n):
            via = self.vias[i]
            mk = mks[i]
            cur = threads[-1]
            if via == "tail":
                tcc += 1
            elif mk.get("closure") or via == "cb:times":
                cur.append((name, line_of(i, "outer"), tcc))
                if via in NESTED:
                    cuts[-1].append(len(cur) - 1)
                cur.append((CLOSURE_ID, line_of(i, "site"), 0)); tcc = 0
            elif "tramp" in mk:
                cur.append((name, line_of(i, "outer"), tcc))
                if via in NESTED:
                    cuts[-1].append(len(cur) - 1)
                cur.append((TRAMP_BASE + i + 1, trampline[i + 1], 0)); tcc = 0
            else:
                cur.append((name, line_of(i, "site"), tcc)); tcc = 0
                if via in NESTED:
                    cuts[-1].append(len(cur) - 1)
                if mk.get("await"):
                    threads.append([]); cuts.append([])
            name = i + 1
        threads[-1].append((name, line_of(n, "site"), tcc))
        self.threads, self.cuts = threads, cuts
        self.expected = [e for t in threads for e in t]

    def source(self):
        return "\n".join(self.lines) + "\n"

    def scenario(self):
        """hist scenario for the extracted model: earlier episodes, then the final error with the snapshot of every
        instruction it is handed back to, then the awaiting threads"""
        r = vlib.SplitMix(self.r.next())

        def frame_txt(name, line, tcc):
            ops, off = [], 0
            for _ in range(r.range(0, 3)):
                b = r.range(1, 4); ops.append("a%d:%d" % (max(1, line + r.range(-6, 6)), b)); off += b
            b = r.range(1, 3); ops.append("a%d:%d" % (line, b)); off += b
            if r.chance(1, 2):
                e = r.range(1, 4); ops.append("b%d" % e); off += e
            ip = off
            for _ in range(r.range(0, 2)):
                ops.append("a%d:%d" % (line + r.range(1, 5), r.range(1, 4)))
            return "%d,%d,%d,%d,%s" % (name, FILE_ID, ip, tcc, ".".join(ops))

        def snap(ftxt, k):
            return ";".join(["E"] + ["B," + f for f in ftxt[:k]] + ["C," + ftxt[k]])

        def origin(entries, cuts):
            ftxt = [frame_txt(*e) for e in entries]
            snaps = [snap(ftxt, len(ftxt) - 1)] + [snap(ftxt, k) for k in reversed(cuts)]
            return "^".join(snaps)

        eps = []
        for (en, v, k, ths) in self.episodes:
            full = ths[0]
            cut = [len(t) - 1 for t in ths[1:]]
            eps.append("%s~%s~%s~%s" % (en, v, k, origin(full, cut)))
        lit = VK[self.vkind][1]
        vc = "i5" if self.vkind in ("native_stop", "stop_sym") else self.vcode(self.vkind)
        eps.append("T~%s~%s~%s" % (vc, "D" if lit is not None else "N", origin(self.threads[-1], self.cuts[-1])))
        txt = "hist 10 " + " # ".join(eps)
        aw = []
        for t in reversed(self.threads[:-1]):
            ftxt = [frame_txt(*e) for e in t]
            aw.append(snap(ftxt, len(ftxt) - 1))
        if aw:
            txt += " @ " + "|".join(aw)
        return txt


TRACE_RE = re.compile(r"^\s*(\d+): (.*):(-?\d+), in `(.*)`$")
TAIL_RE = re.compile(r"^\s*\.\.\. (\d+) optimised tail call")


def parse_trace(out, fname):
    """-> list of (name string, line, tcc) or None when no stack trace was printed"""
    if "Stack trace (the most recent call is last)" not in out:
        return None
    res, tcc = [], 0
    for l in out.splitlines():
        m = TAIL_RE.match(l)
        if m:
            tcc = int(m.group(1))
            continue
        m = TRACE_RE.match(l)
        if m:
            res.append((m.group(4), int(m.group(3)), tcc, os.path.basename(m.group(2))))
            tcc = 0
    return res


def name_id(p, s, fname):
    if s == "<closure>":
        return CLOSURE_ID
    if os.path.basename(s) == fname:
        return SCRIPT_ID
    if isinstance(p, VProg):
        return p.names.get(s, -1)
    for i in range(1, len(p.kinds) + 1):
        if p.fname(i) == s:
            return i
    return -1


def fmt(entries):
    return " ".join("%d:%d:%d" % e for e in entries)


def classify(p, exp, obs):
    """canonical class of a mismatch (stable across seeds)"""
    if len(obs) < len(exp) and obs == exp[:len(obs)]:
        # which link was being crossed when the chain stops?
        depth = 0
        cut = len(obs)
        count = 0
        for i, via in enumerate(p.vias):
            count += {"tail": 0, "closure": 2, "closure_ml": 2, "map": 2, "closure_tail": 1}.get(via, 1)
            if count >= cut:
                if via in ("map", "for"):
                    return "truncated-after-native:" + via
                return "truncated:" + via
        return "truncated:throw"
    if len(obs) == len(exp):
        for k, (a, b) in enumerate(zip(exp, obs)):
            if a != b:
                what = "line" if (a[0], a[2]) == (b[0], b[2]) else ("tailcalls" if (a[0], a[1]) == (b[0], b[1]) else "frame")
                fi = 0 if a[0] == SCRIPT_ID else a[0]
                return "wrong-%s" % what + (":wide-prologue" if what == "line" and fi in p.wide else "")
    return "chain-differs:%s" % ("longer" if len(obs) > len(exp) else "shorter")


def vclassify(p, exp, obs):
    """canonical class of a mismatch of a third-generation program: what happened x boundary family x value class"""
    cls = VK[p.vkind][2] if VK[p.vkind][1] is not None else "native-" + VK[p.vkind][2]
    if p.ph1 != "none" and any(e[0] == -1 for e in obs):
        return "stale-trace:%s:%s" % (p.ph1, cls)
    if len(obs) < len(exp) and obs == exp[:len(obs)]:
        count = 0
        for i, via in enumerate(p.vias):
            count += 0 if via == "tail" else (2 if (via.startswith("cb:") or via.startswith("tr:") or via == "closure") else 1)
            if count >= len(obs):
                return "truncated-at:%s:%s" % (link_family(via), cls)
        return "truncated-at:throw:%s" % cls
    if len(obs) == len(exp):
        for a, b in zip(exp, obs):
            if a != b:
                what = "line" if (a[0], a[2]) == (b[0], b[2]) else ("tailcalls" if (a[0], a[1]) == (b[0], b[1]) else "frame")
                return "wrong-%s:%s" % (what, cls)
    return "chain-differs:%s:%s" % ("longer" if len(obs) > len(exp) else "shorter", cls)


def value_programs(ctx, stream):
    """third generation (own random streams): thrown value kind x boundary kind, and two-phase programs"""
    progs = []
    vr = ctx.rng(stream + ".values")
    names = [k[0] for k in VKINDS]
    per_b = ctx.n(5, 60)
    for b in BOUNDARIES:
        ks = list(names)
        vr.shuffle(ks)
        inl = [k for k in ks if VK[k][2] == "inline"]
        for k in ks[:per_b - 2] + inl[-2:]:
            progs.append(VProg(vr.below(1 << 40), vr.range(1, 5), k, b))
    for k in names:
        for _ in range(ctx.n(2, 40)):
            progs.append(VProg(vr.below(1 << 40), vr.range(1, 6), k, vr.choice(["", ""] + BOUNDARIES)))
    hr = ctx.rng(stream + ".history")
    for ph in PHASE1:
        ks = list(names)
        hr.shuffle(ks)
        for k in ["native_stop", "stop_sym", "symbol", "string"] + ks[:ctx.n(3, 40)]:
            for _ in range(ctx.n(3, 12) if k == "native_stop" else ctx.n(1, 6)):
                progs.append(VProg(hr.below(1 << 40), hr.range(1, 4), k, hr.choice(["", ""] + BOUNDARIES), ph))
    return progs


def prog_stream(ctx, elk, model):
    stream = "c32.prog"
    rng = ctx.rng(stream)
    progs = []
    corpus = os.path.join(vlib.ROOT, "corpus", "C32.prog.txt")
    if os.path.exists(corpus):
        for l in open(corpus):
            l = l.strip()
            if l and not l.startswith("#"):
                kv = dict(x.split("=", 1) for x in l.split())
                if "v" in kv:
                    progs.append(VProg(int(kv["seed"]), int(kv["depth"]), kv["vkind"], kv.get("boundary", ""), kv.get("ph1", "none")))
                else:
                    progs.append(Prog(int(kv["seed"]), int(kv["depth"]), kv.get("force", "")))
    ncorpus = len(progs)
    n = ctx.n(290, 10000)
    forces = ["", "", "", "map", "for", "await", "tail", "closure_ml", "closure_tail"]
    for k in range(n):
        progs.append(Prog(rng.below(1 << 40), rng.range(1, 8), rng.choice(forces)))
    # second generation (own random stream, so the programs above are unchanged per seed): functions with a wide
    # PREP_LOCALS prologue somewhere in the chain
    wrng = ctx.rng(stream + ".wide")
    for k in range(ctx.n(44, 1500)):
        progs.append(Prog(wrng.below(1 << 40), wrng.range(1, 6), wrng.choice(["wide", "wide", "wide", "wide16"])))
    # third generation: the thrown value kind and the boundary kind are generator dimensions; two-phase programs
    vprogs = value_programs(ctx, stream)
    progs += vprogs
    ids = ["p%d" % k for k in range(len(progs))]
    # model expectation
    inputs = {i: p.scenario() for i, p in zip(ids, progs)}
    rc, mexp, mout = vlib.run_model(model, ids, inputs)
    if rc != 0:
        ctx.broke("correspondence %s: model driver exited %d" % (stream, rc), mout[-2000:])
    results = vlib.run_programs(elk, [(i, p.source()) for i, p in zip(ids, progs)],
                                os.path.join(ctx.workdir, "prog"), timeout=60)
    dist, distinct, samples = {}, set(), []
    usable = crashed = mism = 0
    for i, p in zip(ids, progs):
        fname = i + ".elk"
        exp = p.expected
        m = mexp.get(i)
        if m != fmt(exp):
            ctx.broke("c32.prog: extracted model and generator disagree on the expected chain for %s" % p.spec,
                      "model=%s generator=%s" % (m, fmt(exp)))
            continue
        rc_, out, cls = results[i]
        isv = isinstance(p, VProg)
        for v in set(p.vias):
            dist[v] = dist.get(v, 0) + 1
        dist["depth%d" % len(p.kinds)] = dist.get("depth%d" % len(p.kinds), 0) + 1
        if p.wide:
            dist["wide-prologue"] = dist.get("wide-prologue", 0) + 1
        if isv:
            for k in ("value=" + p.vkind, "history=" + p.ph1):
                dist[k] = dist.get(k, 0) + 1
            for v in set(p.vias):
                if v in NESTED:
                    k = "crossing:%s:%s" % (link_family(v), VK[p.vkind][2] if VK[p.vkind][1] is not None else "native-" + VK[p.vkind][2])
                    dist[k] = dist.get(k, 0) + 1
        tr = parse_trace(out, fname)
        if cls in ("go_panic", "go_fatal", "timeout", "signal") or tr is None or \
                (('Uncaught thrown value: "boom"' not in out) if not isv else ("Error! Uncaught" not in out)):
            crashed += 1
            dist["unusable:" + cls] = dist.get("unusable:" + cls, 0) + 1
            if crashed <= 3:
                samples.append({"spec": p.spec, "unusable": cls, "output": out[:300]})
            continue
        usable += 1
        obs = [(name_id(p, s, fname), ln, tc) for (s, ln, tc, f) in tr]
        badfile = [f for (_, _, _, f) in tr if f != fname]
        distinct.add((tuple(p.kinds), tuple(p.vias), tuple(p.layouts)) + ((p.vkind, p.ph1) if isv else ()))
        if len(samples) < 4:
            samples.append({"spec": p.spec, "expected": fmt(exp), "observed": fmt(obs)})
        if obs != exp or badfile:
            mism += 1
            key = "prog:" + ("wrong-file" if badfile and obs == exp else (vclassify(p, exp, obs) if isv else classify(p, exp, obs)))
            ctx.fail(key, "%s (kinds=%s vias=%s): printed chain [%s], active chain [%s]" % (
                p.spec, ",".join(p.kinds), ",".join(p.vias), fmt(obs), fmt(exp)),
                stream=stream, case={"spec": p.spec, "source": p.source()}, impl=fmt(obs), model=m,
                oracle="printed stack trace differs from the chain of frames active at the throw "
                       "(entries are function:line:tail-calls; 900=<closure>, 901=script)")
    total = len(progs)
    if total and crashed * 10 > total:
        ctx.broke("c32.prog: %d of %d generated programs were unusable (crash/timeout/no trace)" % (crashed, total),
                  str([s for s in samples if "unusable" in s][:2]))
    ctx.stream(stream, usable, len(distinct),
               "generated call chains of depth 1-8 (top-level defs, module and instance methods, closures, native map "
               "callbacks, async/await, generators in for loops; tail and non-tail calls; single- and multi-line call "
               "layouts; random blank/comment padding) ending in `throw`; `elk run`, stack trace parsed and compared with "
               "the chain computed by the extracted Coq trace model from the generator's frame scenario; third generation "
               "(value_programs): thrown value kind (26 kinds: references, inline values, native errors) x boundary kind (21) "
               "x earlier swallowed/caught error (8 phase-1 forms), expectation from the extracted stored-trace protocol "
               "model (`reported`, fixed configuration); "
               "distinct = distinct (kinds, call forms, layouts[, value kind, phase 1]) skeletons",
               samples, dist, mismatches=mism, corpus_cases=ncorpus, unusable=crashed)


def run(ctx):
    ctx.explanation = (
        "Proved (Coq, all operation sequences by induction over fold_left): the run-length line table refines the plain "
        "byte->line list for every sequence of AddLineNumber/AddBytesToLastLine/RemoveByte(s) and of the compiler's "
        "prologue insertion (prepLocals: n bytes credited to the first run = n copies of the line of byte 0 in front of the "
        "plain list) within the callers' preconditions, incl. identical panics; C32_prologue_shift: after the insertion "
        "every old offset i answers at i+n, the inserted offsets answer the first line, the table accounts for n more bytes; "
        "BuildStackTrace lists exactly the non-empty frames in stack order with the running function last and lines taken "
        "at ip-1; BuildStackTracePrepend/await chains concatenate outermost first; the stored-trace protocol of "
        "vm/thread.go (errStackTrace/errValue: rethrow stores at a stopVM frame, throwIfErr reuses the stored trace for an "
        "equal value, with the fix that it forgets the trace when its instruction finished without an error) prints, for "
        "every earlier history of swallowed/caught errors of any value and every uncaught error handed back through any "
        "number of nested runs, the trace assembled at the ORIGINAL throw (C32_reported_trace), independent of the error "
        "value - trace assembly takes no value at all (C32_trace_value_independent); as found (no clearing) this holds only "
        "without earlier swallowed errors (_as_found_partial, C32_stale_trace_as_found_refuted), and reusing the trace for "
        "references only loses the nested frames of every inline value (C32_reference_only_reuse_refuted). "
        "Differential only: that the compiler emits the right line for each instruction and credits the prologue with its "
        "real size (c32.lines: every function of compiled programs, incl. shapes around the PREP_LOCALS8/16 boundary and "
        "65530+ locals, is decoded and its table compared at every byte offset with the table the extracted model builds "
        "from the decoded (line, size) operations plus the prologue; implementation-level oracles: table bytes = "
        "len(Instructions), no instruction on two lines, lines within the function's span, calls/literals that name their "
        "line are on it), and that the VM's frames are the active call chain (tail calls, nested runs under native methods, "
        "promises) - c32.prog: generated programs, incl. chains through functions with a wide prologue whose call is the "
        "last instruction of its line, whose printed trace is compared with the chain the extracted model assembles from "
        "the generator's frame scenario; third generation: the THROWN VALUE KIND (String, Error subclass, big Int, BigFloat, "
        "list; Symbol, :stop_iteration, small Int, Float, Bool, nil, Char, every sized int/float; errors created by native "
        "code: a native iterator's :stop_iteration, ZeroDivisionError) crossed with every boundary kind (native callbacks "
        "map/filter/fold/tuple map/set map/map_values/times, user `==` called by native list ==/contains, user `next` "
        "driven by `for`/splat, user `inspect` in interpolation, user `+` from an instruction, plain closures, direct and "
        "tail calls, await/await_sync, generators driven by `for`/`next`/splat) and with an earlier phase in which an error "
        "is swallowed (exhausted generator/iterator in `for`/splat) or caught (across a callback, a generator, a promise); "
        "the expected trace is what the extracted `reported` (fixed configuration) gives for the history, so the "
        "stale-trace defect of the unchanged tree shows up as known finding prog:stale-trace:* until "
        "fixes/C32-stale-stored-trace.patch is applied. That the generated program's events ARE the model's history "
        "(which links are nested runs, phase-1 snapshots) is the generator's claim, not proved.")
    ctx.trusted_base += [
        "Go int modelled as unbounded Z for byte counts (no overflow: counts are bounded by one function's bytecode size)",
        "compiler.removeBytes (direct InstructionCount edit when an empty EXEC block is dropped) is not modelled; its results "
        "are covered by the implementation-level oracles of c32.lines and end to end by c32.prog",
        "c32.lines reconstructs the operation sequence from the compiled function (real disassembler for instruction sizes, "
        "the table itself for the line of each instruction's first byte): it ties table shape, byte totals and prologue "
        "accounting to the model, not the compiler's choice of line, which only the marker oracle and c32.prog check",
        "c32.prog expectation: call-site line = first line of the call expression; frame scenario (ip, tables) is synthetic",
        "c32.prog third generation: the mapping program -> model history (origin kind, which links hand the error back "
        "through native code, value class reference/inline; phase-1 thread snapshots are synthetic - the proved result does "
        "not depend on them); Go's == on value.Value modelled as address equality for references and payload equality for "
        "inline values",
    ]
    ctx.run_proof_gate()
    h = vlib.build_harness("c32")
    m = vlib.build_model("C32")
    vlib.value_stream(ctx, "c32.rle", h, m, ctx.n(4000, 200000), rle_key,
                      "seeded sequences of 1-120 operations on the real bytecode.LineInfoList (few distinct lines so runs "
                      "merge; removals aimed at run boundaries, at emptying the table and one past it; AddBytes on an empty "
                      "table; ~0.3% operations outside the theorem's domain) querying GetLineNumber at every offset -1..n+1; "
                      "second oracle o= compares with a plain []int kept by the harness; distinct by full input",
                      corpus=os.path.join(vlib.ROOT, "corpus", "C32.rle.txt"),
                      nontrivial=lambda i, o: len(i.split()) >= 3, classify=rle_class)
    lines_stream(ctx, h, m)
    elk = vlib.build_elk()
    prog_stream(ctx, elk, m)
