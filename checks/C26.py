"""C26 — symbol interning is a bijection under concurrency."""
import os
import re
import vlib

GEN_V = os.path.join(vlib.COQ, "Gen", "C26_SymTab.v")


def regenerate(ctx):
    """run the AST extractor on the current tree and (re)write coq/Gen/C26_SymTab.v"""
    gen = vlib.build_harness("c26gen")
    src = os.path.join(vlib.REPO, "value", "symbol_table.go")
    rc, out = vlib.sh([gen, "-src", src], timeout=120)
    if rc != 0 or "Definition gen_functions" not in out:
        ctx.broke("tie: micro-op extraction from value/symbol_table.go failed (statement outside the known patterns)",
                  out[-2000:])
        return False
    vlib.write_if_changed(GEN_V, out)
    ctx.extra["extracted_ops"] = re.findall(r"\((F\w+), \[([^\]]*)\]\)", out)
    return True


# ---------------------------------------------------------------- seq stream

def seq_split(obs):
    if " | T" not in obs:
        return None, None
    res, tab = obs.split(" | T", 1)
    return res.split(), [k for k in tab.split(",") if k]


def seq_key(inp, obs, exp):
    if obs.startswith("panic"):
        return "seq:panic"
    ops = inp.split()
    ro, to = seq_split(obs)
    re_, te = seq_split(exp)
    if ro is None or re_ is None:
        return "seq:format"
    for i, op in enumerate(ops):
        a = ro[i] if i < len(ro) else "?"
        b = re_[i] if i < len(re_) else "?"
        if a != b:
            cls = {"A": "add", "G": "get", "N": "getname", "E": "existsid"}.get(op[0], "?")
            flag = lambda x: x.rsplit(",", 1)[-1] if "," in x or x in ("t", "f") else "id"
            return "seq:%s:impl-%s:model-%s" % (cls, flag(a), flag(b))
    return "seq:final-table"


def seq_property(inp, obs):
    """the property evaluated directly on the implementation's own outputs of one sequence"""
    ops = inp.split()
    res, tab = seq_split(obs)
    if res is None or len(res) != len(ops):
        return "format"
    ids = {}
    names = {}
    for op, r in zip(ops, res):
        k = op[1:]
        if op[0] == "A":
            i = int(r)
            if k in ids and ids[k] != i:
                return "same-name-same-id"
            if i in names and names[i] != k:
                return "distinct-names-distinct-ids"
            if k not in ids and i != len(ids):
                return "dense"
            ids[k] = i
            names[i] = k
        elif op[0] == "G":
            v, ok = r.split(",")
            if ok == "t" and ids.get(k) != int(v):
                return "get-hit"
            if ok == "f" and (k in ids or v != "-1"):
                return "get-miss"
        elif op[0] == "N":
            v, ok = r.split(",")
            i = int(k)
            if (ok == "t") != (i in names):
                return "getname-range"
            if ok == "t" and names[i] != v:
                return "getname-of-id"
            if ok == "f" and v != "1":
                return "getname-miss"
    if tab != [names[i] for i in range(len(names))]:
        return "final-table"
    return None


def stream_seq(ctx, h, m):
    stream = "c26.seq"
    r = vlib.value_stream(
        ctx, stream, h, m, ctx.n(1000, 40000), seq_key,
        "seeded sequences (1-40 ops, thorough 1-200) of Add/Get/GetName/ExistsId over 16 names (empty, NUL, invalid UTF-8, "
        "composed/decomposed e-acute, CJK, emoji, 300 bytes) and boundary symbols on a fresh table; every result and the final "
        "id table compared with the extracted micro-op model run on the regenerated op table; non-trivial = at least one Add "
        "of an already interned name and one lookup; distinct by full input",
        corpus=os.path.join(vlib.ROOT, "corpus", "C26.seq.txt"),
        harness_args=("-extra", "seq"), model_args=("seq",),
        classify=lambda i, o: "len<=10" if len(i.split()) <= 10 else ("len<=40" if len(i.split()) <= 40 else "len>40"),
        nontrivial=lambda i, o: (len([x for x in i.split() if x[0] == "A"]) > len(set(x for x in i.split() if x[0] == "A"))
                                 and any(x[0] in "GN" for x in i.split())))
    if not r:
        return
    ids, inputs, obs, exp = r
    bad = 0
    for i in ids:
        c = seq_property(inputs[i], obs[i])
        if c:
            bad += 1
            if bad <= 50:
                ctx.fail("seq:property:" + c, "%s -> %s violates %s" % (inputs[i], obs[i], c), stream=stream,
                         case=inputs[i], impl=obs[i], model=exp.get(i), oracle="bijection evaluated on the implementation's outputs: " + c)
    ctx.streams[stream]["property_violations"] = bad


# ---------------------------------------------------------------- conc stream

def run_conc(ctx, stream, exe, n, mode, m, corpus=None, gating_race=False, timeout=3000):
    cmd = [exe, "-seed", str(ctx.sseed(stream)), "-n", str(n), "-tier", ctx.tier, "-extra", mode]
    if corpus and os.path.exists(corpus):
        cmd += ["-input", corpus]
    env = vlib.elk_env({"GORACE": "halt_on_error=0"})
    rc, out = vlib.sh(cmd, timeout=timeout, env=env)
    races = out.count("WARNING: DATA RACE")
    ids, inputs, obs = vlib.parse_case_lines(out)
    if not ids or (rc != 0 and not races):
        ctx.broke("correspondence %s: harness exited %d" % (stream, rc), out[-3000:])
        if not ids:
            return None
    exp = {}
    if m:
        rc2, exp, mout = vlib.run_model(m, ids, obs, args=("conc",), timeout=timeout)
        if rc2 != 0:
            ctx.broke("correspondence %s: model driver exited %d" % (stream, rc2), mout[-3000:])
    dist = {}
    distinct = set()
    nfail = 0
    for i in ids:
        f = inputs[i].split()
        cls = "G=%s%s" % (f[0], " existsid" if f[-1] == "1" else "")
        dist[cls] = dist.get(cls, 0) + 1
        verdict = obs[i].split(" | ", 1)[0]
        ntab = len([k for k in obs[i].split(" | ")[1][1:].split(",") if k]) if " | T" in obs[i] else 0
        if ntab >= 2:
            distinct.add(inputs[i])
        if verdict != "ok":
            nfail += 1
            clause = verdict.split(":")[1] if ":" in verdict else "format"
            ctx.fail("conc:" + clause, "goroutines/names/ops/seed/existsid = %s: %s" % (inputs[i], verdict), stream=stream,
                     case=inputs[i], impl=obs[i][:2000], model=exp.get(i), oracle="bijection on the merged results of all goroutines: " + clause)
        elif m and exp.get(i) != "ok":
            nfail += 1
            e = exp.get(i) or "no-answer"
            kind = e[4:5] if e.startswith("bad:") else "x"
            ctx.fail("conc:model:" + kind, "%s: observation %s is not an outcome of the sequential model on the final table order" % (inputs[i], e),
                     stream=stream, case=inputs[i], impl=obs[i][:2000], model=e,
                     oracle="every observation must be reproduced by the extracted model replaying the final id table as Adds")
    return dict(ids=ids, inputs=inputs, obs=obs, dist=dist, distinct=distinct, races=races, rc=rc, out=out, nfail=nfail)


def run(ctx):
    ctx.explanation = (
        "Proved (Coq, for every schedule of any number of threads, induction over run_sched): on the interleaving model of the "
        "micro-op sequences extracted from value/symbol_table.go, nameTable and idTable stay a dense bijection whenever no writer "
        "holds the lock, ids never change, all results handed to callers agree (same name same symbol, distinct names distinct "
        "symbols, GetName of a handed-out symbol is its name), the linearisation events replay on the sequential specification "
        "(C26_atomic_partial: the link between a call's return value and its own linearisation event is NOT proved), a GetName "
        "call started after Add handed out a symbol always returns that name (C26_getname_of_add), lock coverage of every function touching map/slice elements, and "
        "ExistsId (unlocked length read) gives only true answers that stay true. The op sequences are regenerated from the Go AST "
        "on every run and must equal the ones the proofs are about. Only differential-tested: that Go's map/slice/RWMutex behave as "
        "the model's micro-ops (c26.seq: implementation vs extracted model; c26.conc: real goroutines, bijection checked on the "
        "merged results and against the model; thorough: the same under the race detector). The Go memory model is not modelled: "
        "micro-ops are sequentially consistent, which is justified for the lock-covered functions only (data-race freedom), and "
        "for ExistsId rests on the word-sized racy read of the slice length.")
    ctx.trusted_base += [
        "sync.RWMutex modelled as writer-exclusive / readers-shared (writer preference ignored: it only removes schedules)",
        "Go map (string keys compared bytewise) and slice append modelled as a function update and list append; names as injective integer keys",
        "harness/cmd/c26gen: the pattern extractor from the Go AST to micro-ops (a statement it does not know aborts the check)",
        "micro-ops are atomic and sequentially consistent (Go memory model not modelled)",
    ]
    regenerated = regenerate(ctx)
    ctx.run_proof_gate()
    h = vlib.build_harness("c26")
    m = None
    try:
        if os.path.exists(GEN_V):
            m = vlib.build_model("C26")
    except vlib.BuildError as e:
        ctx.broke("model build failed", str(e)[-2000:])
    if m:
        stream_seq(ctx, h, m)
    # concurrent runs
    stream = "c26.conc"
    rule = ("fresh table, 2-64 goroutines released together, 1-48 names (overlapping), 5-300 (thorough 5-2000) ops each: Add / Get / "
            "GetName of an id the goroutine was handed (must succeed with that name) / GetName and ExistsId of arbitrary ids; oracle 1: "
            "bijection on the merged results (same name same id, distinct names distinct ids, dense, final table backs every id); "
            "oracle 2: the extracted model replays the final table as Adds and must reproduce every distinct observation; "
            "non-trivial = at least 2 names interned; distinct by input")
    c = run_conc(ctx, stream, h, ctx.n(60, 600), "conc", m, corpus=os.path.join(vlib.ROOT, "corpus", "C26.conc.txt"))
    if c:
        ctx.stream(stream, len(c["ids"]), len(c["distinct"]), rule,
                   [{"input": c["inputs"][i], "observed": c["obs"][i][:300]} for i in c["ids"][:2] + c["ids"][-1:]],
                   c["dist"], failures=c["nfail"])
    if ctx.tier == "thorough":
        stream = "c26.race"
        try:
            hr = vlib.build_harness("c26", race=True)
        except vlib.BuildError as e:
            hr = None
            ctx.extra["race_detector"] = "race build not possible here: " + str(e)[-400:]
        if hr:
            c0 = run_conc(ctx, stream, hr, 800, "conc0", m)
            if c0:
                if c0["races"]:
                    mm = re.search(r"WARNING: DATA RACE[\s\S]{0,1500}", c0["out"])
                    ctx.fail("race:lock-covered", "race detector reports %d data race(s) among Add/Get/GetName" % c0["races"],
                             stream=stream, case=c0["inputs"][c0["ids"][0]], impl=(mm.group(0) if mm else ""), model="race-free",
                             oracle="lock-covered functions must be data-race free")
                ctx.stream(stream, len(c0["ids"]), len(c0["distinct"]),
                           "as c26.conc without ExistsId, harness built with -race; any report among Add/Get/GetName is a failure",
                           [{"input": c0["inputs"][i], "observed": c0["obs"][i][:200]} for i in c0["ids"][:2]], c0["dist"],
                           race_reports=c0["races"], failures=c0["nfail"])
            # informational: the unlocked ExistsId under the race detector (not gating, see C26_existsid_benign)
            cmd = [hr, "-seed", str(ctx.sseed("c26.race.existsid")), "-n", "40", "-tier", "quick", "-extra", "conc"]
            rc, out = vlib.sh(cmd, timeout=1500, env=vlib.elk_env({"GORACE": "halt_on_error=0"}))
            ctx.extra["race_detector"] = "available"
            ctx.extra["existsid_race_reports_informational"] = out.count("WARNING: DATA RACE")
            ctx.extra["existsid_race_involves_only_ExistsId"] = all(
                "ExistsId" in blk for blk in re.findall(r"WARNING: DATA RACE[\s\S]*?={18}", out)) if "DATA RACE" in out else True


def setup_gen():
    """called by setup.sh: write coq/Gen/C26_SymTab.v before the full make"""
    regenerate(vlib.Ctx("C26", "quick", 1))
